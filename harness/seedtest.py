"""Confirm a seeded change (patch + demo) in a scratch worktree and run the property's check against it.
usage: seedtest.py <seed dir with patch.diff demo.py meta.json> <seed id> [--suite]
Writes /verif/seeded/<seed id>/{patch.diff,demo.py,meta.json}."""
import json
import os
import shutil
import subprocess
import sys

src, sid = sys.argv[1], sys.argv[2]
suite = "--suite" in sys.argv
meta = json.load(open(os.path.join(src, "meta.json")))
prop = meta["property"]
wt = f"/tmp/seedchk-{sid}"


def sh(cmd, cwd=None, env=None, timeout=1800):
    p = subprocess.run(cmd, shell=True, cwd=cwd, env=env, stdout=subprocess.PIPE, stderr=subprocess.STDOUT, timeout=timeout)
    return p.returncode, p.stdout.decode("utf-8", "replace")


out = {"seed": sid, "property": prop}
sh(f"git -C /repo worktree remove --force {wt}")
rc, o = sh(f"git -C /repo worktree add -q --detach {wt} HEAD")
assert rc == 0, o
shutil.copy("/repo/src/execnet/_version.py", f"{wt}/src/execnet/_version.py")
env = dict(os.environ, PYTHONPATH=f"{wt}/src", EXECNET_SRC=f"{wt}/src", PYTHONDONTWRITEBYTECODE="1")
try:
    rc0, o0 = sh(f"/venv/bin/python {src}/demo.py", cwd=wt, env=env, timeout=600)
    out["demo_unpatched_exit"] = rc0
    rc, o = sh(f"git apply {src}/patch.diff", cwd=wt)
    out["applies"] = rc == 0
    if rc != 0:
        out["apply_error"] = o[-400:]
    else:
        rc1, o1 = sh(f"/venv/bin/python {src}/demo.py", cwd=wt, env=env, timeout=600)
        out["demo_patched_exit"] = rc1
        out["demo_patched_tail"] = o1[-400:]
        if suite:
            rcs, os_ = sh("/venv/bin/python -m pytest -q -p no:cacheprovider --timeout=600 testing/ 2>&1 | tail -3", cwd=wt, env=env, timeout=1800)
            out["suite_tail"] = os_[-300:]
finally:
    sh(f"git -C /repo worktree remove --force {wt}")
# now the check against /repo with the patch
rc, o = sh(f"git -C /repo apply {src}/patch.diff")
try:
    if rc == 0:
        rcc, oc = sh(f"./check {prop} --tier quick", cwd="/verif", timeout=3000)
        out["check_exit"] = rcc
        import re as _re
        lines = []
        for l in oc.split("\n"):
            m = _re.search(r"VIOLATION property=\S+ replay=\S+( no-failing-input-found)?", l)   # stderr noise may share the line
            if m:
                lines.append(m.group(0))
            elif " tier=" in l or l.startswith("KNOWN") or l.startswith("TOOL"):
                lines.append(l)
        out["check_lines"] = [l[:300] for l in lines][:6]
finally:
    sh("git -C /repo checkout -- .")
dst = f"/verif/seeded/{sid}"
os.makedirs(dst, exist_ok=True)
shutil.copy(os.path.join(src, "patch.diff"), dst)
shutil.copy(os.path.join(src, "demo.py"), dst)
meta["confirmed"] = {k: out.get(k) for k in ("demo_unpatched_exit", "demo_patched_exit", "applies", "suite_tail")}
meta["detection"] = {"check": f"./check {prop} --tier quick", "exit": out.get("check_exit"), "lines": out.get("check_lines")}
json.dump(meta, open(os.path.join(dst, "meta.json"), "w"), indent=1)
print(json.dumps(out, indent=1)[:1500])
