/-
The invariant of guarded fine states (`FInv`) and what the coarse invariants of the abstraction (`ShapeInv`,
`IdInv`, proved for all reachable coarse states) say about the fine state.
-/
import ExecnetVerif.Proofs.Net.FineHandStep
import ExecnetVerif.Proofs.Net.Shape
import ExecnetVerif.Proofs.Net.Wire
namespace ExecnetVerif.Net.Fine
open ExecnetVerif.Net
set_option linter.unusedSimpArgs false

/-- every channel whose ENDMARKER is in a hand is alive, unregistered and has only ENDMARKERs queued -/
def FInv (f : FState) : Prop := ∀ k ∈ f.hand, HandOK ((f.st.side k.1).chans k.2)

theorem abs_eq (f : FState) : f.abs = f.hand.foldl putBack f.st := rfl

theorem FInv_finit : FInv finit := fun _ h => by cases h

@[simp] theorem foldl_putBack_registered (hand : List (Side × Nat)) (st : State) (s : Side) (i : Nat) :
    (((hand.foldl putBack st).side s).chans i).registered = ((st.side s).chans i).registered := by
  induction hand generalizing st with
  | nil => rfl
  | cons k t ih => simp only [List.foldl_cons, ih, putBack_registered]

/-- an alive channel of the fine state is not the one the next `newchannel` creates -/
theorem ne_count_of_alive (fails : Item → Bool) (f : FState) (hr : Reachable fails f.abs) (s : Side) (id : Nat)
    (ha : ((f.st.side s).chans id).alive = true) : id ≠ (f.st.side s).count := by
  have hshape := ShapeInv_reachable hr s id
  have hid := IdInv_reachable hr
  have hcr : ((f.abs.side s).chans id).created = true := by
    apply hshape.2.2.2.1
    rw [abs_eq, foldl_putBack_alive]; exact ha
  have hcnt : (f.abs.side s).count = (f.st.side s).count := by rw [abs_eq, foldl_putBack_count]
  rw [← hcnt]
  obtain ⟨h1, h2, h3, h4⟩ := hid
  cases s with
  | A =>
    have := h3 id hcr
    show id ≠ f.abs.a.count
    omega
  | B =>
    have := h4 id hcr
    show id ≠ f.abs.b.count
    omega

theorem eq_replicate_of_append_eq {l r : List QItem} {items : List Item} {k : Nat}
    (h : (QItem.endmarker :: l) ++ r = items.map QItem.item ++ List.replicate k QItem.endmarker) :
    l = List.replicate l.length QItem.endmarker := by
  cases items with
  | cons v t => simp at h
  | nil =>
    simp only [List.map_nil, List.nil_append] at h
    rw [List.eq_replicate_iff]
    refine ⟨rfl, fun b hb => ?_⟩
    have : b ∈ List.replicate k QItem.endmarker := by
      rw [← h]; simp [hb]
    exact (List.mem_replicate.mp this).2

/-- in a guarded-reachable fine state, whatever follows an ENDMARKER at the head of a queue are ENDMARKERs -/
theorem tail_replicate (fails : Item → Bool) (f : FState) (hr : Reachable fails f.abs) (s : Side) (id : Nat)
    (q : List QItem) (hq : ((f.st.side s).chans id).queue = some (QItem.endmarker :: q)) :
    q = List.replicate q.length QItem.endmarker ∧ ((f.st.side s).chans id).registered = false := by
  have hshape := ShapeInv_reachable hr s id
  obtain ⟨n, hn⟩ := foldl_putBack_queue f.hand f.st s id
  rw [hq] at hn
  simp only [Option.map] at hn
  obtain ⟨items, k, hk, hkr⟩ := hshape.1 _ hn
  refine ⟨eq_replicate_of_append_eq hk, ?_⟩
  have hk0 : k ≠ 0 := by
    intro h0; subst h0
    cases items <;> simp at hk
  have hrc : ((f.abs.side s).chans id).rclosed = true := by
    cases h : ((f.abs.side s).chans id).rclosed
    · exact absurd (hkr.mpr h) hk0
    · rfl
  have hreg : ((f.abs.side s).chans id).registered = false := by
    cases h : ((f.abs.side s).chans id).registered
    · rfl
    · have := (hshape.2.2.1 h).2.2.2
      rw [hrc] at this; cases this
  rw [abs_eq, foldl_putBack_registered] at hreg
  exact hreg

end ExecnetVerif.Net.Fine
