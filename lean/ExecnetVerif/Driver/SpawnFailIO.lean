/-
Driver command of the failing-thread-start model (C09).  Not part of any theorem.

  spf.run <code|pinned> s1 s0 f<r> x …     s1 = spawn (thread starts), s0 = spawn (start raises), f<r> = reply r finishes,
                                            x = trigger_shutdown
      → `<out> … | running=<n> accepted=<n> finished=<n> waitall=<true|false>`
      out = r<id> | shut | starterr | done | noten
-/
import ExecnetVerif.Model.SpawnFail
namespace ExecnetVerif
open SpawnFail

def parseSpfOp (s : String) : Option Op :=
  if s == "s1" then some (.spawn true)
  else if s == "s0" then some (.spawn false)
  else if s == "x" then some .shutdown
  else if s.startsWith "f" then (s.drop 1).toString.toNat?.map Op.finish
  else none

def renderSpfOut : Out → String
  | .reply r => s!"r{r}"
  | .refusedShutdown => "shut"
  | .startError => "starterr"
  | .done => "done"
  | .noten => "noten"

def spawnFailHandle : List String → Option String
  | "spf.run" :: cfg :: toks =>
    let c : Option Cfg := match cfg with
      | "code" => some codeCfg
      | "pinned" => some pinned
      | _ => none
    match c, toks.mapM parseSpfOp with
    | some c, some ops =>
      let (outs, p) := run c init ops
      some (" ".intercalate (outs.map renderSpfOut) ++
        s!" | running={p.running.length} accepted={p.accepted.length} finished={p.finished.length} waitall={waitallTrue p}")
    | _, _ => some "bad-op"
  | _ => none

end ExecnetVerif
