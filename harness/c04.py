"""C04 — connection loss at any byte never hangs or corrupts the survivor (DESIGN.md §4 C04)."""
from __future__ import annotations

from . import common, netprops

PROP = "C04"


def run(ctx):
    res = common.Result()
    res.rule = ("(a) op programs with `cut` vs the Lean Net model; (c) scenarios: the worker->initiator stream ends after a byte offset drawn uniformly over "
                "the whole stream (header, payload, between frames), 1-3 conversations, blocked receivers (1-2 per channel), waitclose callers and "
                "callbacks with endmarker, chunked reads, random schedules: obtained items are a prefix of the sent items, EOFError repeated, endmarker "
                "once, no hang, then newchannel/remote_exec/send -> OSError and hasreceiver() false; (d) byte level: every cut offset of small frame "
                "streams through the real read loops (shared with C08)")
    netprops.op_level(ctx, res, PROP, ctx.budget(350, 18000, 500), profile={"cut": True})
    netprops.run_scenarios(ctx, res, netprops.scenario_cut, ctx.budget(250, 60000, 800), "cut")
    # "plus real SIGKILLs at generated moments": a real worker process killed while it streams
    netprops.process_level_kill(ctx, res, nruns=ctx.budget(3, 24, 8))
    try:
        from . import c08
        if hasattr(c08, "byte_level_cuts"):
            c08.byte_level_cuts(ctx, res)
    except ImportError:
        pass
    return res


def search(ctx, prev):
    return run(ctx)


def replay(ctx, payload):
    c = payload["case"]
    if "ops" in c:
        return netprops.replay_ops(ctx, PROP, c["ops"].split(" ; "))
    return run(ctx)
