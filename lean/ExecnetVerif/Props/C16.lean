/-
C16 — Every transport is observationally equivalent for channel programs.
An endpoint depends on its transport only through the sequence of frames the transport delivers;
per direction a transport is a function from the frames written to the frames (and the ending) the
peer's receiver decodes.  The theorems say this function is the identity for the pipe, the socket
and the proxied (`via=`) transport, and pin the control-request table of the proxy.
Property theorems only (helper lemmas live in Proofs/ProxyLemmas, Proofs/FrameLemmas).
-/
import ExecnetVerif.Proofs.ProxyLemmas
import ExecnetVerif.Props.C08
import ExecnetVerif.Generated.Tables
namespace ExecnetVerif

/-- **C16 (popen).** Over a pipe, whatever the chunking, the peer decodes exactly the frames written
(T = id) and then a clean EOF. -/
theorem C16_popen (ms : List Msg) (chunks : List Bytes) (h : wfMsgs ms)
    (hflat : chunks.flatten = ms.flatMap encodeMsg) (hne : ∀ c ∈ chunks, c ≠ []) :
    popenTransport chunks = (ms, .eof) := by
  unfold popenTransport
  rw [C08_chunking chunks _ hflat hne, C08_stream ms h]

/-- **C16 (socket).** The same for `SocketIO` (its `read` is the same read-until-n loop over `recv`). -/
theorem C16_socket (ms : List Msg) (chunks : List Bytes) (h : wfMsgs ms)
    (hflat : chunks.flatten = ms.flatMap encodeMsg) (hne : ∀ c ∈ chunks, c ≠ []) :
    socketTransport chunks = (ms, .eof) := by
  unfold socketTransport
  rw [C08_chunking chunks _ hflat hne, C08_stream ms h]

/-- **C16 (proxy).** Through a `via=` gateway both directions are the identity on frame sequences:
* up: the sub writes its boot byte and the frames `ms`; the forwarder re-frames them as one channel
  item per frame (`forwarderItems`); the master's `ChannelFileRead.read(1)`, `read(9)`, `read(len)`
  over those items yield the boot byte and exactly `ms`, then "empty read" (EOFError) —
  nothing merged, split, reordered or modified;
* down: the master's `to_io(ProxyIO)` sends one item per frame, the forwarder's callback writes
  the items to the sub's stdin, and the sub decodes exactly `ms`. -/
theorem C16_proxy_identity (ms : List Msg) (h : wfMsgs ms) :
    proxyUp ms = ([bootByte], ms, .eof) ∧ proxyDown ms = (ms, .eof) ∧
      forwarderItems (bootByte :: encodeAll ms) = [bootByte] :: ms.map encodeMsg := by
  have hd : decodeStream (encodeAll ms) = (ms, .eof) := C08_stream ms h
  refine ⟨?_, ?_, ?_⟩
  · exact proxyUpStream_frames ms _ h (by rw [hd])
  · unfold proxyDown masterItems
    rw [← List.flatMap_def]; exact C08_stream ms h
  · simp [forwarderItems, hd]

/-- **C16 (proxy, any chunking of the two pipes).** The forwarder reads the sub's stdout and the sub
reads its stdin through `Popen2IO`'s read loop; however the pipes chunk the bytes, the result is the
same identity. -/
theorem C16_proxy_identity_chunked (ms : List Msg) (h : wfMsgs ms) (up down : List Bytes)
    (hup : up.flatten = bootByte :: encodeAll ms) (hupne : ∀ c ∈ up, c ≠ [])
    (hdown : down.flatten = (masterItems ms).flatten) (hdownne : ∀ c ∈ down, c ≠ []) :
    forwarderItemsChunked up = [bootByte] :: ms.map encodeMsg ∧
    decodeItems (pxRead 1 ⟨none, forwarderItemsChunked up⟩).2 = (ms, .eof) ∧
    decodeStreamChunked down = (ms, .eof) := by
  have hid := C16_proxy_identity ms h
  have hitems : forwarderItemsChunked up = [bootByte] :: ms.map encodeMsg := by
    rw [forwarderItemsChunked_eq up hupne, hup]; exact hid.2.2
  refine ⟨hitems, ?_, ?_⟩
  · rw [hitems, pxRead_boot]; exact decodeItems_frames ms h
  · rw [C08_chunking down _ hdown hdownne]; exact hid.2.1

/-- **C16 (proxy, sub dies).** If the sub's output stops after any `k` bytes of its frames, the
master decodes exactly the frames that were complete and then sees the ordinary EOF — the forwarder
never passes a partial frame on. -/
theorem C16_proxy_cut (ms : List Msg) (k : Nat) (h : wfMsgs ms) :
    proxyUpStream (bootByte :: (encodeAll ms).take k) =
      ([bootByte], ms.take (completeWithin ms k), .eof) := by
  have hwf : wfMsgs (ms.take (completeWithin ms k)) := fun x hx => h x (List.mem_of_mem_take hx)
  apply proxyUpStream_frames _ _ hwf
  rw [decodeStream_take_encodeAll ms k h, framesBefore_fst_eq_take]

/-- **C16 (control).** Each control method of `ProxyIO` sends its own `RIO_*` code (codes pairwise
distinct); the forwarder's dispatcher performs exactly that operation on the sub-process IO —
`wait` → `sub_io.wait()` and replies its result, `kill` → `sub_io.kill()` and replies `None`,
`close_write` → `sub_io.close_write()` and replies `None`, `remoteaddress` → replies
`sub_io.remoteaddress` — and these are the tables found in the source. -/
theorem C16_control :
    rioControl RioOp.wait.code = some (.wait, .result) ∧
    rioControl RioOp.kill.code = some (.kill, .none) ∧
    rioControl RioOp.closeWrite.code = some (.closeWrite, .none) ∧
    rioControl RioOp.remoteaddress.code = some (.remoteaddress, .result) ∧
    (RioOp.all.map RioOp.code).Nodup ∧
    Generated.rioCodes = [("RIO_KILL", RioOp.kill.code), ("RIO_WAIT", RioOp.wait.code),
      ("RIO_REMOTEADDRESS", RioOp.remoteaddress.code), ("RIO_CLOSE_WRITE", RioOp.closeWrite.code)] ∧
    Generated.rioDispatch =
      [("RIO_WAIT", ["control_chan.send(sub_io.wait())"]),
       ("RIO_KILL", ["sub_io.kill()", "control_chan.send(None)"]),
       ("RIO_REMOTEADDRESS", ["control_chan.send(sub_io.remoteaddress)"]),
       ("RIO_CLOSE_WRITE", ["sub_io.close_write()", "control_chan.send(None)"])] ∧
    Generated.proxyIOMethods =
      [(RioOp.closeWrite.name, "RIO_CLOSE_WRITE"), (RioOp.kill.name, "RIO_KILL"),
       (RioOp.wait.name, "RIO_WAIT"), (RioOp.remoteaddress.name, "RIO_REMOTEADDRESS")] := by
  decide

/-! ### non-vacuity, and why the items must be whole frames -/

example : wfMsgs exampleMsgs := by decide
example : proxyUp exampleMsgs = ([bootByte], exampleMsgs, .eof) := (C16_proxy_identity _ (by decide)).1

/-- The channel-file reader does not detect a short payload: were an item ever delivered partially
(here: 12 of the 14 bytes of a frame), the master would build a message from the 3 payload bytes
that are there.  The proxy is correct because channel items are delivered whole (C02), which is what
`C16_proxy_identity` and `C16_proxy_cut` use. -/
example : decodeItems ⟨some [], [(encodeMsg ⟨4, 1, [1, 2, 3, 4, 5]⟩).take 12]⟩
    = ([⟨4, 1, [1, 2, 3]⟩], .eof) := by decide

end ExecnetVerif
