/-
`WorkerPool.spawn` when the thread for the call cannot be started (C09: "waitall and terminate return true only when no
accepted task is unfinished and do return once that is the case").

    reply = Reply(...)
    with self._running_lock:
        if self._shuttingdown: raise ValueError
        self._running.add(reply)                                   -- counted
        if not self._try_send_to_primary_thread(reply):
            try: self.execmodel.start(self._perform_spawn, (reply,))
            except BaseException: self._running.discard(reply); raise   -- the guard (fix D34); absent on the pinned tree
    return reply                                                   -- accepted

`Model/Pool.lean` is the pool with threads that always start.  This small model adds the one thing it leaves out — a
failing `start` — and keeps only the bookkeeping that matters for it: which replies `_running` counts, which calls were
accepted (spawn returned a Reply), which accepted calls have come to their end.  Whether the handler around `start`
discards the reply is read off the source (`Generated.spawnStartFailure`) — `codeCfg`.
-/
import ExecnetVerif.Generated.Tables
namespace ExecnetVerif.SpawnFail

structure Cfg where
  /-- the handler around `execmodel.start` removes the reply from `_running` and re-raises -/
  discardOnStartFailure : Bool
  deriving DecidableEq, Repr

def good : Cfg := { discardOnStartFailure := true }
def pinned : Cfg := { discardOnStartFailure := false }

/-- what the current source does -/
def codeCfg : Cfg :=
  { discardOnStartFailure := Generated.spawnStartFailure.contains "self._running.discard(reply)"
                             && Generated.spawnStartFailure.contains "raise" }

structure P where
  running : List Nat := []   -- `_running`
  accepted : List Nat := []  -- calls for which spawn() returned a Reply
  finished : List Nat := []  -- accepted calls whose `_perform_spawn` has come to its end
  next : Nat := 0            -- replies are numbered in creation order
  shut : Bool := false
  deriving DecidableEq, Repr

inductive Op where
  | spawn (startOk : Bool)
  | finish (r : Nat)
  | shutdown
  deriving DecidableEq, Repr

inductive Out where
  | reply (r : Nat)
  | refusedShutdown   -- ValueError
  | startError        -- the RuntimeError of `start` propagates: the call is not accepted
  | done
  | noten
  deriving DecidableEq, Repr

def step (cfg : Cfg) (p : P) : Op → Out × P
  | .spawn ok =>
    if p.shut then (.refusedShutdown, p) else
    let r := p.next
    let p1 := { p with next := r + 1, running := r :: p.running }
    if ok then (.reply r, { p1 with accepted := r :: p.accepted })
    else (.startError, if cfg.discardOnStartFailure then { p1 with running := p1.running.erase r } else p1)
  | .finish r =>
    -- only a call whose thread exists comes to an end
    if r ∈ p.running ∧ r ∈ p.accepted then
      (.done, { p with running := p.running.erase r, finished := r :: p.finished })
    else (.noten, p)
  | .shutdown => (.done, { p with shut := true })

def run (cfg : Cfg) (p : P) : List Op → List Out × P
  | [] => ([], p)
  | op :: ops =>
    let (o, p1) := step cfg p op
    let (os, p2) := run cfg p1 ops
    (o :: os, p2)

def init : P := {}

/-- what `waitall()` answers when asked now (and what a blocked `waitall` is woken by) -/
def waitallTrue (p : P) : Bool := p.running.isEmpty

end ExecnetVerif.SpawnFail
