"""C08 — message frames survive any chunking and never interleave on the wire (DESIGN.md §4 C08),
plus the byte-level half of C04 (a cut at any byte offset yields exactly the complete frames).

Everything at module level is importable and free of side effects (reused by the protocol-level C04
check and by C16): `FakeSocket`, `SizeScript`, `make_reader`, `read_all`, `frames_before`, `ProxyEnds`,
`encode_frames`, `render_msgs`.
"""
from __future__ import annotations

import gc
import itertools
import json
import os
import struct
import threading
import time

from . import common, sched as S

I32_MIN, I32_MAX = -(2**31), 2**31 - 1
HEADER = 9
TRANSPORTS = ("popen", "socket", "proxy")


# ---------------------------------------------------------------------------------------
# scripted transports (importable helpers)
# ---------------------------------------------------------------------------------------
class SizeScript:
    """stands in for the rng of `sched.Pipe`: the sizes of the successive low-level reads"""

    def __init__(self, sizes, rng=None, cap=None):
        self.sizes = list(sizes)
        self.rng = rng
        self.cap = cap

    def randint(self, a, b):
        if self.sizes:
            k = self.sizes.pop(0)
        elif self.rng is not None:
            k = self.rng.randint(1, self.cap or b)
        else:
            k = b
        return max(a, min(b, k))


class FakeSocket:
    """A socket object for the real `SocketIO`: `recv` reads from one `sched.Pipe`, `sendall` writes to
    another (with the pipe's write splitting — an unlocked sendall is not atomic)."""

    def __init__(self, recv_pipe, send_pipe):
        self.recv_pipe = recv_pipe
        self.send_pipe = send_pipe
        self.recv_log = []  # sizes returned by recv
        self.opts = []
        self.shutdowns = []

    def setsockopt(self, *a):
        self.opts.append(a)

    def recv(self, n):
        try:
            data = self.recv_pipe.reader.read(n)
        except ValueError:  # read side shut down
            return b""
        self.recv_log.append(len(data))
        return data

    def sendall(self, data):
        try:
            self.send_pipe.writer.write(data)
        except ValueError as e:
            raise BrokenPipeError(32, str(e)) from None

    def shutdown(self, how):
        self.shutdowns.append(how)
        if how in (0, 2) and self.recv_pipe is not None:
            self.recv_pipe.reader.close()
        if how in (1, 2) and self.send_pipe is not None:
            self.send_pipe.writer.close()

    def close(self):
        self.shutdown(2)


class LoggedReader:
    """file object for `Popen2IO`'s infile that records the size of every low-level read"""

    def __init__(self, reader):
        self.reader = reader
        self.log = []

    def read(self, n=-1):
        data = self.reader.read(n)
        self.log.append(len(data))
        return data

    def close(self):
        self.reader.close()


class CountingWriter:
    """file object for `Popen2IO`'s outfile that records every write call"""

    def __init__(self, writer=None):
        self.writer = writer
        self.calls = []

    def write(self, data):
        self.calls.append(bytes(data))
        if self.writer is not None:
            return self.writer.write(data)
        return len(data)

    def flush(self):
        pass

    def close(self):
        if self.writer is not None:
            self.writer.close()


class _NullIO:
    """IO of a gateway whose receiver is never started; records the frames written"""

    def __init__(self, execmodel):
        self.execmodel = execmodel
        self.written = []

    def write(self, data):
        self.written.append(bytes(data))

    def read(self, n):
        raise EOFError("null io")

    def close_read(self):
        pass

    def close_write(self):
        pass

    def wait(self):
        return 0

    def kill(self):
        pass


def _idle_sched():
    """a scheduler that is never run: its pipes never block (reads return what is there, then EOF)"""
    return S.Scheduler()


class ProxyEnds:
    """The master side of the proxy path on real objects, without threads: a real `ProxyIO` whose
    `iochan` is a real `Channel` of a real `BaseGateway` on a recording IO.
    * `feed(items)`: the items the forwarder sent, then the channel's end (EOFError for the reader)
    * `sent_items()`: the items `ProxyIO.write` handed to the carrying channel (decoded from the
      carrier's CHANNEL_DATA frames)."""

    def __init__(self, execnet):
        gb = execnet.gateway_base
        from execnet import gateway_io

        self.gb = gb
        self.em = gb.get_execmodel("thread")
        self.carrier_io = _NullIO(self.em)
        self.carrier = gb.BaseGateway(self.carrier_io, "carrier", _startcount=1)
        self.chan = self.carrier.newchannel()
        pio = object.__new__(gateway_io.ProxyIO)
        pio.controlchan = None
        pio.iochan = self.chan
        pio.iochan_file = self.chan.makefile("r")
        pio.execmodel = self.em
        self.io = pio
        self.receive_log = []
        real = self.chan.receive
        log = self.receive_log

        def receive(timeout=None):
            x = real(timeout)
            log.append(len(x))
            return x

        self.chan.receive = receive  # instance attribute: ChannelFileRead calls channel.receive()
        self.send_log = []
        real_send = self.chan.send
        slog = self.send_log

        def send(item):
            slog.append(item)
            return real_send(item)

        self.chan.send = send  # ProxyIO.write calls iochan.send(data); the real send still runs

    def feed(self, items, end=True):
        for it in items:
            self.chan._items.put(it)
        if end:
            self.chan._items.put(self.gb.ENDMARKER)
            self.chan._receiveclosed.set()

    def sent_items(self):
        return list(self.send_log)


def make_reader(execnet, transport, data, sizes=None, rng=None, cap=None, items=None):
    """A real IO object of the given transport whose peer wrote `data` (bytes) and then went away.
    `sizes`: sizes of the successive low-level reads (then rng/cap, then 'everything asked for').
    proxy: `items` (default: `data` cut by `sizes`) are the channel items.  Returns (io, get_read_sizes)."""
    gb = execnet.gateway_base
    if transport == "proxy":
        ends = ProxyEnds(execnet)
        if items is None:
            items = cut_by(data, sizes, rng, cap)
        ends.feed(items)
        return ends.io, (lambda: list(ends.receive_log)), ends
    sch = _idle_sched()
    script = SizeScript(sizes or [], rng, cap)
    pipe = S.Pipe(sch, rng=script, max_chunk=max(1, len(data)))
    pipe.buf += data
    pipe.total_written = len(data)
    pipe.wclosed = True
    em = gb.get_execmodel("thread")
    if transport == "popen":
        rd = LoggedReader(pipe.reader)
        io = gb.Popen2IO(CountingWriter(), rd, em)
        return io, (lambda: [k for k in rd.log if k]), pipe
    if transport == "socket":
        from execnet import gateway_socket

        back = S.Pipe(sch)
        sock = FakeSocket(pipe, back)
        io = gateway_socket.SocketIO(sock, em)
        return io, (lambda: [k for k in sock.recv_log if k]), pipe
    raise ValueError(transport)


def cut_by(data, sizes, rng=None, cap=None):
    """cut `data` into consecutive pieces of the given sizes (then random ≤ cap, else the rest)"""
    out = []
    pos = 0
    sizes = list(sizes or [])
    while pos < len(data):
        if sizes:
            k = max(1, sizes.pop(0))
        elif rng is not None:
            k = rng.randint(1, cap or len(data))
        else:
            k = len(data)
        out.append(data[pos:pos + k])
        pos += k
    return out


def classify_end(exc):
    """canonical name of the way a `from_io` loop ended"""
    if isinstance(exc, EOFError):
        msg = str(exc)
        pre = "couldn't load message header, "
        if msg.startswith(pre):
            rest = msg[len(pre):]
            if rest == "empty read" or rest.endswith("got 0"):
                return "eof"
            if rest.startswith("expected 9 bytes, got "):
                return "eof-mid-header"
            return "eof-header:" + rest
        if msg.startswith("expected "):
            return "eof-mid-payload"
        return "eof-other:" + msg
    if isinstance(exc, struct.error):
        return "struct-error"
    return "exc:" + type(exc).__name__


def read_all(execnet, io, limit=100000):
    """the receiver loop `while 1: Message.from_io(io)`; returns (msgs, ending, exception)"""
    Message = execnet.gateway_base.Message
    msgs = []
    for _ in range(limit):
        try:
            m = Message.from_io(io)
        except BaseException as e:  # noqa: BLE001 - classified by the caller
            return msgs, classify_end(e), e
        msgs.append((m.msgcode, m.channelid, m.data))
    return msgs, "limit", None


def encode_frames(msgs):
    """model-free wire image (struct only)"""
    return b"".join(struct.pack("!bii", t, c, len(d)) + d for t, c, d in msgs)


def frames_before(msgs, k):
    """model-free oracle of a cut after k bytes: (complete frames, 'boundary'|'inside')"""
    out = []
    pos = 0
    for t, c, d in msgs:
        end = pos + HEADER + len(d)
        if end <= k:
            out.append((t, c, d))
            pos = end
        else:
            break
    total = sum(HEADER + len(d) for _, _, d in msgs)
    return out, ("boundary" if (k == pos or k >= total) else "inside")


def hexs(b):
    return b.hex() if b else "-"


def render_msgs(msgs):
    return " ".join("%d %d %s" % (t, c, hexs(d)) for t, c, d in msgs)


def render_decoded(msgs, ending):
    parts = ["ok", str(len(msgs))]
    if msgs:
        parts.append(render_msgs(msgs))
    parts.append(ending)
    return " ".join(parts)


def wf(m):
    t, c, d = m
    return -128 <= t <= 127 and I32_MIN <= c <= I32_MAX and len(d) < 2**31


# ---------------------------------------------------------------------------------------
# generators
# ---------------------------------------------------------------------------------------
CIDS = [0, -1, 1, 2, 3, I32_MAX, I32_MIN, I32_MAX - 1, I32_MIN + 1, 255, 256, 65535, 65536, -256, 0x7F000000, -0x01000000]


def mat(p):
    """materialise a payload descriptor: hex string | bytes | ["rnd", seed, n] (n bytes, a seeded 4 kB block repeated)"""
    if isinstance(p, (bytes, bytearray)):
        return bytes(p)
    if isinstance(p, str):
        return bytes.fromhex(p)
    _tag_, seed, n = p
    blk = common.rng_for(seed, "payload").randbytes(4096)
    return (blk * (n // 4096 + 1))[:n]


def mat_msgs(msgs):
    return [(t, c, mat(d)) for t, c, d in msgs]


def gen_payload(rng, maxlen):
    """a payload descriptor (see `mat`)"""
    kind = rng.randrange(6)
    if kind == 0:
        n = 0
    elif kind == 1:
        n = rng.randint(1, 4)
    elif kind == 2:
        n = rng.randint(5, 40)
    elif kind == 3:
        n = rng.choice([255, 256, 257, 4095, 4096, 4097, 32767, 32768, 65535, 65536, 65537])
    else:
        n = rng.randint(0, maxlen)
    n = min(n, maxlen)
    if n > 2048:
        return ["rnd", rng.randrange(1 << 30), n]
    if rng.randrange(3) == 1:
        return (bytes([rng.choice([0, 4, 255, 9, 0x31])]) * n).hex()
    return rng.randbytes(n).hex()


def gen_msg(rng, codes, maxlen):
    t = rng.choice(codes) if rng.random() < 0.8 else rng.randint(-128, 127)
    c = rng.choice(CIDS) if rng.random() < 0.6 else rng.randint(I32_MIN, I32_MAX)
    return (t, c, gen_payload(rng, maxlen))


def size_bucket(n):
    for lim, name in ((0, "0"), (8, "1-8"), (64, "9-64"), (4096, "65-4K"), (65536, "4K-64K"), (1 << 20, "64K-1M")):
        if n <= lim:
            return name
    return ">1M"


def compositions(n):
    """all ways to cut n bytes into consecutive non-empty chunks"""
    for mask in range(1 << (n - 1)) if n > 0 else [0]:
        sizes = []
        run = 1
        for i in range(n - 1):
            if mask >> i & 1:
                sizes.append(run)
                run = 1
            else:
                run += 1
        if n > 0:
            sizes.append(run)
        yield sizes


# ---------------------------------------------------------------------------------------
# family A: to_io / from_io over the three IO classes
# ---------------------------------------------------------------------------------------
def write_frames(execnet, transport, msgs):
    """real `Message.to_io` for every message on a real IO object of the transport.
    returns (wire bytes or item list, list of #low-level writes per frame, exception or None)"""
    gb = execnet.gateway_base
    em = gb.get_execmodel("thread")
    per_frame = []
    if transport == "proxy":
        ends = ProxyEnds(execnet)
        io = ends.io
        count = lambda: len(ends.send_log)  # noqa: E731
        result = lambda: ends.sent_items()  # noqa: E731
    elif transport == "popen":
        cw = CountingWriter()
        io = gb.Popen2IO(cw, LoggedReader(None), em)
        count = lambda: len(cw.calls)  # noqa: E731
        result = lambda: list(cw.calls)  # noqa: E731
    else:
        from execnet import gateway_socket

        sch = _idle_sched()
        out = S.Pipe(sch)
        calls = []
        sock = FakeSocket(S.Pipe(sch), out)
        real_sendall = sock.sendall

        def sendall(data):
            calls.append(bytes(data))
            return real_sendall(data)

        sock.sendall = sendall
        io = gateway_socket.SocketIO(sock, em)
        count = lambda: len(calls)  # noqa: E731
        result = lambda: list(calls)  # noqa: E731
    for t, c, d in msgs:
        before = count()
        try:
            gb.Message(t, c, d).to_io(io)
        except BaseException as e:  # noqa: BLE001
            per_frame.append(count() - before)
            return result(), per_frame, e
        per_frame.append(count() - before)
    return result(), per_frame, None


def check_codec_case(ctx, res, case, batch):
    """one case = (transport, msgs, sizes|None, rngseed, cap).  Runs the real writer and reader, applies the
    oracle, and queues the driver comparison in `batch`."""
    execnet = ctx.execnet
    transport, msgs = case["transport"], mat_msgs(case["msgs"])
    short = case
    for t, c, d in msgs:
        res.stat("type_%d" % t if 0 <= t <= 7 else "type_other")
        res.stat("cid_" + ("min" if c == I32_MIN else "max" if c == I32_MAX else "0" if c == 0 else "-1" if c == -1 else "neg" if c < 0 else "pos"))
        res.stat("payload_" + size_bucket(len(d)))
    res.stat("transport_" + transport)
    res.count((transport, [(t, c, len(d), d[:16], d[-8:]) for t, c, d in msgs], case.get("sizes"), case.get("rngseed")),
              nontrivial=any(len(d) > 0 or c not in (0, 1) for t, c, d in msgs))
    # ---- writer
    pieces, per_frame, exc = write_frames(execnet, transport, msgs)
    bad = [m for m in msgs if not wf(m)]
    if bad:
        first_bad = next(i for i, m in enumerate(msgs) if not wf(m))
        if not isinstance(exc, struct.error):
            res.violations.append(dict(case=short, what="to_io accepted an out-of-range header field or raised %r" % (exc,)))
            return
        if len(pieces) != sum(per_frame[:first_bad]):
            res.violations.append(dict(case=short, what="to_io wrote bytes before rejecting the message"))
        batch.append(("frame.encode %d %d %s" % (bad[0][0], bad[0][1], hexs(bad[0][2])), "err struct", short, None))
        return
    if exc is not None:
        res.violations.append(dict(case=short, what="to_io raised %r on a well-formed message" % (exc,)))
        return
    if any(n != 1 for n in per_frame):
        # the model hands ONE write per frame to the IO (premise of C08_atomic_writers)
        res.mismatches.append(dict(op="to_io.writes-per-frame", case=short, impl=per_frame[:8], model=1))
    if transport == "proxy":
        if any(type(p) is not bytes for p in pieces):
            res.violations.append(dict(case=short, what="ProxyIO.write sent a non-bytes item"))
            return
        wire = b"".join(pieces)
        items = pieces
    else:
        wire = b"".join(pieces)
        items = None
    if wire != encode_frames(msgs):
        res.violations.append(dict(case=short, what="bytes written by to_io are not header+payload of the messages", impl=wire[:64].hex()))
        return
    if len(msgs) <= 3 and len(wire) < 300000:
        for m in msgs:
            batch.append(("frame.encode %d %d %s" % (m[0], m[1], hexs(m[2])), "ok " + hexs(encode_frames([m])), short, None))
    # ---- reader
    rng = common.rng_for(case["rngseed"], "chunks") if case.get("rngseed") is not None else None
    io, sizes_read, _h = make_reader(execnet, transport, wire, sizes=case.get("sizes"), rng=rng, cap=case.get("cap"),
                                     items=(items if (transport == "proxy" and case.get("sizes") is None and rng is None) else None))
    got, ending, exc = read_all(execnet, io)
    if any(type(d) is not bytes for _, _, d in got):
        res.violations.append(dict(case=short, what="from_io produced a non-bytes payload"))
        return
    if got != msgs:
        res.violations.append(dict(case=short, what="peer decoded different messages than were written (%d vs %d)" % (len(got), len(msgs)),
                                   impl=render_msgs(got)[:300]))
        return
    if not isinstance(exc, EOFError):
        res.violations.append(dict(case=short, what="end of stream at a frame boundary raised %r instead of EOFError" % (exc,),
                                   finding=None))
        return
    res.traces += 1
    # ---- model
    sizes = sizes_read()
    if len(wire) < 400000 or case.get("driver_big"):
        if transport == "proxy":
            if len(sizes) <= 2000:
                its = cut_by(wire, sizes)
                batch.append(("proxy.items " + " ".join(hexs(i) for i in its), render_decoded(got, ending), short, None))
        elif len(sizes) <= 4000:
            line = "frame.decode %s %s" % (hexs(wire), ",".join(map(str, sizes)) if sizes else "0")
            batch.append((line, render_decoded(got, ending), short, None))
        else:
            batch.append(("frame.decode %s" % hexs(wire), render_decoded(got, ending), short, None))


def flush_batch(ctx, res, batch):
    if not batch:
        return
    outs = ctx.driver.ask([b[0] for b in batch])
    for (line, exp, short, _), out in zip(batch, outs):
        if out != exp:
            res.mismatches.append(dict(op=line.split(" ", 1)[0], case=short, line=line[:300], impl=exp[:300], model=out[:300]))
    batch.clear()


# ---------------------------------------------------------------------------------------
# family B: cuts (C04 byte level) and arbitrary byte streams
# ---------------------------------------------------------------------------------------
def check_cut_case(ctx, res, case, batch):
    """stream of well-formed frames cut after k bytes, read through the transport's real reader"""
    execnet = ctx.execnet
    transport, k = case["transport"], case["k"]
    msgs = mat_msgs(case["msgs"])
    wire = encode_frames(msgs)[:k]
    exp, where = frames_before(msgs, k)
    rng = common.rng_for(case["rngseed"], "chunks") if case.get("rngseed") is not None else None
    res.count(("cut", transport, case["msgs"], k, case.get("sizes"), case.get("rngseed")), nontrivial=0 < k < len(encode_frames(msgs)))
    res.stat("cut_" + where)
    res.stat("transport_" + transport)
    if transport == "proxy":
        # the carrying channel delivers whole items: the cut falls between items (j complete frames); what a
        # cut inside the sub's byte stream does to the forwarder is covered by `proxy.upstream` (C16)
        items = [encode_frames([m]) for m in exp]
        io, sizes_read, _h = make_reader(execnet, transport, b"".join(items), items=items)
    else:
        io, sizes_read, _h = make_reader(execnet, transport, wire, sizes=case.get("sizes"), rng=rng, cap=case.get("cap"))
    got, ending, exc = read_all(execnet, io)
    if got != exp:
        res.violations.append(dict(case=case, what="after a cut at byte %d the reader produced %d messages, expected exactly the %d complete ones"
                                   % (k, len(got), len(exp)), impl=render_msgs(got)[:300]))
        return
    if not isinstance(exc, EOFError):
        res.violations.append(dict(case=case, what="after a cut at byte %d the reader raised %r instead of EOFError" % (k, exc)))
        return
    res.traces += 1
    if transport == "proxy":
        batch.append(("proxy.items " + " ".join(hexs(i) for i in items), render_decoded(got, ending), case, None))
        return
    sizes = sizes_read()
    batch.append(("frame.decode %s %s" % (hexs(wire), ",".join(map(str, sizes)) if sizes else "0"), render_decoded(got, ending), case, None))
    batch.append(("frame.cut %d %s" % (k, render_msgs(msgs)), render_decoded(got, ending), case, None))


def gateway_after_cut(ctx, res, case):
    """the real receiver thread body over the cut stream: `gateway._error` must be the EOFError (D23)"""
    execnet = ctx.execnet
    gb = execnet.gateway_base
    transport, k = case["transport"], case["k"]
    msgs = mat_msgs(case["msgs"])
    wire = encode_frames(msgs)[:k]
    exp, _ = frames_before(msgs, k)
    if transport == "proxy":
        items = [encode_frames([m]) for m in exp]
        io, _s, _h = make_reader(execnet, transport, b"", items=items)
    else:
        io, _s, _h = make_reader(execnet, transport, wire, sizes=case.get("sizes"))
    gw = gb.BaseGateway(io, "cut-%s" % transport, _startcount=1)
    seen = []
    chans = {}
    for t, c, d in msgs:
        if c not in chans:
            ch = chans[c] = gw._channelfactory.new(c)
            ch.setcallback(lambda x, c=c: seen.append((c, x)))
    res.count(("gwcut", transport, case["msgs"], k))
    try:
        gw._thread_receiver()
    except NotImplementedError:
        pass  # ProxyIO.close_read (epilogue, after _error was set)
    err = getattr(gw, "_error", None)
    exp_items = []
    closed = set()
    for t, c, d in exp:  # a CHANNEL_CLOSE ends the delivery on that id
        if t == gb.Message.CHANNEL_CLOSE:
            closed.add(c)
        elif t == gb.Message.CHANNEL_DATA and c not in closed:
            exp_items.append((c, gb.loads_internal(d)))
    if seen != exp_items:
        res.violations.append(dict(case=case, what="receiver delivered %r, expected the items of the complete frames %r" % (seen[:5], exp_items[:5])))
    elif not isinstance(err, EOFError):
        res.violations.append(dict(case=case, what="gateway._error is %r after the connection was cut (waitclose would not raise EOFError)" % (err,)))
    else:
        res.traces += 1
    for ch in chans.values():
        try:
            ch.waitclose(0.1)
            res.violations.append(dict(case=case, what="waitclose returned normally after connection loss"))
            break
        except EOFError:
            pass
        except Exception as e:  # noqa: BLE001
            res.violations.append(dict(case=case, what="waitclose raised %r after connection loss" % (e,)))
            break


def check_garbage_case(ctx, res, case, batch):
    """arbitrary bytes (not produced by to_io): only model/implementation agreement is checked"""
    execnet = ctx.execnet
    transport = case["transport"]
    data = bytes.fromhex(case["data"])
    rng = common.rng_for(case["rngseed"], "chunks")
    res.count(("garbage", transport, case["data"], case["rngseed"]), nontrivial=len(data) >= HEADER)
    io, sizes_read, _h = make_reader(execnet, transport, data, rng=rng, cap=case.get("cap"))
    got, ending, exc = read_all(execnet, io)
    if ending.startswith("exc:") or ending.startswith("eof-other") or ending.startswith("eof-header"):
        res.violations.append(dict(case=case, what="reader raised %r on a byte stream (only EOFError/struct.error are modelled)" % (exc,)))
        return
    sizes = sizes_read()
    if transport == "proxy":
        batch.append(("proxy.items " + " ".join(hexs(i) for i in cut_by(data, sizes)), render_decoded(got, ending), case, None))
    else:
        batch.append(("frame.decode %s %s" % (hexs(data), ",".join(map(str, sizes)) if sizes else "0"), render_decoded(got, ending), case, None))
    res.traces += 1


# ---------------------------------------------------------------------------------------
# family C: atomicity of concurrent senders under the deterministic scheduler
# ---------------------------------------------------------------------------------------
def run_atomic_case(ctx, res, case):
    """`nthreads` logical threads send on one gateway whose wire delivers every low-level write in pieces
    with a scheduling point between pieces (`split_writes`).  The peer is a real gateway's receiver."""
    execnet = ctx.execnet
    gb = execnet.gateway_base
    transport = case["transport"]
    rng = common.rng_for(case["rngseed"], "atomic")
    sch = S.Scheduler(rng=common.rng_for(case["rngseed"], "sched"), max_steps=400000)
    em = S.make_execmodel(gb, sch)
    nthreads, nitems = case["nthreads"], case["nitems"]
    plan = [[rng.randbytes(rng.choice([0, 1, 5, 30, 200, case["maxlen"]])) if rng.random() < 0.8 else rng.randint(-5, 5)
             for _ in range(nitems)] for _ in range(nthreads)]
    a2b = S.Pipe(sch, rng, max_chunk=case.get("cap"), split_writes=True)
    b2a = S.Pipe(sch, rng, max_chunk=case.get("cap"), split_writes=True)
    if transport == "socket":
        from execnet import gateway_socket

        io_a = gateway_socket.SocketIO(FakeSocket(b2a, a2b), em)
        io_b = gateway_socket.SocketIO(FakeSocket(a2b, b2a), em)
    else:
        io_a = gb.Popen2IO(a2b.writer, b2a.reader, em)
        io_b = gb.Popen2IO(b2a.writer, a2b.reader, em)
    state = {}

    def main():
        A = gb.BaseGateway(io_a, "A", _startcount=1)
        B = gb.BaseGateway(io_b, "B", _startcount=2)
        state["A"], state["B"] = A, B
        chans_a = [A.newchannel() for _ in range(nthreads)]
        chans_b = [B._channelfactory.new(ch.id) for ch in chans_a]
        state["chans_a"], state["chans_b"] = chans_a, chans_b
        A._initreceive()
        B._initreceive()
        done = [em.Event() for _ in range(nthreads)]
        errors = state["errors"] = []

        def sender(i):
            try:
                for item in plan[i]:
                    chans_a[i].send(item)
                chans_a[i].close()
            except BaseException as e:  # noqa: BLE001
                errors.append((i, repr(e)))
                raise
            finally:
                done[i].set()

        for i in range(nthreads):
            sch.spawn(sender, (i,), name="sender%d" % i)
        for ev in done:
            ev.wait()
        try:
            A._send(gb.Message.GATEWAY_TERMINATE)
        except OSError as e:
            errors.append(("terminate", repr(e)))
            io_a.close_write()

    res.count(("atomic", transport, nthreads, nitems, case["rngseed"]))
    res.stat("atomic_" + transport)
    res.stat("atomic_threads_%d" % nthreads)
    try:
        sch.run(main, wall_timeout=60.0)
    except S.Deadlock as e:
        res.violations.append(dict(case=case, what="concurrent senders: the pair hung (peer waiting for bytes of a garbled frame?): " + str(e)[:300]))
        return
    finally:
        # the scheduler is gone: keep Channel.__del__ of the left-over channels from using its primitives
        for ch in state.get("chans_a", []) + state.get("chans_b", []):
            ch.gateway = None
    B = state["B"]
    errs = state.get("errors")
    crashed = [(t.name, repr(t.exc)) for t in sch.threads if t.exc is not None]
    got = []
    for ch in state["chans_b"]:
        items = [x for x in ch._items.items if x is not gb.ENDMARKER]
        got.append(items)
    interleaved = len({n for n, _ in a2b.write_log}) > 1
    res.stat("atomic_writes_logged", len(a2b.write_log))
    if got != plan or errs or crashed or getattr(B, "_error", None) is not None:
        what = "concurrent senders: peer did not decode exactly the messages sent"
        if got != plan:
            bad = [i for i in range(nthreads) if got[i] != plan[i]]
            what += "; channels of sender(s) %s received %s items instead of %s" % (bad, [len(got[i]) for i in bad], [len(plan[i]) for i in bad])
        if errs:
            what += "; sender errors %r" % (errs[:3],)
        if crashed:
            what += "; crashed threads %r" % (crashed[:3],)
        if getattr(B, "_error", None) is not None:
            what += "; peer receiver ended with %r" % (B._error,)
        res.violations.append(dict(case=case, what=what))
        return
    res.traces += 1
    if interleaved:
        res.stat("atomic_runs_with_several_writers")


def run_reentrant_case(ctx, res, case):
    """A `Channel.__del__` that runs (garbage collection) while its own thread is inside a frame write sends a
    CHANNEL_CLOSE re-entrantly through the same `_send` (the send lock is re-entrant).  Python code — and so a
    finaliser — can run between two statements of the writer but not inside one low-level write, so the nested
    frame lands before or after the outer one as long as a frame is ONE write.  `when`: the finaliser fires
    right before / right after the n-th low-level write is delivered."""
    execnet = ctx.execnet
    gb = execnet.gateway_base
    em = gb.get_execmodel("thread")
    holder = {}
    fired = []

    class Out(CountingWriter):
        def write(self, data):
            idx = len(self.calls)
            if idx == case["nth"] and case["when"] == "before" and "ch" in holder:
                fired.append(idx)
                del holder["ch"]
                gc.collect()
            CountingWriter.write(self, data)
            if idx == case["nth"] and case["when"] == "after" and "ch" in holder:
                fired.append(idx)
                del holder["ch"]
                gc.collect()
            return len(data)

    out = Out()
    if case["when"] == "inside-buffered":
        # the real stdio pipe is an io.BufferedWriter: a collection triggered while it is inside write()/flush() (it
        # allocates a memoryview for the raw write) runs the finaliser with the writer's own lock held — the nested
        # write is refused ("reentrant call inside <_io.BufferedWriter>") unless _send defers it
        import io as _io

        class Raw(_io.RawIOBase):
            def writable(self):
                return True

            def write(self, b):
                idx = len(out.calls)
                if idx == case["nth"] and "ch" in holder:
                    fired.append(idx)
                    del holder["ch"]
                    holder.pop("ch2", None)       # two channels are finalised inside this write …
                    gc.collect()
                elif fired and "ch3" in holder and idx > fired[0]:
                    del holder["ch3"]             # … and a third one while a deferred frame is being written
                    gc.collect()
                out.calls.append(bytes(b))
                return len(b)

        writer = _io.BufferedWriter(Raw(), buffer_size=64)
    else:
        writer = out
    gw = gb.BaseGateway(gb.Popen2IO(writer, LoggedReader(None), em), "reentrant", _startcount=1)
    ch_main = gw.newchannel()
    holder["ch"] = gw.newchannel()
    doomed_id = holder["ch"].id
    more_doomed = []
    if case["when"] == "inside-buffered":
        holder["ch2"] = gw.newchannel()
        holder["ch3"] = gw.newchannel()
        more_doomed = [holder["ch2"].id, holder["ch3"].id]
    payloads = [bytes.fromhex(p) for p in case["payloads"]]
    res.count(("reentrant", case["nth"], case["when"], case["payloads"]))
    result = {}

    def body():
        try:
            for p in payloads:
                ch_main.send(p)
            result["ok"] = True
        except BaseException as e:  # noqa: BLE001
            result["exc"] = e

    th = threading.Thread(target=body, daemon=True)
    th.start()
    th.join(10)
    if th.is_alive():
        res.violations.append(dict(case=case, what="a send re-entered from Channel.__del__ during a frame write deadlocked"))
        return
    if "exc" in result:
        res.violations.append(dict(case=case, what="send raised %r with a re-entrant Channel.__del__" % (result["exc"],)))
        return
    wire = b"".join(out.calls)
    io, _s, _h = make_reader(execnet, "popen", wire)
    got, ending, exc = read_all(execnet, io)
    sent = [(gb.Message.CHANNEL_DATA, ch_main.id, gb.dumps_internal(p)) for p in payloads]
    nested = (gb.Message.CHANNEL_CLOSE, doomed_id, b"")
    extra_nested = [(gb.Message.CHANNEL_CLOSE, i, b"") for i in more_doomed]
    if fired and any(got.count(m) != 1 for m in extra_nested):
        res.violations.append(dict(case=case, what="frames sent by finalisers during a write / during a deferred write did not all arrive exactly once: "
                                   "peer decodes %s then %s" % (render_msgs(got)[:240], ending)))
        return
    got = [m for m in got if m not in extra_nested]
    main_got = [m for m in got if m != nested]
    if not fired:
        res.stat("reentrant_not_fired")
    if main_got != sent or (fired and got.count(nested) != 1) or ending != "eof":
        res.violations.append(dict(case=case, what="a CHANNEL_CLOSE sent from Channel.__del__ during a frame write corrupted the stream: "
                                   "peer decodes %s then %s" % (render_msgs(got)[:200], ending)))
        return
    res.traces += 1
    res.stat("reentrant_ok")


# ---------------------------------------------------------------------------------------
# family D (thorough): real gateways, several MB per item, several sender threads  (D8 reproduction)
# ---------------------------------------------------------------------------------------
REMOTE_SINK = """
import hashlib
while 1:
    x = channel.receive()
    if x is None:
        break
    channel.send((len(x), hashlib.sha1(x).hexdigest()))
"""


def run_real_case(ctx, res, case):
    import hashlib

    execnet = ctx.execnet
    spec, nthreads, nitems, size = case["spec"], case["nthreads"], case["nitems"], case["size"]
    res.count(("real", spec, nthreads, nitems, size, case.get("round")))
    res.stat("real_" + spec.split("//")[0] + ("_via" if "via=" in spec else ""))
    group = execnet.Group()
    t0 = time.time()
    try:
        if "master" in spec:
            group.makegateway("popen//id=master")
        gw = group.makegateway(spec)
        chans = [gw.remote_exec(REMOTE_SINK) for _ in range(nthreads)]
        payloads = [[bytes([65 + i, k]) * ((size + i + k) // 2) for k in range(nitems)] for i in range(nthreads)]
        errs = []

        def sender(i):
            try:
                for p in payloads[i]:
                    chans[i].send(p)
                chans[i].send(None)
            except BaseException as e:  # noqa: BLE001
                errs.append((i, repr(e)))

        ths = [threading.Thread(target=sender, args=(i,), daemon=True) for i in range(nthreads)]
        for t in ths:
            t.start()
        for t in ths:
            t.join(max(1.0, 90 - (time.time() - t0)))
        hung = [i for i, t in enumerate(ths) if t.is_alive()]
        bad = []
        if not hung and not errs:
            for i, ch in enumerate(chans):
                for k, p in enumerate(payloads[i]):
                    try:
                        r = ch.receive(30)
                    except BaseException as e:  # noqa: BLE001
                        bad.append((i, k, repr(e)))
                        break
                    if r != (len(p), hashlib.sha1(p).hexdigest()):
                        bad.append((i, k, "wrong item"))
                        break
        alive = gw.hasreceiver()
        if hung or errs or bad or not alive:
            res.violations.append(dict(case=case, what="%d threads x %d items of %d bytes on %s: sender errors %r, hung senders %r, wrong/missing replies %r, "
                                       "receiver alive=%r" % (nthreads, nitems, size, spec, errs[:3], hung, bad[:3], alive)))
        else:
            res.traces += 1
    finally:
        group.terminate(timeout=3.0)


# ---------------------------------------------------------------------------------------
# corpus (minimised past failures; run first)
# ---------------------------------------------------------------------------------------
CORPUS_CODEC = [
    # D23: socket reader at EOF on a frame boundary (header read of 0 bytes) raised IndexError
    dict(transport="socket", msgs=[(4, 1, "4c51")], sizes=None),
    dict(transport="socket", msgs=[], sizes=None),
    dict(transport="popen", msgs=[(4, I32_MAX, ""), (-128, I32_MIN, "00"), (127, -1, "ff" * 9)], sizes=[1] * 40),
    dict(transport="proxy", msgs=[(4, 1, "4c51"), (5, 1, "")], sizes=None),
    dict(transport="proxy", msgs=[(4, 1, "4c51"), (5, 1, "")], sizes=[1, 1, 7, 3, 1]),
    dict(transport="popen", msgs=[(200, 1, "")]),
    dict(transport="socket", msgs=[(4, 2**31, "01")]),
    dict(transport="proxy", msgs=[(4, 1, "01"), (4, -(2**31) - 1, "01")]),
]
CORPUS_CUT = [
    dict(transport="socket", msgs=[(4, 1, "4c51"), (4, 3, "4c51")], k=11),   # D23: cut on a frame boundary
    dict(transport="socket", msgs=[(4, 1, "4c51")], k=0),
    dict(transport="socket", msgs=[(4, 1, "4c51")], k=5),
    dict(transport="popen", msgs=[(4, 1, "4c51")], k=10),
    dict(transport="proxy", msgs=[(4, 1, "4c51"), (4, 3, "4c51")], k=12),
]
CORPUS_ATOMIC = [
    # D8: unlocked _send + non-atomic sendall
    dict(kind="atomic", transport="socket", nthreads=3, nitems=4, maxlen=3000, rngseed=8008, cap=None),
    dict(kind="atomic", transport="popen", nthreads=2, nitems=3, maxlen=600, rngseed=8009, cap=7),
]


def run_case(ctx, res, case, batch):
    try:
        _run_case(ctx, res, case, batch)
    except common.ToolFailure:
        raise
    except Exception as e:  # noqa: BLE001 - the code under test left the behaviour every family expects
        import traceback

        res.violations.append(dict(case=case, what="unexpected %s while running the case: %s" % (type(e).__name__, traceback.format_exc()[-600:])))


def _run_case(ctx, res, case, batch):
    kind = case.get("kind", "codec")
    if kind == "codec":
        check_codec_case(ctx, res, case, batch)
    elif kind == "cut":
        check_cut_case(ctx, res, case, batch)
    elif kind == "gwcut":
        gateway_after_cut(ctx, res, case)
    elif kind == "garbage":
        check_garbage_case(ctx, res, case, batch)
    elif kind == "atomic":
        run_atomic_case(ctx, res, case)
    elif kind == "reentrant":
        run_reentrant_case(ctx, res, case)
    elif kind == "real":
        run_real_case(ctx, res, case)
    else:
        raise common.ToolFailure("unknown case kind %r" % kind)


def _tag(case, kind):
    c = dict(case)
    c["kind"] = kind
    return c


def byte_level_cuts(ctx, res, batch=None, tag="cut"):
    """every cut offset of small frame streams (C04, byte level) through every real reader, and the real receiver
    loop; shared by the checks of C08 and C04"""
    gb = ctx.execnet.gateway_base
    own = batch is None
    if own:
        batch = []
    # 5. every cut offset of small streams (C04 bytes) through every reader, + the receiver thread body
    rng = ctx.rng(tag)
    nstreams = ctx.budget(6, 60, 20)
    for s in range(nstreams):
        nm = rng.randint(1, 5)
        msgs = [(rng.choice([4, 4, 5, 6, 7, 0, 3]), rng.choice([1, 3, 5, 2, I32_MAX, -1]), b"") for _ in range(nm)]
        msgs = [(t, c, (gb.dumps_internal(rng.choice([b"x" * rng.randint(0, 40), rng.randint(-9, 9), "é", None])) if t == 4 else rng.randbytes(rng.choice([0, 0, 1, 12]))).hex())
                for t, c, _ in msgs]
        total = sum(HEADER + len(d) // 2 for _, _, d in msgs)
        if total > 400:
            continue
        for transport in TRANSPORTS:
            for k in range(0, total + 2):
                mode = (k + s) % 3
                case = dict(kind="cut", transport=transport, msgs=msgs, k=k, sizes=None if mode == 0 else [1 + (k % 5)] * (total + 2) if mode == 1 else None,
                            rngseed=(rng.randrange(1 << 30) if mode == 2 else None), cap=7)
                run_case(ctx, res, case, batch)
            if len(batch) > 2000:
                flush_batch(ctx, res, batch)
        # the real receiver loop (channels with callbacks): data frames only on ids it may create
        dmsgs = [(t, c, d) for t, c, d in msgs if t in (4, 5) and c > 0]
        dtotal = sum(HEADER + len(d) // 2 for _, _, d in dmsgs)
        for transport in TRANSPORTS:
            for k in range(0, dtotal + 1):
                run_case(ctx, res, dict(kind="gwcut", transport=transport, msgs=dmsgs, k=k, sizes=None), batch)
    if own:
        flush_batch(ctx, res, batch)
    return nstreams


def run(ctx):
    res = common.Result()
    res.rule = ("real Message.to_io/from_io over the real Popen2IO, SocketIO (scripted socket) and ProxyIO (real Channel + ChannelFileRead) "
                "objects: generated frames (all message codes, boundary channel ids, payload 0..MB) x scripted low-level read sizes "
                "(all compositions of small streams, uniform 1..n, random), every cut offset of small streams (C04 bytes), arbitrary byte "
                "streams, 2-5 concurrent sender threads under the deterministic scheduler on a wire that splits every write, re-entrant "
                "Channel.__del__ during a write; thorough: real socket/popen/via gateways with MB items. distinct = distinct "
                "(transport, frames, chunking/cut/schedule seed); non-trivial = non-empty payload or boundary id / cut strictly inside")
    execnet = ctx.execnet
    gb = execnet.gateway_base
    codes = sorted(gb.Message._types)
    batch = []
    t_start = time.time()
    # C04 byte-level obligations live in their own Props module; check them with this property's run
    try:
        c04 = common.prove("C04", ctx.tier)
        res.extra["c04_bytes_obligations"] = dict(obligations=c04["obligations"], discharged=c04["discharged"],
                                                  undischarged=[list(b) for b in c04["broken"]])
        for name, why in c04["broken"]:
            res.mismatches.append(dict(op="proof-obligation", case=name, impl="", model=why))
    except KeyError:
        pass
    # 1. corpus
    for c in CORPUS_CODEC:
        run_case(ctx, res, _tag(dict(c, rngseed=None), "codec"), batch)
    for c in CORPUS_CUT:
        run_case(ctx, res, _tag(c, "cut"), batch)
        run_case(ctx, res, _tag(c, "gwcut"), batch)
    for c in CORPUS_ATOMIC:
        run_case(ctx, res, c, batch)
    flush_batch(ctx, res, batch)
    # 2. all message codes x boundary ids x every transport, contiguous and 1-byte reads
    for transport in TRANSPORTS:
        for t in codes + [-128, -1, 127, 8]:
            for cid in CIDS[:8]:
                d = bytes([t & 0xFF, 0x31]) * (cid % 3)
                run_case(ctx, res, dict(kind="codec", transport=transport, msgs=[(t, cid, d.hex())], sizes=[1] * (HEADER + len(d)) if cid % 2 else None,
                                        rngseed=None), batch)
    flush_batch(ctx, res, batch)
    # 3. exhaustive chunkings of small streams: all compositions (<= 13 bytes; 17 on thorough), uniform 1..n up to 24 B + n
    rng = ctx.rng("small")
    exhaustive_ok = True
    maxcomp = ctx.budget(13, 17, 15)
    for transport in TRANSPORTS:
        for paylen in range(0, maxcomp - HEADER + 1):
            m = (rng.choice(codes), rng.choice(CIDS), rng.randbytes(paylen).hex())
            for sizes in compositions(HEADER + paylen):
                run_case(ctx, res, dict(kind="codec", transport=transport, msgs=[m], sizes=sizes, rngseed=None), batch)
            if len(batch) > 3000:
                flush_batch(ctx, res, batch)
        for paylen in range(0, 24 - HEADER + 1):
            ms = [(rng.choice(codes), rng.choice(CIDS), rng.randbytes(paylen).hex()), (5, rng.choice(CIDS), "")]
            total = 2 * HEADER + paylen
            for c in range(1, total + 1):
                run_case(ctx, res, dict(kind="codec", transport=transport, msgs=ms, sizes=[c] * (total // c + 2), rngseed=None), batch)
    flush_batch(ctx, res, batch)
    # 4. generated frame sequences x random chunkings (payload up to several hundred kB; MB on thorough)
    n = ctx.budget(500, 6000, 1500)
    rng = ctx.rng("gen")
    for i in range(n):
        big = i % 50 == 49
        maxlen = (ctx.budget(400000, 4 << 20, 1 << 20) if big else rng.choice([8, 64, 300, 5000, 70000]))
        nm = 1 if big else rng.randint(1, 6)
        msgs = [gen_msg(rng, codes, maxlen) for _ in range(nm)]
        if big:
            msgs = [(msgs[0][0], msgs[0][1], ["rnd", rng.randrange(1 << 30), rng.randint(maxlen // 2, maxlen)])]
        if rng.random() < 0.03:
            j = rng.randrange(nm)
            t, c, d = msgs[j]
            msgs[j] = rng.choice([(rng.choice([128, 200, -129, 256]), c, d), (t, rng.choice([2**31, -(2**31) - 1, 2**40]), d)])
        total = sum(HEADER + len(mat(d)) for _, _, d in msgs)
        mode = rng.randrange(4)
        cap = None
        seed = None
        sizes = None
        if mode == 0:
            sizes = None
        elif mode == 1:
            seed, cap = rng.randrange(1 << 30), rng.choice([1, 2, 3, 9, 10, 100, 4096, 65536])
            if total > 20000:
                cap = max(cap, total // 400)
        elif mode == 2:
            c = rng.choice([1, 2, 8, 9, 10, 13, 4096, 65536])
            if total > 20000:
                c = max(c, total // 400)
            sizes = [c] * (total // c + 2)
        else:
            seed, cap = rng.randrange(1 << 30), max(1, total)
        transport = TRANSPORTS[i % 3]
        case = dict(kind="codec", transport=transport, msgs=msgs, sizes=sizes, rngseed=seed, cap=cap, driver_big=big and i % 100 == 99)
        run_case(ctx, res, case, batch)
        res.sample(dict(transport=transport, msgs=[(t, c, len(mat(d))) for t, c, d in msgs], chunking=("contiguous", "random<=%s" % cap, "uniform", "random")[mode]))
        if len(batch) > 400:
            flush_batch(ctx, res, batch)
    flush_batch(ctx, res, batch)
    nstreams = byte_level_cuts(ctx, res, batch)
    flush_batch(ctx, res, batch)
    res.exhaustive = exhaustive_ok
    res.extra["exhaustive_over"] = ("all compositions of single-frame streams up to %d bytes; uniform read sizes 1..n of two-frame streams up to 33 bytes; "
                                    "every cut offset 0..n+1 of %d generated streams (<= 400 bytes) x 3 readers" % (maxcomp, nstreams))
    # 6. arbitrary byte streams
    rng = ctx.rng("garbage")
    for i in range(ctx.budget(300, 5000, 1200)):
        ln = rng.choice([0, 1, 8, 9, 10, 18, 19, 30, 60])
        data = bytearray(rng.randbytes(ln))
        if ln >= 9 and rng.random() < 0.7:
            # plausible length field so that several frames are decoded
            struct.pack_into("!i", data, 5, rng.choice([0, 1, 2, ln - 9, ln - 10, -1, -5, 3, 2**31 - 1, -(2**31)]))
        run_case(ctx, res, dict(kind="garbage", transport=TRANSPORTS[i % 3], data=bytes(data).hex(), rngseed=rng.randrange(1 << 30), cap=rng.choice([1, 3, 9, 64])), batch)
    flush_batch(ctx, res, batch)
    # 7. concurrent senders under the scheduler; re-entrant __del__
    rng = ctx.rng("atomic")
    for i in range(ctx.budget(40, 600, 150)):
        cap = rng.choice([None, 1, 5, 64])
        case = dict(kind="atomic", transport=("socket", "popen")[i % 2], nthreads=rng.randint(2, 5), nitems=rng.randint(1, 5),
                    maxlen=rng.choice([50, 600] if cap in (1, 5) else [50, 600, 3000]), rngseed=rng.randrange(1 << 30), cap=cap)
        run_case(ctx, res, case, batch)
    for nth in range(0, 4):
        for when in ("before", "after"):
            run_case(ctx, res, dict(kind="reentrant", nth=nth, when=when, payloads=["", "aa" * 20, "00"]), batch)
        run_case(ctx, res, dict(kind="reentrant", nth=nth, when="inside-buffered", payloads=["", "aa" * 200, "00"]), batch)
    # 8. thorough: real gateways, D8 reproduction
    if ctx.thorough or ctx.search_mode:
        rounds = 4 if ctx.thorough else 2
        for r in range(rounds):
            for spec in ("socket//installvia=master", "popen", "popen//via=master"):
                if time.time() - t_start > 600:
                    break
                run_case(ctx, res, dict(kind="real", spec=spec, nthreads=3, nitems=4, size=3 * 1024 * 1024, round=r), batch)
    runtime_probes(ctx, res)
    res.assumptions.append("the kernel pipe / TCP socket is a reliable FIFO byte stream; a single low-level write (BufferedWriter.write+flush, "
                           "sock.sendall) is not interrupted by Python code of the same thread")
    return res


def runtime_probes(ctx, res):
    """two things the byte-level model takes for granted about the process the frames are written in:
    (1) a frame larger than the pipe buffer reaches the peer whole although signals with a Python-level handler keep
        interrupting the write (short counts from write(2) must be completed);
    (2) nothing but the receiver thread reads the descriptor the frames arrive on: the worker's fd 0 is not the frame pipe."""
    import subprocess
    import sys

    env = dict(os.environ, PYTHONPATH=os.path.join(common.REPO, "src"), PYTHONDONTWRITEBYTECODE="1")
    case = dict(kind="runtime", probe="signals-during-large-writes", items=4, size=2 << 20)
    res.count(("runtime", "signals"))
    try:
        p = subprocess.run([sys.executable, os.path.join(os.path.dirname(os.path.abspath(__file__)), "c08_sigchild.py"), "4", str(2 << 20)],
                           env=env, capture_output=True, text=True, timeout=120)
        line = (p.stdout.strip().splitlines() or ["{}"])[-1]
        out = json.loads(line) if line.startswith("{") else {"ok": False, "problems": ["child printed %r, stderr %s" % (p.stdout[-200:], p.stderr[-300:])]}
    except subprocess.TimeoutExpired:
        out = {"ok": False, "problems": ["sending 4 x 2 MiB under a 2 ms interval timer did not finish within 120 s"]}
    if not out.get("ok"):
        res.violations.append(dict(case=case, what="large frames written while signals arrive: " + "; ".join(out.get("problems", ["?"]))[:400]))
    else:
        res.traces += 1
        res.stat("runtime_signals_delivered", int(out.get("signals", 0)))
    # (2)
    execnet = ctx.execnet
    case = dict(kind="runtime", probe="worker-stdin-is-not-the-frame-pipe")
    res.count(("runtime", "stdin"))
    group = execnet.Group()
    try:
        gw = group.makegateway("popen")
        ch = gw.remote_exec("import os, threading\nseen = []\n"
                            "t = threading.Thread(target=lambda: seen.append(os.read(0, 64)), daemon=True)\nt.start()\n"
                            "for i in range(3):\n    channel.send(('echo', channel.receive()))\n"
                            "t.join(2)\nchannel.send(('stdin', seen))\n")
        got = []
        for i in range(3):
            ch.send(("item", i, b"z" * 100))
            got.append(ch.receive(10))
        tail = ch.receive(10)
        if got != [("echo", ("item", i, b"z" * 100)) for i in range(3)] or tail != ("stdin", [b""]):
            res.violations.append(dict(case=case, what="code reading the worker's stdin while frames flow: echoes %r, stdin read %r (expected the items back and EOF on stdin)"
                                       % ([g[1][1] if isinstance(g, tuple) and len(g) > 1 and isinstance(g[1], tuple) else g for g in got], tail)))
        else:
            res.traces += 1
    except Exception as e:  # noqa: BLE001
        res.violations.append(dict(case=case, what="code reading the worker's stdin while frames flow: %r" % (e,)))
    finally:
        group.terminate(timeout=2.0)


def search(ctx, prev):
    return run(ctx)


def replay(ctx, payload):
    res = common.Result()
    batch = []
    case = payload["case"]
    if "msgs" in case:
        case = dict(case, msgs=[tuple(m) for m in case["msgs"]])
    run_case(ctx, res, case, batch)
    flush_batch(ctx, res, batch)
    return res
