"""C02 — channel protocol property (DESIGN.md §4 C02); shared machinery in netprops.py."""
from __future__ import annotations

from . import common, netprops

PROP = "C02"


def run(ctx):
    res = common.Result()
    res.rule = ("(a) random operation programs (6-40 ops: new/rexec/send/deliver/recv/close/setcb/drop/finish/cut, channel transfers) on the real "
                "in-process gateway pair with frame-gated delivery, outputs and state digest compared with the Lean Net model; (b) transcript oracle: "
                "items obtained per channel are a duplicate-free in-order part of the items the peer sent on that channel; (c) thread-level scenarios "
                "(1-4 conversations, several sender/receiver threads per side, items up to 5 kB, chunked reads; receive / iteration / two receivers / setcallback after 0-5 receives) under random schedules: received == sent; "
                "distinct = distinct op program / scenario parameters; non-trivial = more than 3 ops")
    netprops.op_level(ctx, res, PROP, ctx.budget(400, 24000, 600))
    netprops.run_scenarios(ctx, res, netprops.scenario_streams, ctx.budget(110, 24000, 350), "streams")
    # "through receive, iteration or a callback": the same scenarios with setcallback at a random moment of the stream
    netprops.run_scenarios(ctx, res, netprops.scenario_streams, ctx.budget(90, 18000, 300), "streams-cb", with_callbacks=True)
    # "… or leakage into any other channel": concurrent creators under line-level pre-emption (two conversations must never
    # end up on one channel object)
    netprops.run_scenarios(ctx, res, netprops.scenario_ids, ctx.budget(25, 1500, 300), "ids-preempt", preempt=6)
    netprops.process_level_streams(ctx, res)
    # the same over a socket gateway (SocketIO.read assembles a frame from many recv() pieces)
    netprops.process_level_streams(ctx, res, nconv=3, spec="socket-installvia")
    if ctx.thorough:
        netprops.run_scenarios(ctx, res, netprops.scenario_streams, 300, "streams-preempt", preempt=3)
        for spec in ("popen//execmodel=main_thread_only", "popen//python=/venv/bin/python"):
            netprops.process_level_streams(ctx, res, nconv=1 if "main_thread_only" in spec else 3, spec=spec)
    netprops.process_level_structured(ctx, res)
    return res


def search(ctx, prev):
    return run(ctx)


def replay(ctx, payload):
    c = payload["case"]
    if "ops" in c:
        return netprops.replay_ops(ctx, PROP, c["ops"].split(" ; "))
    return run(ctx)
