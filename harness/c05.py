"""C05 — Group.terminate(timeout) returns promptly and leaves no local child behind (DESIGN.md §4 C05).

(i) virtual time: the REAL `Group.terminate`, `Gateway.exit`, `Group._unregister` and `safe_terminate` (with its
    real WorkerPool) run in-process under the deterministic scheduler over fake gateways whose
    `join` / `_io.wait` / `_io.kill` follow a generated script (remote class x kill class, `via` chains,
    members `exit()`ed beforehand); the Lean model (`term.run`) predicts rounds, order of exits, kill sets, who
    is known to be gone after which round and the elapsed virtual time — compared exactly; the property's own
    oracle judges the implementation's run (returned, group empty, every killable child gone, bounded time,
    proxied members finished before their via-gateway is exited).
(ii) process level: real popen / via / socket groups (harness/c05_scenario.py, one child process per
    scenario) with remote programs {idle, blocked, busy, sleep, SIGINT ignored, KeyboardInterrupt swallowed,
    SIGSTOPped, extra non-daemon thread, already dead}; oracle: wall time within the bound + slack, group empty,
    every recorded pid gone.  Plus: a failed makegateway (id taken) must raise and leave no extra process.
"""
from __future__ import annotations

import atexit
import json
import os
import random
import select
import signal
import subprocess
import sys
import threading
import time

from . import common, sched as schedmod
from .c11 import become_subreaper, descendants, kill_quietly, proc_state, reap

KILL_TOK = {"eff": "eff", "noop": "noop", "blocks": "blocks"}


# ---------------------------------------------------------------------------------------
# (i) virtual time
# ---------------------------------------------------------------------------------------
def member_tokens(m):
    rem = "stuck" if m["d"] is None else "e%d" % m["d"]
    return "%s %d %s %s %s" % ("j" if m.get("pre") else "m", m["id"], "-" if m["via"] is None else m["via"], rem, m["kill"])


def model_line(case):
    T = "-" if case["T"] is None else str(case["T"])
    ms = [m for m in case["members"] if m.get("pre")] + [m for m in case["members"] if not m.get("pre")]
    # the model's group: pre-exited members in the order of their exit() calls, registered ones in creation order
    return "term.run %s %d %s" % (T, case["c"], " ".join(member_tokens(m) for m in ms))


class VirtualTerminate:
    def __init__(self, execnet, case):
        self.execnet = execnet
        self.case = case
        self.teardown = False
        self.exits = []       # (id, time)
        self.kills = []       # (id, time)
        self.calls = []       # per safe_terminate call: dict(ids, start, end)
        self.returned_at = None
        self.error = None

    def run(self):
        execnet, case = self.execnet, self.case
        gb, multi, gateway = execnet.gateway_base, execnet.multi, execnet.gateway
        s = self.sched = schedmod.Scheduler(rng=random.Random(case["sched_seed"]), timeouts="when_stuck", max_steps=30000)
        em = schedmod.make_execmodel(gb, s)
        vt = self

        class FakeIO:
            def __init__(self, fg):
                self.fg = fg

            def wait(self):
                self.fg.wait_gone("io.wait")
                return 0

            def kill(self):
                fg = self.fg
                vt.kills.append((fg.mid, s.now))
                kind = fg.m["kill"]
                if kind == "eff":
                    if case["c"]:
                        s.block_until(lambda: vt.teardown, float(case["c"]), "io.kill")
                    fg.killed_at = s.now
                elif kind == "noop":
                    return
                else:
                    s.block_until(lambda: vt.teardown, None, "io.kill(blocks)")

            def close_write(self):
                pass

            def close_read(self):
                pass

        class FakeGateway(gateway.Gateway):
            """the real Gateway.exit / __repr__ etc. over a scripted remote"""

            def __init__(self, m):  # noqa: super().__init__ not called: no receiver thread, no real io
                self.m = m
                self.mid = m["id"]
                self.id = str(m["id"])
                via = "" if m["via"] is None else "//via=%d" % m["via"]
                self.spec = execnet.XSpec("popen//id=%d%s" % (m["id"], via))
                self._io = FakeIO(self)
                self._BaseGateway__trace = lambda *a: None
                self.execmodel = em
                self.exit_at = None
                self.killed_at = None
                self.term_done_at = None

            def _send(self, msgcode, channelid=0, data=b""):
                assert msgcode == gb.Message.GATEWAY_TERMINATE
                self.exit_at = s.now
                vt.exits.append((self.mid, s.now))

            def gone_at(self):
                """virtual time at which the remote process is gone (None: not known to go)"""
                cands = []
                if self.killed_at is not None:
                    cands.append(self.killed_at)
                if self.exit_at is not None and self.m["d"] is not None:
                    cands.append(self.exit_at + self.m["d"])
                return min(cands) if cands else None

            def wait_gone(self, what):
                while True:
                    g = self.gone_at()
                    if g is not None and g <= s.now:
                        return
                    if vt.teardown:
                        raise schedmod.SchedAbort()
                    before = self.killed_at
                    s.block_until(lambda: vt.teardown or self.killed_at != before, None if g is None else g - s.now, what)

            def join(self, timeout=None):
                self.wait_gone("gw.join")

        real_safe_terminate = multi.safe_terminate

        def recording_safe_terminate(execmodel, timeout, pairs):
            rec = dict(ids=[p[0].args[0].mid for p in pairs], start=s.now, end=None, nexits=len(vt.exits))
            vt.calls.append(rec)
            real_safe_terminate(execmodel, timeout, pairs)
            rec["end"] = s.now

        group = execnet.Group(execmodel=em)
        atexit.unregister(group._cleanup_atexit)
        self.group = group
        self.gws = {}

        def main():
            for m in case["members"]:
                fg = FakeGateway(m)
                self.gws[m["id"]] = fg
                group._register(fg)
            for m in case["members"]:
                if m.get("pre"):
                    self.gws[m["id"]].exit()
            self.pre_exits = list(self.exits)
            del self.exits[:]
            t0 = s.now
            try:
                group.terminate(timeout=None if case["T"] is None else float(case["T"]))
            except schedmod.SchedAbort:
                raise
            except BaseException as e:  # noqa: BLE001
                self.error = "%s: %s" % (type(e).__name__, e)
            self.returned_at = s.now - t0
            self.final = (len(group), len(group._gateways_to_join))
            self.gone_at_return = {mid: (fg.gone_at() is not None and fg.gone_at() <= s.now) for mid, fg in self.gws.items()}
            self.teardown = True

        multi.safe_terminate = recording_safe_terminate
        hang = None
        try:
            try:
                s.run(main, wall_timeout=30.0)
            except schedmod.Deadlock as e:
                hang = str(e)
        finally:
            multi.safe_terminate = real_safe_terminate
            if not s.aborted:
                s._abort_all()
            for t in s.threads:
                if t.real is not None:
                    t.real.join(5.0)
            s.current = None
            s.aborted = False
            group._gateways[:] = []
            group._gateways_to_join[:] = []
        return self.summary(hang)

    def summary(self, hang):
        out = dict(hang=hang, error=self.error, exits=self.exits, kills=self.kills, calls=self.calls)
        never = self.returned_at is None
        out["never"] = never

        def ids(xs):
            return ",".join(str(x) for x in xs)

        ex_per, kills_per, reaped_per, per = [], [], [], []
        prev_n = 0
        for c in self.calls:
            ex_per.append(ids([mid for mid, _t in self.exits[prev_n:c["nexits"]]]))
            prev_n = c["nexits"]
            end = c["end"]
            kills_per.append(ids(sorted(mid for mid, t in self.kills if mid in c["ids"] and t >= c["start"] and (end is None or t <= end))))
            if end is None:
                reaped_per.append("")
                per.append("never")
            else:
                reaped_per.append(ids(sorted(mid for mid in c["ids"] if self.gws[mid].gone_at() is not None and self.gws[mid].gone_at() <= end)))
                per.append("%d" % round(end - c["start"]))
        el = "never" if never else "%d" % round(self.returned_at)
        out["canon"] = "elapsed=%s rounds=%d exits=%s kills=%s reaped=%s per=%s" % (
            el, len(self.calls), ";".join(ex_per), ";".join(kills_per), ";".join(reaped_per), ";".join(per))
        if not never:
            out["canon"] += " final=%d/%d" % self.final
        return out


def via_depth(members):
    byid = {m["id"]: m for m in members}
    def depth(m, seen=()):
        if m["via"] is None or m["via"] not in byid or m["id"] in seen:
            return 0
        return 1 + depth(byid[m["via"]], seen + (m["id"],))
    return max([depth(m) for m in members] or [0])


def gen_virtual_case(rng, i):
    n = rng.choice([1, 1, 2, 2, 3, 3, 4, 5, 6, 8])
    T = rng.choice([10, 10, 20, 30, 50])
    if rng.random() < 0.06:
        T = None
    c = rng.choice([0, 0, 1, 2, 3])
    members = []
    ids = rng.sample(range(1, 40), n)
    for k, mid in enumerate(ids):
        via = None
        if k and rng.random() < 0.45:
            via = rng.choice(ids[:k])
        kill = rng.choice(["eff", "eff", "eff", "noop", "blocks"]) if rng.random() < 0.5 else "eff"
        r = rng.random()
        if r < 0.3:
            d = None
        elif r < 0.65:
            d = rng.choice([0, 1, 2, 3, 4, 5, 6, 8, 9])          # exits in time (never a multiple of 10 = never a tie)
        else:
            d = rng.choice([11, 12, 13, 25, 46, 51, 99, 151, 152])  # exits late (C11: up to 15 s and beyond)
        if kill == "noop" and d is not None:
            d = d // 10 * 10 + 7                                    # noop kills: final waitall never ties
        elif d is not None and d % 10 == 7:
            d += 1
        if T is None:
            kill = "eff"
        members.append(dict(id=mid, via=via, d=d, kill=kill))
    # members exit()ed individually before terminate (only members nobody is proxied through, like a user would)
    used = {m["via"] for m in members}
    for m in members:
        if m["id"] not in used and m["via"] is None and rng.random() < 0.15:
            m["pre"] = True
    if T is None and rng.random() < 0.7:
        for m in members:
            if m["d"] is None:
                m["d"] = rng.choice([3, 12, 99])
    return dict(T=T, c=c, members=members, sched_seed=rng.randrange(1 << 30))


VIRTUAL_CORPUS = [
    # D25 (pinned tree): the only member was exit()ed before; `while self:` never joined / killed it
    dict(T=10, c=0, members=[dict(id=1, via=None, d=None, kill="eff", pre=True)], sched_seed=1),
    dict(T=10, c=1, members=[dict(id=1, via=None, d=2, kill="eff"), dict(id=2, via=1, d=None, kill="eff"),
                             dict(id=3, via=2, d=46, kill="eff"), dict(id=4, via=None, d=None, kill="eff"),
                             dict(id=9, via=None, d=None, kill="eff", pre=True)], sched_seed=2),
    dict(T=10, c=1, members=[dict(id=1, via=None, d=None, kill="blocks"), dict(id=2, via=None, d=3, kill="eff")], sched_seed=3),
    dict(T=20, c=0, members=[dict(id=5, via=None, d=None, kill="noop"), dict(id=6, via=5, d=1, kill="eff")], sched_seed=4),
    dict(T=None, c=0, members=[dict(id=1, via=None, d=12, kill="eff"), dict(id=2, via=1, d=99, kill="eff")], sched_seed=5),
    dict(T=None, c=0, members=[dict(id=1, via=None, d=None, kill="eff")], sched_seed=6),
    dict(T=10, c=2, members=[dict(id=3, via=None, d=27, kill="noop"), dict(id=4, via=None, d=None, kill="blocks"),
                             dict(id=7, via=3, d=151, kill="eff")], sched_seed=7),
]


def check_virtual(ctx, res, cases, origin, chunk=100):
    """in chunks, so that a broken implementation is reported after the first few failing cases"""
    for i in range(0, len(cases), chunk):
        _check_virtual(ctx, res, cases[i:i + chunk], origin)
        if len(res.violations) >= 20 or sum(1 for v in res.violations if "never returns" in v["what"]) >= 3:
            break


def _check_virtual(ctx, res, cases, origin):
    outs = []
    hangs = 0
    for case in cases:
        out = VirtualTerminate(ctx.execnet, case).run()
        outs.append(out)
        if out["never"] and case["T"] is not None:
            hangs += 1
            if hangs >= 3:  # a terminate that never returns is slow to diagnose (step budget): three are enough
                break
    cases = cases[:len(outs)]
    models = ctx.driver.ask([model_line(case) for case in cases])
    for case, out, model in zip(cases, outs, models):
        key = dict(case, kind="virtual", origin=origin)
        members = case["members"]
        nontrivial = len(members) > 1 or any(m["d"] is None or m.get("pre") for m in members)
        res.count(("virtual", json.dumps(case, sort_keys=True)), nontrivial=nontrivial)
        res.stat("virtual_n%d" % len(members))
        res.stat("virtual_depth%d" % via_depth(members))
        for m in members:
            res.stat("kill_" + m["kill"])
            res.stat("remote_" + ("stuck" if m["d"] is None else "exits"))
            if m.get("pre"):
                res.stat("pre_exited")
        T, c = case["T"], case["c"]
        # ---------------- the property's own oracle (finite time-out only)
        if T is not None:
            if out["never"]:
                res.violations.append(dict(case=key, what="terminate(timeout=%s) never returns (virtual time): %s" % (T, (out["hang"] or "")[:500]),
                                           impl=out["canon"], finding=None))
                continue
            if out["error"]:
                res.violations.append(dict(case=key, what="terminate raised " + out["error"], impl=out["canon"], finding=None))
                continue
            final = out["canon"].rsplit("final=", 1)[1]
            if final != "0/0":
                res.violations.append(dict(case=key, what="group not empty after terminate: members/_gateways_to_join = " + final,
                                           impl=out["canon"], finding=None))
                continue
            nb = sum(1 for m in members if m["kill"] == "blocks")
            rounds_max = via_depth(members) + 1 + (1 if any(m.get("pre") for m in members) and all(m.get("pre") for m in members) else 0)
            bound = rounds_max * (T + c + ((nb + 1) * 2 * T if any(m["kill"] != "eff" for m in members) else 0))
            el = int(out["canon"].split(" ")[0].split("=")[1])
            if el > bound:
                res.violations.append(dict(case=key, what="terminate(timeout=%d) took %d ticks, more than the bound %d (%d rounds)" % (T, el, bound, rounds_max),
                                           impl=out["canon"], finding=None))
                continue
            # every killable child is known to be gone when terminate returns
            reaped = set()
            for part in out["canon"].split(" reaped=")[1].split(" ")[0].split(";"):
                reaped |= {int(x) for x in part.split(",") if x}
            missing = [m["id"] for m in members if m["kill"] == "eff" and c <= T and m["id"] not in reaped]
            if missing:
                res.violations.append(dict(case=key, what="killable children not waited/killed when terminate returned: %r" % missing,
                                           impl=out["canon"], finding=None))
                continue
            # via order: a proxied member's round is over before its via-gateway is exited
            exit_time = {mid: t for mid, t in out["exits"]}
            bad = None
            for m in members:
                if m["via"] is not None and m["via"] in exit_time:
                    ends = [cl["end"] for cl in out["calls"] if m["id"] in cl["ids"]]
                    if not ends or ends[0] is None or ends[0] > exit_time[m["via"]]:
                        bad = (m["id"], m["via"])
            if bad:
                res.violations.append(dict(case=key, what="via-gateway %d was exited before its proxied member %d had been waited for / killed" % (bad[1], bad[0]),
                                           impl=out["canon"], finding=None))
                continue
        # ---------------- correspondence with the Lean model
        res.stat("model_rounds_" + model.split(" rounds=")[1].split(" ")[0] if " rounds=" in model else "model_bad")
        impl = out["canon"]
        mcanon = model
        if out["never"]:
            # the model stops at the round that never returns; compare what both did up to there
            mcanon = model.split(" final=")[0]
        if impl != mcanon:
            res.mismatches.append(dict(op="term.run", case=key, impl=impl, model=model, line=model_line(case)))
        else:
            res.traces += 1
        res.sample(dict(case=case, impl=impl))


# ---------------------------------------------------------------------------------------
# (ii) process level
# ---------------------------------------------------------------------------------------
PROGRAM_CLASS = {
    # program -> remote class ticks (tenths of a second after exit(); None = stuck) following C11
    "idle": 0, "blocked": 0, "busy": 50, "sleep": 50, "sigint-ignored": 150, "swallow": 150,
    "stopped": None, "threads": None, "dead": 0,
}


def scenario_model_line(sc):
    T = int(round(sc["timeout"] * 10))
    toks = []
    idnum = {m["id"]: i + 1 for i, m in enumerate(sc["members"])}
    pre = [m for m in sc["members"] if m.get("pre_exit")]
    reg = [m for m in sc["members"] if not m.get("pre_exit")]
    d_of = {m["id"]: PROGRAM_CLASS[m["program"]] for m in sc["members"]}
    # a socket worker lives inside the popen worker that installed its server (on that worker's main thread):
    # while it is there its host cannot leave by itself; when the host is killed at T the socket worker is gone too
    for m in sc["members"]:
        if m["spec"].startswith("socket"):
            host = [p.split("=")[1] for p in m["spec"].split("//") if p.startswith("installvia=")][0]
            dk = d_of[m["id"]]
            if dk is None or dk > T:
                d_of[host] = None if d_of[host] is None else max(d_of[host], 50)
                d_of[m["id"]] = T
    for m in pre + reg:
        d = d_of[m["id"]]
        via = None
        for part in m["spec"].split("//"):
            if part.startswith("via="):
                via = idnum[part[4:]]
        kill = "noop" if m["spec"].startswith("socket") else "eff"
        toks.append("%s %d %s %s %s" % ("j" if m.get("pre_exit") else "m", idnum[m["id"]], "-" if via is None else via,
                                        "stuck" if d is None else "e%d" % d, kill))
    return "term.run %d 0 %s" % (T, " ".join(toks))


def gen_scenarios(ctx, rng):
    quick = not ctx.thorough and not ctx.search_mode
    programs = list(PROGRAM_CLASS)
    out = []
    if quick:
        out = [
            dict(kind="terminate", timeout=0.5, members=[dict(id="a", spec="popen//id=a", program="stopped"),
                                                         dict(id="b", spec="popen//id=b", program="idle")]),
            dict(kind="terminate", timeout=0.2, members=[dict(id="a", spec="popen//id=a", program="swallow"),
                                                         dict(id="b", spec="popen//id=b", program="blocked"),
                                                         dict(id="c", spec="popen//id=c", program="dead")]),
            dict(kind="terminate", timeout=0.5, members=[dict(id="m", spec="popen//id=m", program="idle"),
                                                         dict(id="s", spec="popen//via=m//id=s", program="busy")]),
            dict(kind="terminate", timeout=0.5, members=[dict(id="a", spec="popen//id=a", program="stopped", pre_exit=True)]),
            dict(kind="terminate", timeout=1.0, members=[dict(id="a", spec="popen//id=a", program="threads"),
                                                         dict(id="b", spec="popen//id=b", program="sigint-ignored")]),
            dict(kind="terminate", timeout=0.5, members=[dict(id="m", spec="popen//id=m", program="idle"),
                                                         dict(id="k", spec="socket//installvia=m//id=k", program="sleep")]),
            # the boundary value: terminate(timeout=0) kills at once and returns (0 is a time-out, not "no time-out")
            dict(kind="terminate", timeout=0.0, members=[dict(id="a", spec="popen//id=a", program="stopped"),
                                                         dict(id="b", spec="popen//id=b", program="busy")]),
        ]
        for sc in out:
            sc["execmodel"] = "thread"
            sc["remote_execmodel"] = "thread"
        out[1]["remote_execmodel"] = "main_thread_only"
        return out
    n = ctx.budget(6, 240, 60)
    for i in range(n):
        topo = rng.choice(["popen", "popen", "via", "via", "socket", "chain"])
        T = rng.choice([0.2, 0.5, 1.0, 0.0])
        members = []
        if topo == "popen":
            for k in range(rng.randint(1, 4)):
                members.append(dict(id="p%d" % k, spec="popen//id=p%d" % k, program=rng.choice(programs)))
        elif topo == "via":
            members.append(dict(id="m", spec="popen//id=m", program=rng.choice(["idle", "idle", "blocked"])))
            for k in range(rng.randint(1, 3)):
                members.append(dict(id="s%d" % k, spec="popen//via=m//id=s%d" % k, program=rng.choice(programs)))
        elif topo == "chain":
            members.append(dict(id="m", spec="popen//id=m", program="idle"))
            members.append(dict(id="s", spec="popen//via=m//id=s", program="idle"))
            members.append(dict(id="t", spec="popen//via=s//id=t", program=rng.choice(programs)))
            if rng.random() < 0.5:
                members.append(dict(id="p", spec="popen//id=p", program=rng.choice(programs)))
        else:
            members.append(dict(id="m", spec="popen//id=m", program="idle"))
            members.append(dict(id="k", spec="socket//installvia=m//id=k", program=rng.choice(["idle", "blocked", "busy", "sleep", "swallow"])))
            if rng.random() < 0.5:
                members.append(dict(id="p", spec="popen//id=p", program=rng.choice(programs)))
        sc = dict(kind="terminate", timeout=T, members=members)
        used = set()
        for m in members:
            for part in m["spec"].split("//"):
                if part.startswith(("via=", "installvia=")):
                    used.add(part.split("=")[1])
        for m in members:
            if m["id"] not in used and "via=" not in m["spec"] and not m["spec"].startswith("socket") and rng.random() < 0.15:
                m["pre_exit"] = True
        # local execmodel of the group / execmodel of the workers.  A main_thread_only or gevent worker cannot run
        # two bodies at once (a forwarder or socket server occupies it), so those are used with plain popen members
        sc["execmodel"] = rng.choice(["thread", "thread", "main_thread_only", "gevent"])
        if sc["execmodel"] == "gevent" and topo == "socket":
            sc["execmodel"] = "thread"  # GeventExecModel.socket raises AttributeError (gevent.socket not imported): not this property
        sc["remote_execmodel"] = "thread"
        if topo == "popen" and rng.random() < 0.4:
            sc["remote_execmodel"] = rng.choice(["main_thread_only", "gevent"])
        out.append(sc)
    return out


def gen_concurrent_make(rng, n):
    """overlapping makegateway calls: random interleavings of `b c id` / `f c fault`, every call finished at the end"""
    out = [
        # the shape "A in flight, B refused, C after B, A and C finish" first
        dict(kind="concurrent-make", ops=[["b", 0, 7], ["b", 1, 7], ["b", 2, 7], ["f", 0, 0], ["f", 2, 0]]),
        dict(kind="concurrent-make", ops=[["b", 0, 7], ["f", 0, 1], ["b", 1, 7], ["f", 1, 0], ["b", 2, 7]]),
        dict(kind="concurrent-make", ops=[["b", 0, None], ["b", 1, 0], ["b", 2, 1], ["b", 3, None], ["f", 2, 0], ["f", 0, 0], ["b", 4, None], ["f", 4, 0]]),
    ]
    for _ in range(n):
        ncalls = rng.randint(2, 6)
        pool = rng.choice([[7], [7, 8], [7, None], [0, 1, None], [7, 8, None]])
        ops, open_, nxt = [], [], 0
        while nxt < ncalls or open_:
            if nxt < ncalls and (not open_ or rng.random() < 0.6):
                ops.append(["b", nxt, rng.choice(pool)])
                open_.append(nxt)   # (a refused call is simply "not in flight" for its `f`)
                nxt += 1
            else:
                c = open_.pop(rng.randrange(len(open_)))
                ops.append(["f", c, 1 if rng.random() < 0.25 else 0])
        out.append(dict(kind="concurrent-make", ops=ops))
    return out


def concurrent_model_line(sc):
    toks = []
    for k, c, a in sc["ops"]:
        toks.append("%s%d:%s" % (k, c, ("-" if a is None else a) if k == "b" else a))
    return "mkc.run code " + " ".join(toks)


class ScenarioRun(threading.Thread):
    def __init__(self, sc, idx):
        super().__init__(daemon=True)
        self.sc = sc
        self.idx = idx
        self.result = None
        self.error = None

    def run(self):
        try:
            self.result = self._run()
        except BaseException as e:  # noqa: BLE001
            import traceback

            self.error = "%r\n%s" % (e, traceback.format_exc())

    def _run(self):
        sc = dict(self.sc)
        rounds = 4
        sc["hang_after"] = 60.0
        env = dict(os.environ)
        env["PYTHONPATH"] = os.path.join(common.REPO, "src")
        env["PYTHONDONTWRITEBYTECODE"] = "1"
        p = subprocess.Popen([sys.executable, os.path.join(os.path.dirname(os.path.abspath(__file__)), "c05_scenario.py"), json.dumps(sc)],
                             stdin=subprocess.DEVNULL, stdout=subprocess.PIPE, stderr=subprocess.PIPE, env=env)
        pids = {}
        lines = []
        buf = b""
        ready_at = None
        deadline = time.time() + 90.0
        done = None
        seen = set()
        try:
            def feed(chunk):
                nonlocal buf, pids, ready_at, deadline, done
                buf += chunk
                while b"\n" in buf:
                    line, buf = buf.split(b"\n", 1)
                    obj = json.loads(line)
                    lines.append(obj)
                    if obj.get("phase") == "ready":
                        pids = {k: int(v) for k, v in obj["pids"].items()}
                        ready_at = time.time()
                        # terminate must be back long before this
                        deadline = min(deadline, ready_at + rounds * 5 * float(sc.get("timeout", 1.0)) + 25.0)
                    elif obj.get("phase") == "done":
                        done = obj

            eof = False
            while time.time() < deadline and done is None and not eof:
                for k in descendants(p.pid):
                    seen.add(k)
                exited = p.poll() is not None
                r, _, _ = select.select([p.stdout], [], [], 0.0 if exited else 0.1)
                if r:
                    chunk = os.read(p.stdout.fileno(), 65536)
                    if chunk:
                        feed(chunk)
                    else:
                        eof = True
                elif exited:
                    eof = True
            if done is None:
                err = b""
                try:
                    p.kill()
                    # the workers (one of them may be SIGSTOPped) hold the scenario's stderr pipe open: end them first, and
                    # never wait for an end of that pipe without a limit
                    for k in list(seen) + list(pids.values()):
                        if proc_state(k) not in (None, "Z"):
                            kill_quietly(k)
                    t_lim = time.time() + 3.0
                    while time.time() < t_lim:
                        r, _, _ = select.select([p.stderr], [], [], 0.2)
                        if not r:
                            continue
                        chunk = os.read(p.stderr.fileno(), 65536)
                        if not chunk:
                            break
                        err += chunk
                except Exception:  # noqa: BLE001
                    pass
                if ready_at is None:
                    raise common.ToolFailure("C05 scenario did not get ready (rc=%r, lines=%r): %s\n%s" % (p.poll(), lines, json.dumps(sc), err.decode("utf-8", "replace")[-1500:]))
                return dict(hang=True, pids=pids, stderr=err.decode("utf-8", "replace")[-800:])
            # give the very last reaping a moment, then look at every process this scenario ever had
            time.sleep(0.05)
            alive = {}
            for name, pid in pids.items():
                st = proc_state(pid)
                if st is not None and st != "Z":
                    alive[name] = pid
            extra_alive = [k for k in seen if k not in pids.values() and proc_state(k) not in (None, "Z") and k != p.pid]
            done["alive"] = alive
            done["extra_alive"] = [k for k in extra_alive if k in descendants_all_alive(k)]
            return done
        finally:
            for k in list(seen) + list(pids.values()):
                if proc_state(k) not in (None, "Z"):
                    kill_quietly(k)
            if p.poll() is None:
                p.kill()
            p.wait()
            for k in list(seen) + list(pids.values()):
                reap(k)
            p.stdout.close()
            p.stderr.close()


def descendants_all_alive(pid):
    return [pid] if proc_state(pid) not in (None, "Z") else []


def via_of(m):
    for part in m["spec"].split("//"):
        if part.startswith("via="):
            return part[4:]
    return None


def blocked_forwarders(sc):
    """forwarders whose receiver thread gets stuck in `sub_io.wait()`: a proxied member whose process outlives its
    connection (program 'threads') — RIO_WAIT is served on the forwarder's receiver thread"""
    return {via_of(m) for m in sc["members"] if via_of(m) and m["program"] == "threads"}


def behind_blocked(sc, name):
    byid = {m["id"]: m for m in sc["members"]}
    blocked = blocked_forwarders(sc)
    cur, hops = name, 0
    while cur in byid and hops < 10:
        v = via_of(byid[cur])
        if v is None:
            return False
        if v in blocked:
            return True
        cur, hops = v, hops + 1
    return False


def classify(sc, r, what=None):
    """specific known shapes"""
    if sc["kind"] == "failed-make":
        # D12: asking for a live id fails only after the child exists; the child survives
        if sc.get("taken") and r.get("raised") is not None and len(r.get("extra", [])) >= 1 and r.get("members") == 1:
            return "C05-D12-makegateway-taken-id-orphan"
        return None
    if what == "left-behind" and r.get("alive") and not r.get("extra_alive") and all(behind_blocked(sc, n) for n in r["alive"]):
        return "C05-proxied-wait-blocks-forwarder-receiver"
    return None


def check_scenarios(ctx, res, scenarios, origin, parallel=12):
    """The oracles of the process-level scenarios are wall-clock bounds: an alarm of the parallel batch is confirmed by
    running that scenario again with one neighbour at most before it is reported (a real defect shows again, a bound missed
    on a busy machine does not)."""
    first = common.Result()
    _check_scenarios(ctx, first, scenarios, origin, parallel)
    alarms = [v for v in first.violations + first.mismatches if v.get("finding") is None and isinstance(v.get("case"), dict) and "scenario" in v["case"]]
    if alarms and origin != "replay" and len(scenarios) > 2:
        again_sc = []
        for v in alarms:
            if v["case"]["scenario"] not in again_sc:
                again_sc.append(v["case"]["scenario"])
        again_sc = again_sc[:6]
        rerun = [json.dumps(sc, sort_keys=True) for sc in again_sc]
        again = common.Result()
        _check_scenarios(ctx, again, again_sc, origin + "-confirm", parallel=2)
        bad_again = {json.dumps(v["case"]["scenario"], sort_keys=True) for v in again.violations + again.mismatches
                     if isinstance(v.get("case"), dict) and "scenario" in v["case"]}

        def keep(v):
            if v.get("finding") is not None or not isinstance(v.get("case"), dict) or "scenario" not in v["case"]:
                return True
            k = json.dumps(v["case"]["scenario"], sort_keys=True)
            return k not in rerun or k in bad_again
        dropped = sum(1 for v in first.violations + first.mismatches if not keep(v))
        first.violations = [v for v in first.violations if keep(v)]
        first.mismatches = [v for v in first.mismatches if keep(v)]
        first.stat("process_alarms_of_the_parallel_batch_not_confirmed_alone", dropped)
        first.evaluations += again.evaluations
    common.merge_results(res, first)


def _check_scenarios(ctx, res, scenarios, origin, parallel=12):
    become_subreaper()
    runs = [ScenarioRun(sc, i) for i, sc in enumerate(scenarios)]
    pending = list(runs)
    running = []
    while pending or running:
        while pending and len(running) < parallel:
            r = pending.pop(0)
            r.start()
            running.append(r)
        for r in list(running):
            r.join(0.05)
            if not r.is_alive():
                running.remove(r)
    models = ctx.driver.ask([scenario_model_line(sc) if sc["kind"] == "terminate" else
                             concurrent_model_line(sc) if sc["kind"] == "concurrent-make" else "make.run pinned taken none" for sc in scenarios])
    for run_, model in zip(runs, models):
        sc = run_.sc
        key = dict(scenario=sc, kind="process", origin=origin)
        if run_.error is not None:
            raise common.ToolFailure("C05 scenario failed to run: %s\n%s" % (json.dumps(sc), run_.error))
        r = run_.result
        res.count(("process", json.dumps(sc, sort_keys=True)), nontrivial=True)
        if sc["kind"] == "concurrent-make":
            res.stat("concurrent_make")
            res.stat("concurrent_make_calls_%d" % sum(1 for o in sc["ops"] if o[0] == "b"))
            if r.get("hang"):
                res.violations.append(dict(case=key, what="overlapping makegateway calls: scenario hangs", impl=r, finding=None))
                continue
            for o in r["outs"]:
                res.stat("concurrent_make_out_" + o.rstrip("0123456789").split(":")[0])
            # model-free: no process unknown to the group, distinct member ids, nothing reserved once every call is back,
            # nothing alive after terminate
            if r["norphans"]:
                res.violations.append(dict(case=key, what="%d worker process(es) created by makegateway are unknown to the group (not a member's process) "
                                           "after all calls returned; outcomes %s" % (r["norphans"], r["outs"]), impl=r, finding=None))
            if len(set(r["members"])) != len(r["members"]):
                res.violations.append(dict(case=key, what="two members share an id: %r" % (r["members"],), impl=r, finding=None))
            if r["reserved"]:
                res.violations.append(dict(case=key, what="ids still reserved although no makegateway call is in flight: %r" % (r["reserved"],), impl=r, finding=None))
            if r["after_terminate"] or r.get("extra_alive"):
                res.violations.append(dict(case=key, what="processes alive after terminate: %r %r" % (r["after_terminate"], r.get("extra_alive")), impl=r, finding=None))
            if any(o.startswith(("unexpected", "stuck")) for o in r["outs"]):
                res.violations.append(dict(case=key, what="a makegateway call ended unexpectedly: %r" % (r["outs"],), impl=r, finding=None))
            obs = "%s | members=%s reserved=%s procs=%s orphans=%s inflight=0" % (
                " ".join(r["outs"]), ",".join(m[2:] for m in r["members"]) or "-", ",".join(x[2:] for x in r["reserved"]) or "-",
                "?", "-" if not r["norphans"] else "n%d" % r["norphans"])
            import re as _re
            want = _re.sub(r"procs=\S+", "procs=?", model)
            want = _re.sub(r"orphans=(\S+)", lambda m: "orphans=" + ("-" if m.group(1) == "-" else "n%d" % len(m.group(1).split(","))), want)
            if obs != want:
                res.mismatches.append(dict(op="mkc.run", case=key, impl=obs, model=want))
            else:
                res.traces += 1
            continue
        if sc["kind"] == "failed-make":
            res.stat("failed_make")
            order = "raised=%s extra=%d" % (r.get("raised"), len(r.get("extra", [])))
            res.stat("failed_make_" + ("no-process" if not r.get("extra") else "orphan"))
            if r.get("hang"):
                res.violations.append(dict(case=key, what="failed-makegateway scenario hangs", impl=r, finding=None))
            elif r.get("raised") is None:
                res.violations.append(dict(case=key, what="makegateway(%r) with the id taken did not raise" % sc["spec"], impl=r, finding=None))
            elif r.get("extra"):
                res.violations.append(dict(case=key, what="makegateway(%r) raised %s but left %d new process(es) behind (%d still there after terminate)"
                                           % (sc["spec"], r["raised"], len(r["extra"]), len(r.get("extra_after_terminate", []))), impl=r, finding=classify(sc, r)))
            else:
                res.traces += 1
            # which step order does the implementation show?  (pinned: check after spawn; repaired: before)
            want_pinned, want_fixed = ctx.driver.ask(["make.run pinned taken none", "make.run checkfirst taken none"])
            obs = "err=%s dprocs=%d dids=%d" % ("idTaken" if r.get("raised") else "-", len(r.get("extra", [])), (r.get("members", 1) - 1))
            if obs == want_pinned:
                res.stat("make_order_pinned")
            elif obs == want_fixed:
                res.stat("make_order_checkfirst")
            else:
                res.mismatches.append(dict(op="make.run", case=key, impl=obs, model=want_pinned + " | " + want_fixed))
            continue
        res.stat("process_n%d" % len(sc["members"]))
        res.stat("timeout_%s" % sc["timeout"])
        res.stat("execmodel_%s/%s" % (sc.get("execmodel"), sc.get("remote_execmodel", "-")))
        for m in sc["members"]:
            res.stat("program_" + m["program"])
            res.stat("transport_" + m["spec"].split("//")[0].split("=")[0] + ("-via" if "//via=" in m["spec"] else ""))
        T = sc["timeout"]
        if r.get("hang"):
            res.violations.append(dict(case=key, what="terminate(timeout=%s) did not return within the hang limit" % T, impl=r, finding=None))
            continue
        f = dict(kv.split("=", 1) for kv in model.split(" ")) if model.startswith("elapsed=") else None
        rounds = int(f["rounds"]) if f else 3
        pred = int(f["elapsed"]) / 10.0 if f and f["elapsed"] != "never" else None
        # bound: per round the time-out, plus the bounded waits (2T each, one per kill that cannot return, plus the
        # final waitall) for socket members (kill is a no-op) and members behind a forwarder whose receiver is stuck
        nsock = sum(1 for m in sc["members"] if m["spec"].startswith("socket"))
        nblk = sum(1 for m in sc["members"] if via_of(m) in blocked_forwarders(sc))
        bound = rounds * T + (nsock * 2 + (nblk + 1 if nblk else 0)) * 2 * T + 2.0 * rounds + 2.0
        if nblk:
            pred = None
        if r["error"]:
            res.violations.append(dict(case=key, what="terminate raised " + r["error"], impl=r, finding=None))
        elif r["elapsed"] > bound:
            res.violations.append(dict(case=key, what="terminate(timeout=%s) took %.2f s, bound %.2f s (%d rounds)" % (T, r["elapsed"], bound, rounds), impl=r, finding=None))
        elif r["len"] != 0 or r["tojoin"] != 0:
            res.violations.append(dict(case=key, what="group not empty after terminate: len=%d, to join=%d" % (r["len"], r["tojoin"]), impl=r, finding=None))
        elif not T and not r["extra_alive"] and all("//via=" in mm["spec"] for mm in sc["members"] if mm["id"] in r["alive"]):
            # terminate(timeout=0) waits for nothing: the kill requests of proxied members travel through their
            # via-gateway while that one is being killed as well — whether they arrive is a race the statement ("within a
            # small multiple of the timeout") does not decide at T = 0.  Judged at T = 0: return, emptiness, the group's
            # own children.
            res.traces += 1
            res.stat("timeout0_proxied_member_survived_kill_race")
        elif r["alive"] or r["extra_alive"]:
            res.violations.append(dict(case=key, what="processes left behind by terminate: %r %r (killed by the harness)" % (r["alive"], r["extra_alive"]), impl=r,
                                       finding=classify(sc, r, "left-behind")))
        else:
            res.traces += 1
            if pred is not None and not (pred - 0.35 <= r["elapsed"] <= pred + 2.0 * rounds + 2.0):
                res.mismatches.append(dict(op="term.run(process)", case=key, impl="elapsed %.2f s" % r["elapsed"], model=model, line=scenario_model_line(sc)))
        res.sample(dict(scenario=sc, elapsed=round(r.get("elapsed", -1), 2)))


def run(ctx):
    res = common.Result()
    res.rule = ("virtual: group size 1-8 x via forest x remote class (exits after d / stuck) x kill class (effective / no-op / never "
                "returns) x members exit()ed beforehand x time-out x kill cost x scheduler seed, real Group.terminate + safe_terminate "
                "under the deterministic scheduler; process: popen / via / via-chain / socket topologies x 9 remote programs x "
                "time-outs {0.2, 0.5, 1.0} x execmodels; plus makegateway with a live id; plus overlapping makegateway calls (2-6 calls, explicit / "
                "automatic ids, injected start-up faults, every interleaving of reserve and finish steps generated) against the concurrent model; "
                "distinct = distinct case; non-trivial = "
                "more than one member or a stuck / pre-exited member")
    res.assumptions = ["SIGKILL kills and wait() then returns; the wall-clock meaning of a tick: OS facts, sampled by the process-level runs only"]
    check_virtual(ctx, res, VIRTUAL_CORPUS, "corpus")
    rng = ctx.rng("virtual")
    n = ctx.budget(1500, 20000, 6000)
    check_virtual(ctx, res, [gen_virtual_case(rng, i) for i in range(n)], "gen")
    if res.violations:
        return res
    scenarios = gen_scenarios(ctx, ctx.rng("process"))
    scenarios.append(dict(kind="failed-make", spec="popen//id=x", taken=True))
    # an id that can never be registered (empty): refused before anything is started (D31)
    scenarios.append(dict(kind="failed-make", spec="popen//id=", taken=False))
    scenarios += gen_concurrent_make(ctx.rng("concurrent-make"), ctx.budget(12, 300, 60))
    check_scenarios(ctx, res, scenarios, "gen")
    return res


def search(ctx, prev):
    return run(ctx)


def replay(ctx, payload):
    res = common.Result()
    case = dict(payload["case"])
    kind = case.pop("kind", "virtual")
    case.pop("origin", None)
    if kind == "virtual":
        check_virtual(ctx, res, [case], "replay")
    else:
        check_scenarios(ctx, res, [case["scenario"]], "replay")
    return res
