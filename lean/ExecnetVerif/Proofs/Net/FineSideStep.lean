/-
The put-back `pb` commutes with every one-sided operation (`sideStep`) that respects the hand.
-/
import ExecnetVerif.Proofs.Net.FineStep
namespace ExecnetVerif.Net.Fine
open ExecnetVerif.Net
set_option linter.unusedSimpArgs false

@[simp] theorem pb_chans_alive (x : SideSt) (id k : Nat) : ((pb x id).chans k).alive = (x.chans k).alive := by
  rw [pb_chans_apply]; split <;> rfl
@[simp] theorem pb_chans_created (x : SideSt) (id k : Nat) : ((pb x id).chans k).created = (x.chans k).created := by
  rw [pb_chans_apply]; split <;> rfl
@[simp] theorem pb_chans_registered (x : SideSt) (id k : Nat) :
    ((pb x id).chans k).registered = (x.chans k).registered := by
  rw [pb_chans_apply]; split <;> rfl
@[simp] theorem pb_chans_closed (x : SideSt) (id k : Nat) : ((pb x id).chans k).closed = (x.chans k).closed := by
  rw [pb_chans_apply]; split <;> rfl
@[simp] theorem pb_chans_rclosed (x : SideSt) (id k : Nat) : ((pb x id).chans k).rclosed = (x.chans k).rclosed := by
  rw [pb_chans_apply]; split <;> rfl
@[simp] theorem pb_chans_rerrs (x : SideSt) (id k : Nat) : ((pb x id).chans k).rerrs = (x.chans k).rerrs := by
  rw [pb_chans_apply]; split <;> rfl
@[simp] theorem pb_chans_executing (x : SideSt) (id k : Nat) :
    ((pb x id).chans k).executing = (x.chans k).executing := by
  rw [pb_chans_apply]; split <;> rfl
@[simp] theorem pb_chans_queue_isNone (x : SideSt) (id k : Nat) :
    ((pb x id).chans k).queue.isNone = (x.chans k).queue.isNone := by
  rw [pb_chans_apply]; split
  · simp only [pbChan_queue, pushEnd]; cases (x.chans k).queue <;> rfl
  · rfl

theorem pb_updF (x : SideSt) (id k : Nat) (F : Chan → Chan) (hF : ∀ c, F (pbChan c) = pbChan (F c)) :
    ({ pb x id with chans := upd (pb x id).chans k (F ((pb x id).chans k)) } : SideSt)
      = pb { x with chans := upd x.chans k (F (x.chans k)) } id := by
  apply SideSt.ext' <;> try rfl
  exact upd_pb_chans x.chans id k F hF

theorem pb_upd_ne (x : SideSt) {id k : Nat} (c : Chan) (h : k ≠ id) :
    ({ pb x id with chans := upd (pb x id).chans k c } : SideSt) = pb { x with chans := upd x.chans k c } id := by
  apply SideSt.ext' <;> try rfl
  simp only [pb_chans, upd_ne _ _ (Ne.symm h)]
  rw [upd_comm _ _ _ (Ne.symm h)]

/-- what a one-sided operation has to respect for the put-back at `id` to commute with it -/
def SideComm (x : SideSt) (id : Nat) : Op → Prop
  | .newchannel _ => id ≠ x.count
  | .remoteExec => id ≠ x.count
  | .receive _ k => k = id → (x.chans id).queue ≠ some []
  | .setcallback _ k _ => k ≠ id
  | _ => True

theorem sideStep_pb_newchannel (fails : Item → Bool) (x : SideSt) (id : Nat) (s : Side) (h : id ≠ x.count) :
    sideStep fails (pb x id) (.newchannel s) =
      ((sideStep fails x (.newchannel s)).1, pb (sideStep fails x (.newchannel s)).2 id) := by
  by_cases hf : x.finished = true
  · simp only [sideStep, pb_finished, pb_count, hf, if_true, Bool.false_eq_true, reduceIte]
  · simp only [sideStep, pb_finished, pb_count, hf, if_false, Bool.false_eq_true, reduceIte]
    rw [createAt_pb x (Ne.symm h)]; rfl

theorem sideStep_pb_remoteExec (fails : Item → Bool) (x : SideSt) (id : Nat) (h : id ≠ x.count) :
    sideStep fails (pb x id) .remoteExec =
      ((sideStep fails x .remoteExec).1, pb (sideStep fails x .remoteExec).2 id) := by
  by_cases hf : x.finished = true
  · simp only [sideStep, pb_finished, pb_count, hf, if_true, Bool.false_eq_true, reduceIte]
  · by_cases hio : (!x.ioOpen) = true
    · simp only [sideStep, pb_finished, pb_count, pb_ioOpen, hf, hio, if_false, if_true, Bool.false_eq_true, reduceIte]; rfl
    · simp only [sideStep, pb_finished, pb_count, pb_ioOpen, pb_out, hf, hio, if_false, Bool.false_eq_true, reduceIte]
      rw [createAt_pb x (Ne.symm h)]; rfl

theorem sideStep_pb_send (fails : Item → Bool) (x : SideSt) (id : Nat) (s : Side) (k : Nat) (v : Item) :
    sideStep fails (pb x id) (.send s k v) =
      ((sideStep fails x (.send s k v)).1, pb (sideStep fails x (.send s k v)).2 id) := by
  simp only [sideStep, pb_chans_alive, pb_chans_closed, pb_ioOpen]
  by_cases h1 : (!(x.chans k).alive || !v.chans.all fun k => (x.chans k).alive) = true
  · simp only [h1, if_true, Bool.false_eq_true, reduceIte]
  · by_cases h2 : (x.chans k).closed = true
    · simp only [h1, h2, if_true, if_false, Bool.false_eq_true, reduceIte]
    · by_cases h3 : (!x.ioOpen) = true
      · simp only [h1, h2, h3, if_true, if_false, Bool.false_eq_true, reduceIte]
      · simp only [h1, h2, h3, if_false, Bool.false_eq_true, reduceIte]; rfl

theorem sideStep_pb_close (fails : Item → Bool) (x : SideSt) (id : Nat) (s : Side) (k : Nat) (err : Option Nat) :
    sideStep fails (pb x id) (.close s k err) =
      ((sideStep fails x (.close s k err)).1, pb (sideStep fails x (.close s k err)).2 id) := by
  simp only [sideStep, pb_chans_alive]
  by_cases h1 : (!(x.chans k).alive) = true
  · simp only [h1, if_true, Bool.false_eq_true, reduceIte]
  · simp only [h1, if_false, Bool.false_eq_true, reduceIte]; exact chanClose_pb x id k err

theorem sideStep_pb_waitclose (fails : Item → Bool) (x : SideSt) (id : Nat) (s : Side) (k : Nat) :
    sideStep fails (pb x id) (.waitclose s k) =
      ((sideStep fails x (.waitclose s k)).1, pb (sideStep fails x (.waitclose s k)).2 id) := by
  simp only [sideStep, pb_chans_alive, pb_chans_rclosed, pb_chans_rerrs, pb_gwerr]
  by_cases h1 : (!(x.chans k).alive) = true
  · simp only [h1, if_true, Bool.false_eq_true, reduceIte]
  · by_cases h2 : (!(x.chans k).rclosed) = true
    · simp only [h1, h2, if_true, if_false, Bool.false_eq_true, reduceIte]
    · simp only [h1, h2, if_false, Bool.false_eq_true, reduceIte]
      cases hr : (x.chans k).rerrs with
      | nil =>
        simp only
        by_cases h3 : x.gwerr = true
        · simp only [h3, if_true, Bool.false_eq_true, reduceIte]
        · simp only [h3, if_false, Bool.false_eq_true, reduceIte]
      | cons e es =>
        have hF := pb_updF x id k (fun c => { c with rerrs := es }) (fun _ => rfl)
        simp only [pb_chans_alive, pb_chans_rclosed, pb_chans_rerrs, pb_gwerr] at hF
        simp only [Prod.mk.injEq, true_and]
        exact hF

theorem sideStep_pb_drop (fails : Item → Bool) (x : SideSt) (id : Nat) (s : Side) (k : Nat) :
    sideStep fails (pb x id) (.drop s k) =
      ((sideStep fails x (.drop s k)).1, pb (sideStep fails x (.drop s k)).2 id) := by
  have hF := pb_updF x id k (fun c => { c with alive := false, registered := false }) (fun _ => rfl)
  simp only [sideStep, pb_chans_alive, pb_chans_executing, pb_chans_closed, pb_ioOpen, pb_chans_rclosed,
    pb_chans_queue_isNone, pb_out, pb_closeSent] at hF ⊢
  by_cases h1 : (!(x.chans k).alive || (x.chans k).executing) = true
  · simp only [h1, if_true, Bool.false_eq_true, reduceIte]
  · by_cases h2 : ((x.chans k).closed || !x.ioOpen) = true
    · simp only [h1, h2, if_true, if_false, Bool.false_eq_true, reduceIte, Prod.mk.injEq, true_and]; exact hF
    · simp only [h1, h2, if_false, Bool.false_eq_true, reduceIte, Prod.mk.injEq, true_and]
      apply SideSt.ext' <;> try rfl
      have hc := congrArg SideSt.chans hF
      exact hc

theorem sideStep_pb_isclosed (fails : Item → Bool) (x : SideSt) (id : Nat) (s : Side) (k : Nat) :
    sideStep fails (pb x id) (.isclosed s k) =
      ((sideStep fails x (.isclosed s k)).1, pb (sideStep fails x (.isclosed s k)).2 id) := by
  simp only [sideStep, pb_chans_alive, pb_chans_closed]
  by_cases h1 : (!(x.chans k).alive) = true
  · simp only [h1, if_true, Bool.false_eq_true, reduceIte]
  · simp only [h1, if_false, Bool.false_eq_true, reduceIte]

theorem sideStep_pb_execFinish (fails : Item → Bool) (x : SideSt) (id : Nat) (k : Nat) (o : Outcome) :
    sideStep fails (pb x id) (.execFinish k o) =
      ((sideStep fails x (.execFinish k o)).1, pb (sideStep fails x (.execFinish k o)).2 id) := by
  have hF := pb_updF x id k (fun c => { c with executing := false }) (fun _ => rfl)
  simp only [sideStep, pb_chans_executing, pb_finished] at hF ⊢
  by_cases h1 : (!(x.chans k).executing) = true
  · simp only [h1, if_true, Bool.false_eq_true, reduceIte]
  · simp only [h1, if_false, Bool.false_eq_true, reduceIte]
    rw [hF]; exact chanClose_pb _ id k _

end ExecnetVerif.Net.Fine
