/-
Invariant of `Model/SpawnFail.lean` for the guarded `start` and its preservation; the unguarded variant keeps a reply
nobody will ever finish.
-/
import ExecnetVerif.Model.SpawnFail
namespace ExecnetVerif.SpawnFail

structure Inv (p : P) : Prop where
  /-- `_running` counts accepted calls only -/
  counted : ∀ r, r ∈ p.running → r ∈ p.accepted
  /-- ... that have not come to their end -/
  unfinished : ∀ r, r ∈ p.running → r ∉ p.finished
  nodup : p.running.Nodup
  rbound : ∀ r, r ∈ p.running → r < p.next
  fbound : ∀ r, r ∈ p.finished → r < p.next

theorem inv_init : Inv init := by
  constructor <;> simp [init]

theorem inv_step {p : P} (h : Inv p) (op : Op) : Inv (step good p op).2 := by
  cases op with
  | spawn ok =>
    simp only [step]
    split
    · exact h
    · cases ok with
      | true =>
        simp only [if_true]
        constructor
        · intro r hr
          simp only [List.mem_cons] at hr ⊢
          rcases hr with rfl | hr
          · exact Or.inl rfl
          · exact Or.inr (h.counted r hr)
        · intro r hr
          simp only [List.mem_cons] at hr
          rcases hr with rfl | hr
          · intro hf; exact Nat.lt_irrefl _ (h.fbound _ hf)
          · exact h.unfinished r hr
        · refine List.nodup_cons.mpr ⟨?_, h.nodup⟩
          intro hm; exact Nat.lt_irrefl _ (h.rbound _ hm)
        · intro r hr
          simp only [List.mem_cons] at hr
          rcases hr with rfl | hr
          · exact Nat.lt_succ_self _
          · exact Nat.lt_succ_of_lt (h.rbound r hr)
        · intro r hr
          exact Nat.lt_succ_of_lt (h.fbound r hr)
      | false =>
        simp only [good, if_true, List.erase_cons_head]
        constructor
        · exact h.counted
        · exact h.unfinished
        · exact h.nodup
        · intro r hr; exact Nat.lt_succ_of_lt (h.rbound r hr)
        · intro r hr; exact Nat.lt_succ_of_lt (h.fbound r hr)
  | finish r =>
    simp only [step]
    split
    · rename_i hr
      constructor
      · intro r' hr'
        exact h.counted r' (List.mem_of_mem_erase hr')
      · intro r' hr' hf
        simp only [List.mem_cons] at hf
        rcases hf with rfl | hf
        · exact (List.Nodup.not_mem_erase h.nodup) hr'
        · exact h.unfinished r' (List.mem_of_mem_erase hr') hf
      · exact h.nodup.erase r
      · intro r' hr'; exact h.rbound r' (List.mem_of_mem_erase hr')
      · intro r' hf
        simp only [List.mem_cons] at hf
        rcases hf with rfl | hf
        · exact h.rbound _ hr.1
        · exact h.fbound r' hf
    · exact h
  | shutdown =>
    simp only [step]
    exact ⟨h.counted, h.unfinished, h.nodup, h.rbound, h.fbound⟩

theorem inv_run (p : P) (h : Inv p) (ops : List Op) : Inv (run good p ops).2 := by
  induction ops generalizing p with
  | nil => simpa [run] using h
  | cons op ops ih =>
    simp only [run]
    exact ih _ (inv_step h op)

/-- the unguarded `start`: a reply that is counted but was never accepted stays counted whatever happens next -/
theorem ghost_stays (p : P) (g : Nat) (hg : g ∈ p.running) (hn : g ∉ p.accepted) (hb : g < p.next) (ops : List Op) :
    g ∈ (run pinned p ops).2.running := by
  induction ops generalizing p with
  | nil => simpa [run] using hg
  | cons op ops ih =>
    simp only [run]
    apply ih
    · cases op with
      | spawn ok =>
        simp only [step]
        split
        · exact hg
        · cases ok <;> simp [pinned, hg]
      | finish r =>
        simp only [step]
        split
        · rename_i hr
          have hne : g ≠ r := by
            intro e; subst e; exact hn hr.2
          exact (List.mem_erase_of_ne hne).mpr hg
        · exact hg
      | shutdown => simpa [step] using hg
    · cases op with
      | spawn ok =>
        simp only [step]
        split
        · exact hn
        · cases ok
          · simpa [pinned] using hn
          · simp only [if_true, List.mem_cons, not_or]
            exact ⟨Nat.ne_of_lt hb, hn⟩
      | finish r =>
        simp only [step]
        split <;> exact hn
      | shutdown => simpa [step] using hn
    · cases op with
      | spawn ok =>
        simp only [step]
        split
        · exact hb
        · cases ok <;> simp [pinned] <;> omega
      | finish r =>
        simp only [step]
        split <;> exact hb
      | shutdown => simpa [step] using hb

end ExecnetVerif.SpawnFail
