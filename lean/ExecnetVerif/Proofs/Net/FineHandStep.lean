/-
`HandOK` of an in-hand channel is preserved by every coarse step that respects the hand (`Keep`).
-/
import ExecnetVerif.Proofs.Net.FineHand
namespace ExecnetVerif.Net.Fine
open ExecnetVerif.Net
set_option linter.unusedSimpArgs false

/-- what a one-sided operation has to respect for an in-hand channel `id` to stay `HandOK` -/
def SideKeep (x : SideSt) (id : Nat) : Op → Prop
  | .newchannel _ => id ≠ x.count
  | .remoteExec => id ≠ x.count
  | .setcallback _ k _ => k ≠ id
  | .drop _ k => k ≠ id
  | _ => True

theorem replicate_tail_append (m : Nat) :
    (List.replicate m QItem.endmarker) ++ [QItem.endmarker] = QItem.endmarker :: List.replicate m QItem.endmarker := by
  rw [← List.replicate_succ', List.replicate_succ]

theorem sideStep_handOK_receive (fails : Item → Bool) (x : SideSt) (id : Nat) (s : Side) (k : Nat)
    (h : HandOK (x.chans id)) : HandOK ((sideStep fails x (.receive s k)).2.chans id) := by
  by_cases hk : k = id
  · subst hk
    obtain ⟨ha, hr, m, hq⟩ := h
    cases m with
    | zero =>
      have : sideStep fails x (.receive s k) = (.wouldBlock, x) := by
        simp only [sideStep, ha, hq, List.replicate_zero, Bool.not_true, Bool.false_eq_true, if_false]
      rw [this]; exact ⟨ha, hr, 0, hq⟩
    | succ m =>
      rw [List.replicate_succ] at hq
      cases hrr : (x.chans k).rerrs with
      | nil =>
        have : (sideStep fails x (.receive s k)).2.chans k =
            { (x.chans k) with queue := some (List.replicate m QItem.endmarker ++ [QItem.endmarker]) } := by
          simp only [sideStep, ha, hq, hrr, Bool.not_true, Bool.false_eq_true, if_false, upd_same]
        rw [this]
        exact ⟨ha, hr, m + 1, by simp only [replicate_tail_append, List.replicate_succ]⟩
      | cons e es =>
        have : (sideStep fails x (.receive s k)).2.chans k =
            { (x.chans k) with
              queue := some (List.replicate m QItem.endmarker ++ [QItem.endmarker]), rerrs := es } := by
          simp only [sideStep, ha, hq, hrr, Bool.not_true, Bool.false_eq_true, if_false, upd_same]
        rw [this]
        exact ⟨ha, hr, m + 1, by simp only [replicate_tail_append, List.replicate_succ]⟩
  · have : (sideStep fails x (.receive s k)).2.chans id = x.chans id := by
      simp only [sideStep]
      (repeat' split) <;> first | rfl | exact upd_ne _ _ (Ne.symm hk)
    rw [this]; exact h

theorem sideStep_handOK_setcallback (fails : Item → Bool) (x : SideSt) (id : Nat) (s : Side) (k : Nat) (w : Bool)
    (hk : k ≠ id) (h : HandOK (x.chans id)) : HandOK ((sideStep fails x (.setcallback s k w)).2.chans id) := by
  have : (sideStep fails x (.setcallback s k w)).2.chans id = x.chans id := by
    simp only [sideStep]
    (repeat' split) <;> first | rfl | exact upd_ne _ _ (Ne.symm hk)
  rw [this]; exact h

theorem sideStep_handOK (fails : Item → Bool) (x : SideSt) (id : Nat) (op : Op) (hop : SideKeep x id op)
    (h : HandOK (x.chans id)) : HandOK ((sideStep fails x op).2.chans id) := by
  cases op with
  | newchannel s =>
    simp only [sideStep]; split
    · exact h
    · show HandOK ((createAt x x.count).chans id)
      rw [createAt_chans_ne x (Ne.symm hop)]; exact h
  | remoteExec =>
    simp only [sideStep]; split
    · exact h
    · split
      · exact h
      · show HandOK ((createAt x x.count).chans id)
        rw [createAt_chans_ne x (Ne.symm hop)]; exact h
  | send s k v => simp only [sideStep]; (repeat' split) <;> exact h
  | close s k err =>
    simp only [sideStep]; split
    · exact h
    · exact chanClose_handOK x id k err h
  | receive s k => exact sideStep_handOK_receive fails x id s k h
  | waitclose s k =>
    simp only [sideStep]
    (repeat' split) <;> try exact h
    show HandOK (upd x.chans k _ id)
    apply handOK_upd
    · intro e; subst e; exact h.of_eq rfl h.2.1 (Or.inl rfl)
    · intro _; exact h
  | setcallback s k w => exact sideStep_handOK_setcallback fails x id s k w hop h
  | drop s k =>
    have hk : k ≠ id := hop
    have : (sideStep fails x (.drop s k)).2.chans id = x.chans id := by
      simp only [sideStep]
      (repeat' split) <;> first | rfl | exact upd_ne _ _ (Ne.symm hk)
    rw [this]; exact h
  | isclosed s k => simp only [sideStep]; split <;> exact h
  | deliver p => exact h
  | execFinish k o =>
    simp only [sideStep]; split
    · exact h
    · apply chanClose_handOK
      show HandOK (upd x.chans k _ id)
      apply handOK_upd
      · intro e; subst e; exact h.of_eq rfl h.2.1 (Or.inl rfl)
      · intro _; exact h
  | cut p => exact h

/-- what a coarse operation has to respect for the in-hand channel `k` to stay `HandOK` -/
def Keep (st : State) (k : Side × Nat) : Op → Prop
  | .deliver p => p = k.1 → ∀ fr rest, (st.side p.peer).out = fr :: rest → frameAvoids k.2 fr
  | .cut _ => True
  | op => opSide op = k.1 → SideKeep (st.side k.1) k.2 op

theorem step_handOK_oneSided (fails : Item → Bool) (st : State) (s : Side) (id : Nat) (op : Op)
    (h1 : oneSided op = true) (hop : opSide op = s → SideKeep (st.side s) id op)
    (h : HandOK ((st.side s).chans id)) : HandOK (((step fails st op).2.side s).chans id) := by
  rw [step_eq_sideStep fails st op h1]
  simp only
  by_cases hs : opSide op = s
  · subst hs
    rw [side_set_self]
    exact sideStep_handOK fails _ id op (hop rfl) h
  · rw [side_set_ne _ _ (Ne.symm hs)]; exact h

theorem step_handOK_cut (fails : Item → Bool) (st : State) (k : Side × Nat) (p : Side)
    (h : HandOK ((st.side k.1).chans k.2)) : HandOK (((step fails st (.cut p)).2.side k.1).chans k.2) := by
  obtain ⟨s, id⟩ := k
  obtain ⟨a, b⟩ := st
  cases p <;> cases s <;> simp only [step_cut_A, step_cut_B] <;> split <;>
    first | exact h | exact epilogue_handOK _ id true h

theorem step_handOK_deliver (fails : Item → Bool) (st : State) (k : Side × Nat) (p : Side)
    (hop : Keep st k (.deliver p)) (h : HandOK ((st.side k.1).chans k.2)) :
    HandOK (((step fails st (.deliver p)).2.side k.1).chans k.2) := by
  obtain ⟨s, id⟩ := k
  obtain ⟨a, b⟩ := st
  cases p <;> cases s
  · have hfr := hop rfl
    simp only [step_deliver_A]
    split
    · exact h
    · cases hout : b.out with
      | nil => exact h
      | cons f rest =>
        simp only
        split <;> exact handle_handOK fails a false id f (hfr f rest hout) h
  · simp only [step_deliver_A]
    split
    · exact h
    · cases hout : b.out with
      | nil => exact h
      | cons f rest => simp only; split <;> exact h
  · simp only [step_deliver_B]
    split
    · exact h
    · cases hout : a.out with
      | nil => exact h
      | cons f rest => simp only; split <;> exact h
  · have hfr := hop rfl
    simp only [step_deliver_B]
    split
    · exact h
    · cases hout : a.out with
      | nil => exact h
      | cons f rest =>
        simp only
        split <;> exact handle_handOK fails b true id f (hfr f rest hout) h

theorem step_handOK (fails : Item → Bool) (st : State) (k : Side × Nat) (op : Op) (hop : Keep st k op)
    (h : HandOK ((st.side k.1).chans k.2)) : HandOK (((step fails st op).2.side k.1).chans k.2) := by
  cases op with
  | deliver p => exact step_handOK_deliver fails st k p hop h
  | cut p => exact step_handOK_cut fails st k p h
  | newchannel s => exact step_handOK_oneSided fails st k.1 k.2 _ rfl hop h
  | remoteExec => exact step_handOK_oneSided fails st k.1 k.2 _ rfl hop h
  | send s id v => exact step_handOK_oneSided fails st k.1 k.2 _ rfl hop h
  | close s id err => exact step_handOK_oneSided fails st k.1 k.2 _ rfl hop h
  | receive s id => exact step_handOK_oneSided fails st k.1 k.2 _ rfl hop h
  | waitclose s id => exact step_handOK_oneSided fails st k.1 k.2 _ rfl hop h
  | setcallback s id w => exact step_handOK_oneSided fails st k.1 k.2 _ rfl hop h
  | drop s id => exact step_handOK_oneSided fails st k.1 k.2 _ rfl hop h
  | isclosed s id => exact step_handOK_oneSided fails st k.1 k.2 _ rfl hop h
  | execFinish id o => exact step_handOK_oneSided fails st k.1 k.2 _ rfl hop h

end ExecnetVerif.Net.Fine
