/-
The inductive invariant of the thread-level WorkerPool model (`Model/Pool.lean`, fixed protocol) and its
preservation by every step.  Used by `Props/C09.lean`.
-/
import ExecnetVerif.Model.Pool
namespace ExecnetVerif.Pool

/-- the task is in `_running` -/
def live : TPhase → Bool
  | .pending | .inMbox | .inHand | .created | .body | .ended | .resReady | .removing => true
  | _ => false

/-- the body has begun -/
def begun : TPhase → Bool
  | .body | .ended | .resReady | .removing | .done => true
  | _ => false

/-- phases in which the primary thread is inside `_perform_spawn` for the task -/
def primExec : TPhase → Bool
  | .inHand | .body | .ended | .resReady | .removing => true
  | _ => false

/-- client-thread states that hold `_running_lock` -/
def holdsLock : UPhase → Bool
  | .spawnHold _ | .spawnWait _ _ | .spawnRel _ | .shutHold | .waHold _ => true
  | _ => false

/-- client-thread states inside `waitall` after the lock was taken -/
def inWa : UPhase → Bool
  | .waHold _ | .waWait _ | .waRet _ => true
  | _ => false

structure Inv (c : Config) (s : State) : Prop where
  -- ghost lists vs phases
  acc : ∀ t, t ∈ s.accepted ↔ s.phase t ≠ .unused
  run : ∀ t, t ∈ s.running ↔ live (s.phase t) = true
  runND : s.running.Nodup
  sta : ∀ t, t ∈ s.started ↔ begun (s.phase t) = true
  staND : s.started.Nodup
  fin : ∀ t, t ∈ s.finished ↔ bodyEnded (s.phase t) = true
  -- the lock
  lockU : ∀ i, s.lock = some (.user i) ↔ holdsLock (s.us i) = true
  lockW : ∀ t, s.lock = some (.worker t) ↔ (s.phase t = .removing ∧ s.prim t = false)
  lockP1 : ∀ t, s.pp = .chk t → s.lock = some .primary
  lockP2 : ∀ t, s.pp = .run t → s.phase t = .removing → s.lock = some .primary
  lockP3 : s.lock = some .primary → s.pp ≠ .waitReady ∧ s.pp ≠ .readMbox ∧ s.pp ≠ .left ∧ s.pp ≠ .gone ∧
    ∀ t, s.pp ≠ .chkAcq t ∧ (s.pp = .run t → s.phase t = .removing)
  -- executors
  primRun : ∀ t, s.pp = .run t ↔ (s.prim t = true ∧ primExec (s.phase t) = true)
  primChk : ∀ t, (s.pp = .chkAcq t ∨ s.pp = .chk t) → s.phase t = .done
  primOf : ∀ t, (s.phase t = .pending ∨ s.phase t = .inMbox ∨ s.phase t = .inHand) → s.prim t = true
  workOf : ∀ t, s.phase t = .created → s.prim t = false
  -- mailbox
  noPrim : c.primary = false → s.pp = .gone ∧ s.ready = false
  mbAcc : ∀ t, s.mbox = some t → s.phase t ≠ .unused
  inMb : ∀ t, s.phase t = .inMbox → s.mbox = some t ∧ s.ready = true
  rdFresh : (s.pp = .readMbox ∨ s.pp = .waitReady) → s.ready = true → ∀ t, s.mbox = some t → s.phase t = .inMbox
  rdReady : s.pp = .readMbox → s.ready = true
  busy : ∀ t, (s.pp = .run t ∨ s.pp = .chkAcq t ∨ s.pp = .chk t) →
    s.ready = true ∧ s.mbox ≠ none ∧ ∀ u, s.mbox = some u → u ≠ t → s.phase u = .inMbox
  notReady : s.ready = false → c.primary = true → s.pp = .waitReady ∧ s.shut = false
  mbNone : s.mbox = none → s.ready = true → s.shut = true
  leftInv : (s.pp = .left ∨ s.pp = .gone) →
    (∀ t, s.phase t ≠ .inMbox ∧ s.phase t ≠ .pending) ∧ (c.primary = true → s.shut = true ∧ s.ready = true)
  -- the spawner blocked in `waitfinish()` while holding the lock (main_thread_only)
  swait : ∀ i t m, s.us i = .spawnWait t m → s.phase t = .pending ∧ s.mbox = some m ∧ s.ready = true ∧ m ≠ t
  pend : ∀ t, s.phase t = .pending → ∃ i m, s.us i = .spawnWait t m
  swaitC : ∀ i t m, s.us i = .spawnWait t m → c.primary = true ∧ c.mto = true
  shold : ∀ i t, s.us i = .spawnHold t → s.phase t = .unused
  getR : ∀ i t, s.us i = .getRet t true → bodyEnded (s.phase t) = true
  -- waitall callers
  wlost : ∀ i b, s.us i = .waWait b → s.wev i = false → s.wreg i = true ∧ s.running ≠ []
  wsn : ∀ i, inWa (s.us i) = true → ∀ t, t ∈ s.wsnap i → s.phase t ≠ .unused
  wtrueW : ∀ i b, s.us i = .waWait b → s.wev i = true → ∀ t, t ∈ s.wsnap i → s.phase t = .done
  wtrueR : ∀ i, s.us i = .waRet true → ∀ t, t ∈ s.wsnap i → s.phase t = .done
  wsh : ∀ i, inWa (s.us i) = true → s.wshut i = true → s.shut = true ∧ ∀ t, s.phase t ≠ .unused → t ∈ s.wsnap i
  -- the gateway's submission protocol
  gateH : c.gated = true → ∀ i t, s.us i = .spawnHold t → ∀ u, s.phase u ≠ .unused → bodyEnded (s.phase u) = true
  gateW : c.gated = true → ∀ i t m, s.us i = .spawnWait t m → bodyEnded (s.phase m) = true

theorem inv_init (c : Config) : Inv c (init c) := by
  constructor <;> simp [init, live, begun, bodyEnded, holdsLock, primExec, inWa]
  all_goals (cases c.primary <;> simp)

@[grind =] theorem upd_apply {α β : Type} [DecidableEq α] (f : α → β) (k : α) (v : β) (u : α) :
    upd f k v u = if u = k then v else f u := rfl

theorem gateOk_spec {c : Config} {s : State} (h : gateOk c s = true) (hg : c.gated = true) :
    ∀ u, u ∈ s.accepted → bodyEnded (s.phase u) = true := by
  simp [gateOk, hg, List.all_eq_true] at h
  exact h

@[grind =] theorem canExec_iff (s : State) (a : Agent) (t : TaskId) :
    (canExec s a t = true) = ((a = .worker t ∧ s.prim t = false) ∨ (a = .primary ∧ s.pp = .run t)) := by
  cases a <;> simp [canExec]

theorem not_live {p : TPhase} (h : live p = false) : p = .unused ∨ p = .done := by
  cases p <;> simp_all [live]

set_option hygiene false in
/-- closes one clause of the invariant after a step (the clauses of the pre-state are in the context) -/
macro "inv_close" : tactic => `(tactic| first
  | assumption
  | grind [holdsLock, inWa, live, begun, bodyEnded, primExec, resultReady]
  | grind (splits := 30) [holdsLock, inWa, live, begun, bodyEnded, primExec, resultReady]
  | (intro t ht
     by_cases hp : s.phase t = .pending
     · obtain ⟨j, m, hj⟩ := pend t hp
       refine ⟨j, m, ?_⟩
       grind
     · exfalso
       grind))

set_option hygiene false in
macro "inv_open" h:ident : tactic => `(tactic|
  obtain ⟨acc, run, runND, sta, staND, fin, lockU, lockW, lockP1, lockP2, lockP3, primRun, primChk, primOf, workOf, noPrim, mbAcc, inMb, rdFresh, rdReady, busy, notReady, mbNone, leftInv, swait, pend, swaitC, shold, getR, wlost, wsn, wtrueW, wtrueR, wsh, gateH, gateW⟩ := $h)

/-- splits the step function, and for every enabled branch proves all clauses it can; the rest stay as goals -/
macro "inv_step" hs:ident : tactic => `(tactic| (
  repeat' split at $hs:ident
  all_goals (first | (cases $hs:ident; done) | (cases $hs:ident; constructor <;> dsimp only [] <;> try inv_close))))

end ExecnetVerif.Pool
