/-
Driver commands of the terminate / makegateway models (C05).  Not part of any theorem.

  term.run <T|-> <c> (m|j) <id> <via|-> <e<d>|stuck> <eff|noop|blocks> …     m = registered member, j = exited, not yet joined
      → `elapsed=<n|never> rounds=<k> exits=<ids;ids;…> kills=<sorted ids;…> reaped=<sorted ids;…> per=<e;e;…> final=<nmembers>/<ntojoin>`
  make.run <pinned|checkfirst> <taken|free|auto|autotaken> <none|spawn|bootstrap>  → `err=<e|-> dprocs=<n> dids=<n>`
-/
import ExecnetVerif.Model.Terminate
import ExecnetVerif.Model.MakeGateway
namespace ExecnetVerif
open Terminate

def parseRemote (s : String) : Option RemoteClass :=
  if s == "stuck" then some .stuck
  else if s.startsWith "e" then (s.drop 1).toNat?.map .exitsAfter
  else none

def parseKill : String → Option KillClass
  | "eff" => some .effective
  | "noop" => some .noop
  | "blocks" => some .blocks
  | _ => none

def parseVia (s : String) : Option (Option Nat) :=
  if s == "-" then some none else s.toNat?.map some

partial def parseMembers : List String → Group → Option Group
  | [], g => some g
  | k :: id :: via :: rem :: kl :: restToks, g =>
    match id.toNat?, parseVia via, parseRemote rem, parseKill kl with
    | some i, some v, some r, some kc =>
      let m : Member := ⟨i, v, r, kc⟩
      if k == "m" then parseMembers restToks { g with members := g.members ++ [m] }
      else if k == "j" then parseMembers restToks { g with toJoin := g.toJoin ++ [m] }
      else none
    | _, _, _, _ => none
  | _, _ => none

def insertSorted (x : Nat) : List Nat → List Nat
  | [] => [x]
  | y :: ys => if x ≤ y then x :: y :: ys else y :: insertSorted x ys

def sortNat (l : List Nat) : List Nat := l.foldr insertSorted []

def renderIds (l : List Nat) : String := ",".intercalate (l.map toString)

def renderOptN : Option Nat → String
  | some n => toString n
  | none => "never"

def termHandle : List String → Option String
  | "term.run" :: T :: c :: toks =>
    let Topt : Option (Option Nat) := if T == "-" then some none else T.toNat?.map some
    match Topt, c.toNat?, parseMembers toks ⟨[], []⟩ with
    | some T, some c, some g =>
      let r := terminate T c g
      let per (f : RoundRec → String) := ";".intercalate (r.rounds.map f)
      some (s!"elapsed={renderOptN r.clock} rounds={r.rounds.length} " ++
        s!"exits={per (fun rr => renderIds (rr.exited.map (·.id)))} " ++
        s!"kills={per (fun rr => renderIds (sortNat rr.killed))} " ++
        s!"reaped={per (fun rr => renderIds (sortNat rr.reaped))} " ++
        s!"per={per (fun rr => renderOptN rr.elapsed)} " ++
        s!"final={r.g.members.length}/{r.g.toJoin.length}")
    | _, _, _ => some "bad-op"
  | ["make.run", order, idc, fault] =>
    let o : Option MakeGateway.Order := match order with
      | "pinned" => some .pinned | "checkfirst" => some .checkFirst | _ => none
    let f : Option MakeGateway.Fault := match fault with
      | "none" => some .none | "spawn" => some .spawn | "bootstrap" => some .bootstrap | _ => none
    -- world: members 7 (explicit) and 3; the auto counter stands at 5 (free) or 3 (taken)
    let wr : Option (MakeGateway.World × Option Nat) := match idc with
      | "taken" => some (⟨[7, 3], [100], 5, 101⟩, some 7)
      | "free" => some (⟨[7, 3], [100], 5, 101⟩, some 8)
      | "auto" => some (⟨[7, 3], [100], 5, 101⟩, none)
      | "autotaken" => some (⟨[7, 3], [100], 3, 101⟩, none)
      | _ => none
    match o, f, wr with
    | some o, some f, some (w, req) =>
      let (e, w') := MakeGateway.makegateway o w req f
      let es := match e with
        | some .idTaken => "idTaken" | some .spawnFailed => "spawnFailed"
        | some .bootstrapFailed => "bootstrapFailed" | none => "-"
      some s!"err={es} dprocs={w'.procs.length - w.procs.length} dids={w'.ids.length - w.ids.length}"
    | _, _, _ => some "bad-op"
  | _ => none

end ExecnetVerif
