"""C15 — bootstrapping needs nothing installed on the other side (DESIGN.md §4 C15).

Three families of cases:
 (a) *translator cross-check*: every shipped text is executed in a child `python -S -E` (no site-packages, so
     nothing of execnet is importable) under an import hook that records the imports the text itself issues
     and refuses non-stdlib ones; recorded imports / resulting namespace / the compiler's view of the text
     (IMPORT_NAME instructions of all nested code objects, global reads of the bytecode) must agree with the
     generated tables the theorems of Props/C15.lean are stated over.  A shipped text that raises
     ImportError/NameError there is an oracle violation (it is the real text on a real interpreter).
 (b) *model correspondence*: the closure check of Model/Bootstrap.lean (driver `boot.closed`) against reality on
     mutants of the shipped texts (verdict `closed` <=> the mutant executes in the stdlib-only child), and
     `boot.kind` / `boot.io` against the real `gateway_bootstrap.bootstrap` / `Group.makegateway` for all 64
     truthiness combinations of the spec attributes.
 (c) *dynamic oracle*: workers bootstrapped from source alone (`python=… -S -E`, `via=`, stand-alone
     `socketserver.py`, `installvia`) must come up, must not be able to import execnet, and must produce the same
     transcripts as an import-bootstrapped worker on generated channel programs.
"""
from __future__ import annotations

import hashlib
import importlib.util
import json
import os
import shutil
import signal
import socket
import subprocess
import sys
import time

from . import common, pyval

sys.path.insert(0, os.path.join(common.VERIF, "translator"))
import extract_shipped  # noqa: E402

PY312 = "/venv/bin/python"
PY311 = shutil.which("python3-vt")
CHILD = os.path.join(os.path.dirname(os.path.abspath(__file__)), "c15_child.py")
RECV_TIMEOUT = 20.0

FINDING_VIA_SOCKET = "C15-via-master-socket-standalone"


# ---------------------------------------------------------------------------------------
# (a) translator cross-check by execution
# ---------------------------------------------------------------------------------------
def _runnable(u):
    o = u["origin"]
    return o.startswith("inspect.getsource(") or " remote_exec(" in o or o == "python socketserver.py"


def child_job(a, only_units=None, extra_sequences=()):
    seqs = []
    order = sorted(a["sequences"], key=lambda q: 0 if q["name"] == "exec" else 1)  # `__main__` of a pipe worker first
    byname = {u["name"]: u for u in a["units"]}
    for q in order:
        if q["name"] == "import":
            continue
        units = []
        for nm in q["units"]:
            u = byname[nm]
            run = _runnable(u) and bool(u["text"]) and (only_units is None or nm in only_units or q["name"] == "exec")
            units.append(dict(name=nm, text=u["text"], pruned=u["pruned"], future=u["deferredAnnotations"], run=run,
                              call=(nm.split(".")[-1] if u.get("calledWith") else None)))
        seqs.append(dict(name=q["name"], inMain=q["inMain"], injected=q["injected"], units=units,
                         modeName=a["channelexecName"] if q["name"].startswith("remote_exec:") else None))
    seqs.extend(extra_sequences)
    return dict(stdlib=a["stdlib"], sequences=seqs)


def run_child(job, python=PY312, timeout=120):
    p = subprocess.run([python, "-S", "-E", CHILD], input=json.dumps(job).encode(), stdout=subprocess.PIPE,
                       stderr=subprocess.PIPE, timeout=timeout, cwd="/var/tmp")
    if p.returncode != 0:
        raise common.ToolFailure("c15 child failed: " + p.stderr.decode()[-2000:])
    return json.loads(p.stdout.decode())


def _gen_import_sets(u):
    """(module-level, function-level, module-level that always run) sets of (module, fromnames) of the table"""
    mod, fun, always = set(), set(), set()
    for r in u["imports"]:
        key = (r["module"], tuple(sorted(r["fromnames"])))
        (fun if r["level"] == "function" else mod).add(key)
        if r["level"] == "module" and not r["conditional"]:
            always.add(key)
    return mod, fun, always


def _excluded_import_keys(u):
    out = set()
    for e in u["excluded"]:
        w = e["what"]
        if w.startswith("import "):
            out.add((w[7:], ()))
        elif w.startswith("from "):
            m, names = w[5:].split(" import ")
            out.add((m, tuple(sorted(n.strip() for n in names.split(",")))))
    return out


def static_check(ctx, res, a, only_units=None):
    byname = {u["name"]: u for u in a["units"]}
    results = run_child(child_job(a, only_units))
    # the same on the second interpreter when there is one (the tables come from 3.12's stdlib list)
    for r in results:
        u = byname[r["unit"]]
        if only_units is not None and r["unit"] not in only_units:
            continue
        case = {"unit": r["unit"], "sequence": r["sequence"], "static": True}
        res.count(("static", r["unit"], hashlib.sha1(u["text"].encode()).hexdigest()), nontrivial=bool(u["imports"] or u["freeGlobals"]))
        if str(r.get("status", "")).startswith("syntax-error"):
            res.mismatches.append(dict(op="static", case=case, impl=r["status"], model="parses"))
            continue
        gmod, gfun, galways = _gen_import_sets(u)
        # 1. the compiler's view: every IMPORT_NAME of the text is in the table or in the exclusion list
        cimports = {(m, tuple(n)) for m, n, _q in r["compiler_imports"]}
        cimports = {k for k in cimports if k[0] != "__future__"}
        # dynamic `exec("<literal>")` definitions are compiled at run time, the compiler view cannot see inside
        table = gmod | gfun | _excluded_import_keys(u)
        if cimports != table:
            res.mismatches.append(dict(op="static.imports", case=case, impl=sorted(cimports - table), model=sorted(table - cimports)))
        # 2. global names the bytecode of the executed path reads and the text does not bind
        cfree = set(r["compiler_free"])
        gfree = set(u["freeGlobals"])
        if cfree != gfree:
            res.mismatches.append(dict(op="static.free", case=case, impl=sorted(cfree - gfree), model=sorted(gfree - cfree)))
        if "status" not in r or not _runnable(u):
            res.stat("static_scanned")
            continue
        res.stat("static_executed")
        res.traces += 1
        st = r["status"]
        executed = r["imports"]
        refused = [m for m, _n, _lvl, ok in executed if not ok]
        # oracle (model-free): the real text on a real stdlib-only interpreter
        if st.startswith(("ImportError", "ModuleNotFoundError", "NameError")):
            res.violations.append(dict(case=case, what="shipped text %s raises on an interpreter without execnet: %s" % (r["unit"], st), finding=None))
            continue
        if not (st == "ok" or st.startswith("stub:") or st.startswith("SystemExit")):
            res.mismatches.append(dict(op="static.exec", case=case, impl=st, model="runs to its end / first use of the channel"))
            continue
        guarded = {(f["module"]) for f in u["fallbacks"]}
        for m in refused:
            if m not in guarded:
                res.violations.append(dict(case=case, what="shipped text %s imports %s (not standard library, not guarded)" % (r["unit"], m), finding=None))
        # 3. executed module-level imports == generated module-level table
        emod = {(m, tuple(n)) for m, n, lvl, _ok in executed if lvl}
        efun = {(m, tuple(n)) for m, n, lvl, _ok in executed if not lvl}
        if not (galways <= emod <= gmod):
            res.mismatches.append(dict(op="static.executed-module-imports", case=case, impl=sorted(emod - gmod), model=sorted(galways - emod)))
        if not efun <= gfun:
            res.mismatches.append(dict(op="static.executed-function-imports", case=case, impl=sorted(efun - gfun), model="subset of table"))
        # 4. names bound by the run are names the table says it defines (or that were there before)
        seq = next(q for q in a["sequences"] if q["name"] == r["sequence"])
        allowed = set(u["defined"]) | set(seq["injected"]) | set(extract_shipped.MAIN_DUNDERS) | {"__builtins__"}
        for nm in seq["units"]:
            if nm == r["unit"]:
                break
            allowed |= set(byname[nm]["defined"])
        extra = set(r["namespace"]) - allowed - {"annotations"}
        if extra:
            res.mismatches.append(dict(op="static.namespace", case=case, impl=sorted(extra), model="defined ∪ injected"))
    return results


# ---------------------------------------------------------------------------------------
# (b) model correspondence: closure check on mutants, path selection
# ---------------------------------------------------------------------------------------
MUTATIONS = [
    # (statement, expected to be closed)
    ("import execnet.xspec", False),
    ("from execnet.multi import Group", False),
    ("from execnet import gateway_base as _gb", False),
    ("import json", True),
    ("from collections import OrderedDict", True),
    ("import xml.dom.minidom", True),
    ("import definitely_not_a_module_xyz", False),
    ("try:\n    from execnet.xspec import XSpec\nexcept ImportError:\n    XSpec = None", True),
    ("try:\n    from execnet.xspec import XSpec\nexcept ImportError:\n    pass\n_probe = XSpec", False),
    ("try:\n    import execnet.multi\nexcept ImportError:\n    import json as execnet", True),
    ("_probe = XSpec", False),
    ("_probe = len", True),
    ("_probe = safe_terminate", False),
    ("_probe = [HostNotFound for _i in (1,)]", False),
    ("class _Probe:\n    base = Group", False),
    ("_probe = sys.version_info", None),  # closed iff the unit imports sys itself
]


def _lst(xs):
    xs = list(xs)
    return [str(len(xs))] + xs


def closed_line(a, seq, idx, u, main):
    """driver request for one unit: tokens must not contain spaces"""
    before = list(seq["injected"])
    byname = {x["name"]: x for x in a["units"]}
    for nm in seq["units"][:idx]:
        before += byname[nm]["defined"]
    toks = ["boot.closed"] + _lst(a["stdlib"]) + _lst(a["builtins"]) + _lst(main) + _lst(before) + _lst(u["defined"]) + _lst(u["freeGlobals"])
    toks.append(str(len(u["imports"])))
    for r in u["imports"]:
        toks += [r["module"], r["root"] or "-", "1" if r["relative"] else "0", "1" if r["guarded"] else "0", "1" if r["fallback"] else "0"]
        toks += _lst(r["bound"]) + _lst(r["fromnames"]) + _lst(r["backends"])
    toks.append(str(len(u["fallbacks"])))
    for f in u["fallbacks"]:
        toks += [f["module"]] + _lst(f["names"]) + _lst(f["viaMain"]) + _lst(f["viaOther"]) + _lst(f["assigned"]) + _lst(f["unprovided"])
    return " ".join(toks)


def main_of(a, kind):
    byname = {x["name"]: x for x in a["units"]}
    out = []
    for q in a["sequences"]:
        if q["name"] == kind and q["inMain"]:
            out += q["injected"]
            for nm in q["units"]:
                out += byname[nm]["defined"]
    return out


def mutate_text(text, stmt):
    """insert `stmt` at module level: before a trailing `if __name__ …:` block, else at the end"""
    import ast

    tree = ast.parse(text)
    last = tree.body[-1]
    if isinstance(last, ast.If) and "__name__" in ast.unparse(last.test):
        lines = text.splitlines(True)
        at = last.lineno - 1
        return "".join(lines[:at]) + stmt + "\n" + "".join(lines[at:])
    return text + ("" if text.endswith("\n") else "\n") + stmt + "\n"


def mutant_check(ctx, res, a):
    rng = ctx.rng("mutants")
    byname = {u["name"]: u for u in a["units"]}
    main_exec = main_of(a, "exec")
    # first: the unmutated units — the driver's verdict must be `closed` exactly where Props/C15 proves it
    lines, meta = [], []
    for q in a["sequences"]:
        if q["name"] == "import":
            continue
        for idx, nm in enumerate(q["units"]):
            lines.append(closed_line(a, q, idx, byname[nm], main_exec))
            meta.append((q["name"], nm, None, True))
    # mutants of the runnable units
    targets = [(q, idx, byname[nm]) for q in a["sequences"] if q["name"] != "import" for idx, nm in enumerate(q["units"])
               if _runnable(byname[nm]) and not byname[nm].get("calledWith") and "<literal>" not in byname[nm]["origin"]]
    n = ctx.budget(48, 600, 96)
    extra = []
    for k in range(n):
        q, idx, u = targets[k % len(targets)] if k < len(targets) * 2 else rng.choice(targets)
        stmt, _exp = MUTATIONS[k % len(MUTATIONS)] if k < len(MUTATIONS) else rng.choice(MUTATIONS)
        text = mutate_text(u["text"], stmt)
        mu = extract_shipped.analyse_text("mutant%d:%s" % (k, u["name"]), text, u["mode"] or None,
                                          deferred_annotations=u["deferredAnnotations"], origin=u["origin"],
                                          backends=a["backendClasses"])
        lines.append(closed_line(a, q, idx, mu, main_exec))
        meta.append((q["name"], mu["name"], stmt, None))
        # the mutant runs in a copy of its sequence: the units before it unmutated, then the mutant
        units = []
        for nm in q["units"][:idx]:
            b = byname[nm]
            units.append(dict(name=nm, text=b["text"], pruned=b["pruned"], future=b["deferredAnnotations"], run=_runnable(b), call=None))
        units.append(dict(name=mu["name"], text=text, pruned=mu["pruned"], future=mu["deferredAnnotations"], run=True, call=None))
        extra.append(dict(name=q["name"], inMain=q["inMain"], injected=q["injected"], units=units,
                          modeName=a["channelexecName"] if q["name"].startswith("remote_exec:") else None))
    outs = ctx.driver.ask(lines)
    # the pipe worker's `__main__` first, so that `from __main__ import Message` resolves as on a real worker
    execseq = [s for s in child_job(a)["sequences"] if s["name"] == "exec"]
    results = run_child(dict(stdlib=a["stdlib"], sequences=execseq + extra), timeout=600)
    status = {r["unit"]: r.get("status") for r in results if r["unit"].startswith("mutant")}
    for (seqname, nm, stmt, expect), out in zip(meta, outs):
        case = {"sequence": seqname, "unit": nm, "mutation": stmt}
        if stmt is None:
            res.count(("closed", nm), nontrivial=False)
            if out != "closed":
                res.mismatches.append(dict(op="boot.closed", case=case, impl="tables of the unchanged tree", model=out))
            continue
        res.count(("mutant", seqname, nm.split(":", 1)[1], stmt))
        res.sample({"unit": nm.split(":", 1)[1], "mutation": stmt, "model": out})
        st = status.get(nm)
        if st is None:
            res.mismatches.append(dict(op="mutant", case=case, impl="not executed", model=out))
            continue
        failed = st.startswith(("ImportError", "ModuleNotFoundError", "NameError"))
        runs = st == "ok" or st.startswith(("stub:", "SystemExit"))
        res.stat("mutant_" + ("open" if out != "closed" else "closed"))
        res.traces += 1
        if (out == "closed") != runs or (out != "closed") != failed:
            res.mismatches.append(dict(op="mutant", case=case, impl=st, model=out))


class _Stop(Exception):
    pass


def selection_check(ctx, res):
    """bootstrap()/makegateway() of the real code for all 64 flag combinations vs boot.kind / boot.io"""
    execnet = ctx.execnet
    from execnet import gateway_bootstrap, gateway_io, multi

    flags = ["popen", "via", "python", "ssh", "vagrant_ssh", "socket"]
    vals = dict(popen=None, via="m", python="py", ssh="h", vagrant_ssh="v", socket="127.0.0.1:1")
    lines, impl = [], []
    saved = {k: getattr(gateway_bootstrap, k) for k in ("bootstrap_import", "bootstrap_exec", "bootstrap_socket")}
    saved_gw = execnet.Gateway
    saved_io = (gateway_io.create_io, gateway_io.ProxyIO, multi.gateway_bootstrap.bootstrap)
    from execnet import gateway_socket

    saved_sock = gateway_socket.create_io
    called = []
    try:
        for k in saved:
            setattr(gateway_bootstrap, k, (lambda name: lambda io, spec: called.append(name))(k))

        class FakeGateway:
            def __init__(self, io, spec):
                pass

        execnet.Gateway = FakeGateway
        for bits in range(64):
            on = [(bits >> (5 - i)) & 1 for i in range(6)]
            parts = []
            for f, b in zip(flags, on):
                if b:
                    parts.append(f if vals[f] is None else "%s=%s" % (f, vals[f]))
            spec = execnet.XSpec("//".join(parts) or "id=x")
            del called[:]
            try:
                gateway_bootstrap.bootstrap(object(), spec)
                got = called[0].replace("bootstrap_", "") if called else "none"
            except ValueError:
                got = "error"
            lines.append("boot.kind " + " ".join(map(str, on)))
            impl.append(got)
            # makegateway's choice of IO
            del called[:]

            def stop(name):
                def f(*a, **k):
                    called.append(name)
                    raise _Stop()
                return f

            gateway_io.create_io = stop("pipe")
            gateway_io.ProxyIO = stop("proxy")
            gateway_socket.create_io = stop("socket")
            group = execnet.Group()

            class Master:
                id = "m"
                spec = execnet.XSpec("popen//id=m")   # (a caller may look at how the master itself was made)

                def remote_exec(self, src):
                    class Ch:
                        def send(self, x):
                            pass
                    return Ch()

            group._gateways.append(Master())
            try:
                group.makegateway(execnet.XSpec("//".join(parts) or "id=x"))
                got = "none"
            except _Stop:
                got = called[0]
            except AssertionError:
                got = "assertion"
            except ValueError:
                got = "error"
            finally:
                del group._gateways[:]
            lines.append("boot.io " + " ".join(map(str, on)))
            impl.append(got)
    finally:
        for k, v in saved.items():
            setattr(gateway_bootstrap, k, v)
        execnet.Gateway = saved_gw
        gateway_io.create_io, gateway_io.ProxyIO, multi.gateway_bootstrap.bootstrap = saved_io
        gateway_socket.create_io = saved_sock
    outs = ctx.driver.ask(lines)
    for line, got, out in zip(lines, impl, outs):
        res.count(line)
        res.stat("select_" + got)
        res.traces += 1
        if got != out:
            res.mismatches.append(dict(op=line.split()[0], case=line, impl=got, model=out))
    res.exhaustive = True


# ---------------------------------------------------------------------------------------
# (c) dynamic: programs and workers
# ---------------------------------------------------------------------------------------
def _echo_kwargs(channel, **kw):
    channel.send(sorted(kw))
    for k in sorted(kw):
        channel.send(kw[k])
    channel.send(__name__)


ECHO_SRC = """
for x in channel:
    channel.send(x)
"""

SUB_SRC = """
sub = channel.gateway.newchannel()
channel.send(sub)
back = channel.receive()
n = channel.receive()
for i in range(n):
    back.send(sub.receive())
back.send(('ids', sub.id % 2, back.id % 2, channel.id % 2))
"""

IDENT_SRC = """
import sys
channel.send((__name__, channel.gateway.id[-7:], type(channel).__name__, type(channel.gateway).__name__,
              sorted(k for k in globals() if k != '__builtins__' and k != 'sys')))
"""

IMPORTABLE_SRC = """
import sys
try:
    import execnet
    channel.send(('importable', sys.flags.no_site, sys.version_info[:2]))
except ImportError as e:
    channel.send((type(e).__name__, sys.flags.no_site, sys.version_info[:2]))
"""


def gen_programs(ctx, n, errors=True, tag="programs"):
    rng = ctx.rng(tag)
    progs = [dict(kind="ident"), dict(kind="sub", values=["I 1", "S 78", "L 2 N T"])]
    kinds = ["echo", "func", "module", "sub", "error", "noise", "rsync"]
    for i in range(n):
        k = kinds[i % len(kinds)]
        if k == "error" and not errors:
            k = "echo"
        g = pyval.Gen(rng, max_depth=3, max_size=rng.choice([3, 10, 25]))
        if k == "echo":
            progs.append(dict(kind="echo", values=[pyval.render(g.value()) for _ in range(rng.randint(1, 6))]))
        elif k == "func":
            names = rng.sample(["a", "b2", "key", "x_1", "data", "flag"], rng.randint(0, 4))
            progs.append(dict(kind="func", kwargs={nm: pyval.render(g.value()) for nm in names}))
        elif k == "module":
            progs.append(dict(kind="module", n=i, value=pyval.render(g.value())))
        elif k == "sub":
            progs.append(dict(kind="sub", values=[pyval.render(g.value()) for _ in range(rng.randint(0, 4))]))
        elif k == "error":
            progs.append(dict(kind="error", exc=rng.choice(["zero", "name", "custom", "syntax", "exit"]), at=rng.randint(0, 4), n=5))
        elif k == "noise":
            progs.append(dict(kind="noise", size=rng.choice([1, 100, 4096, 70000])))
        elif k == "rsync":
            files = {"f%d.txt" % j: rng.randint(0, 3000) for j in range(rng.randint(1, 4))}
            files["sub/deep/x.bin"] = rng.randint(0, 100)
            progs.append(dict(kind="rsync", files=files, seed=rng.randint(0, 10**6)))
    return progs


def norm_remote_error(text):
    """frames after `executetask` / `_executetask` (the function that runs the body) + the exception line: independent of where gateway_base's text came from"""
    lines = str(text).splitlines()
    out = []
    seen_exec = False
    for ln in lines:
        s = ln.strip()
        if s.startswith("File "):
            if "in executetask" in s or "in _executetask" in s:
                seen_exec = True
                out = []
                continue
            out.append(s)
        elif ln and not ln.startswith(" ") and not s.startswith("Traceback"):
            out.append(s)
    return [seen_exec] + out


def _c(v):
    return repr(pyval.canon(v))


def run_program(ctx, gw, prog, scratch, tag):
    """returns the transcript (list of strings) of one program on one worker"""
    execnet = ctx.execnet
    kind = prog["kind"]
    t = []
    if kind == "ident":
        ch = gw.remote_exec(IDENT_SRC)
        t.append(repr(ch.receive(RECV_TIMEOUT)))
        ch.waitclose(RECV_TIMEOUT)
    elif kind == "echo":
        ch = gw.remote_exec(ECHO_SRC)
        for line in prog["values"]:
            ch.send(pyval.build_line(line))
            t.append(_c(ch.receive(RECV_TIMEOUT)))
        ch.close()
    elif kind == "func":
        kwargs = {k: pyval.build_line(v) for k, v in prog["kwargs"].items()}
        ch = gw.remote_exec(_echo_kwargs, **kwargs)
        t.append(repr(ch.receive(RECV_TIMEOUT)))
        for _ in kwargs:
            t.append(_c(ch.receive(RECV_TIMEOUT)))
        t.append(repr(ch.receive(RECV_TIMEOUT)))
        ch.waitclose(RECV_TIMEOUT)
    elif kind == "module":
        path = os.path.join(scratch, "c15mod_%d.py" % prog["n"])
        if not os.path.exists(path):
            with open(path, "w") as f:
                f.write("import os\n\n\ndef helper(x):\n    return ('mod', __name__, x, os.path.basename(__file__) if '__file__' in globals() else None)\n\n\n"
                        "if __name__ == '__channelexec__':\n    channel.send(helper(channel.receive()))  # noqa: F821\n")
        spec = importlib.util.spec_from_file_location("c15mod_%d" % prog["n"], path)
        mod = importlib.util.module_from_spec(spec)
        spec.loader.exec_module(mod)
        ch = gw.remote_exec(mod)
        ch.send(pyval.build_line(prog["value"]))
        t.append(_c(ch.receive(RECV_TIMEOUT)))
        ch.waitclose(RECV_TIMEOUT)
    elif kind == "sub":
        ch = gw.remote_exec(SUB_SRC)
        sub = ch.receive(RECV_TIMEOUT)
        mine = gw.newchannel()
        ch.send(mine)
        ch.send(len(prog["values"]))
        for line in prog["values"]:
            sub.send(pyval.build_line(line))
            t.append(_c(mine.receive(RECV_TIMEOUT)))
        t.append(repr(mine.receive(RECV_TIMEOUT)))
        ch.waitclose(RECV_TIMEOUT)
        t.append("parity %d %d" % (sub.id % 2, mine.id % 2))
    elif kind == "error":
        body = ["channel.send(%d)" % i for i in range(prog["n"])]
        bad = {"zero": "1/0", "name": "undefined_name_xyz", "custom": "raise ValueError('boom %d' % 7)",
               "syntax": "eval('1 +')", "exit": "raise SystemExit(3)"}[prog["exc"]]
        body.insert(prog["at"], bad)
        ch = gw.remote_exec("\n".join(body))
        try:
            while True:
                t.append(repr(ch.receive(RECV_TIMEOUT)))
        except ch.RemoteError as e:
            t.append("RemoteError " + repr(norm_remote_error(e.formatted)))
        except EOFError:
            t.append("EOFError")
    elif kind == "noise":
        ch = gw.remote_exec("import os, sys\nn = channel.receive()\nprint('x' * n)\nsys.stdout.flush()\nos.write(1, b'y' * n)\nchannel.send(n + 1)\n")
        ch.send(prog["size"])
        t.append(repr(ch.receive(RECV_TIMEOUT)))
        ch.waitclose(RECV_TIMEOUT)
    elif kind == "rsync":
        import random

        r = random.Random(prog["seed"])
        src = os.path.join(scratch, "rsrc_%d" % prog["seed"])
        if not os.path.exists(src):
            for rel, size in prog["files"].items():
                p = os.path.join(src, rel)
                os.makedirs(os.path.dirname(p), exist_ok=True)
                with open(p, "wb") as f:
                    f.write(bytes(r.randrange(256) for _ in range(size)))
        dest = os.path.join(scratch, "rdst_%d_%s" % (prog["seed"], tag))
        rs = execnet.RSync(src, verbose=False)
        rs.add_target(gw, dest)
        rs.send()
        for root, _dirs, files in sorted(os.walk(dest)):
            for fn in sorted(files):
                p = os.path.join(root, fn)
                with open(p, "rb") as f:
                    t.append("%s %s" % (os.path.relpath(p, dest), hashlib.sha1(f.read()).hexdigest()))
        shutil.rmtree(dest, ignore_errors=True)
    else:
        raise common.ToolFailure("unknown program kind " + kind)
    return t


def free_port():
    s = socket.socket()
    s.bind(("127.0.0.1", 0))
    p = s.getsockname()[1]
    s.close()
    return p


class Servers:
    """stand-alone socket servers (own process groups), killed at the end"""

    def __init__(self, scratch):
        self.scratch = scratch
        self.procs = []

    def start(self, python):
        script = os.path.join(common.REPO, "src", "execnet", "script", "socketserver.py")
        for _attempt in range(5):
            port = free_port()
            log = open(os.path.join(self.scratch, "server-%d.log" % port), "wb")
            p = subprocess.Popen([python, "-S", "-E", "-u", script, "127.0.0.1:%d" % port], stdout=log, stderr=subprocess.STDOUT,
                                 stdin=subprocess.DEVNULL, cwd=self.scratch, start_new_session=True)
            self.procs.append(p)
            deadline = time.time() + 10
            while time.time() < deadline:
                if p.poll() is not None:
                    break
                with open(log.name, "rb") as f:
                    if b"Entering Accept loop" in f.read():
                        return port, p, log.name
                time.sleep(0.05)
            if p.poll() is not None:
                with open(log.name, "rb") as f:
                    txt = f.read().decode("utf-8", "replace")
                if "Address already in use" in txt:
                    continue
                return None, p, txt
        return None, None, "no free port"

    def stop(self):
        for p in self.procs:
            try:
                os.killpg(p.pid, signal.SIGKILL)
            except OSError:
                pass
            try:
                p.wait(5)
            except Exception:  # noqa: BLE001
                pass


def worker_configs():
    cfg = [
        ("exec312", dict(spec="popen//python=%s -S -E" % PY312, ref="import")),
        ("exec312-mto", dict(spec="popen//python=%s -S -E//execmodel=main_thread_only" % PY312, ref="import-mto", errors=False)),
        # the transmitted source is read by the child with its *locale* encoding: a C locale without UTF-8 mode
        ("exec312-clocale", dict(spec="popen//python=env LC_ALL=C %s -S -E -X utf8=0" % PY312, ref="import")),
        ("via-exec", dict(spec="popen//via=exec312//python=%s -S -E" % PY312, ref="import", needs=["exec312"])),
        ("via-import", dict(spec="popen//via=import//python=%s -S -E" % PY312, ref="import")),
        ("socket312", dict(server=PY312, ref="import")),
        ("installvia", dict(spec="socket//installvia=exec312", ref="import", needs=["exec312"])),
        ("via-socket", dict(spec="popen//via=socket312//python=%s -S -E" % PY312, ref="import", needs=["socket312"], known=FINDING_VIA_SOCKET)),
    ]
    if PY311:
        cfg += [
            ("exec311", dict(spec="popen//python=%s -S -E" % PY311, ref="import")),
            ("socket311", dict(server=PY311, ref="import")),
            ("via-exec311", dict(spec="popen//via=exec311//python=%s -S -E" % PY311, ref="import", needs=["exec311"])),
        ]
    return cfg


def classify(worker, text):
    if worker == "via-socket" and ("cannot import name 'Message' from '__main__'" in text or
                                   ("cannot send to <Channel" in text and "closed" in text)):
        # (the forwarder's ImportError closes the proxy channel; depending on who is faster the initiator sees the
        # RemoteError with that text or fails to send the spec on the channel that was just closed)
        return FINDING_VIA_SOCKET
    return None


class Hang(Exception):
    pass


def bounded(fn, timeout, what):
    """run fn() in a helper thread; a call that does not return within `timeout` seconds is reported as a hang
    (the helper thread is abandoned: tear-down kills the peer, which unblocks it)"""
    import threading

    box = {}

    def run():
        try:
            box["r"] = fn()
        except BaseException as e:  # noqa: BLE001
            box["e"] = e

    t = threading.Thread(target=run, daemon=True)
    t.start()
    t.join(timeout)
    if t.is_alive():
        raise Hang("%s did not return within %d s" % (what, timeout))
    if "e" in box:
        raise box["e"]
    return box["r"]


def dynamic_check(ctx, res, only=None):
    """only = (worker name, program) re-runs one case"""
    execnet = ctx.execnet
    scratch = common.scratch_dir("c15")
    servers = Servers(scratch)
    group = execnet.Group()
    gws = {}
    try:
        nprog = ctx.budget(21, 210, 42)
        progs = gen_programs(ctx, nprog)
        if only is not None and only[1] is not None:
            progs = [only[1]]
        refs = {"import": group.makegateway("popen//id=import"), "import-mto": group.makegateway("popen//id=import-mto//execmodel=main_thread_only")}
        gws.update(refs)
        ref_transcripts = {}

        def ref_run(refname, i, prog):
            key = (refname, i)
            if key not in ref_transcripts:
                ref_transcripts[key] = run_program(ctx, refs[refname], prog, scratch, refname)
            return ref_transcripts[key]

        ch = refs["import"].remote_exec(IMPORTABLE_SRC)
        if ch.receive(RECV_TIMEOUT)[0] != "importable":
            raise common.ToolFailure("the import-bootstrapped reference worker cannot import execnet")
        wanted = None
        if only is not None:
            cfgs = dict(worker_configs())
            wanted = [only[0]] + list(cfgs.get(only[0], {}).get("needs", []))
        for name, cfg in worker_configs():
            if wanted is not None and name not in wanted:
                continue
            case0 = {"worker": name, "program": None, "spec": cfg.get("spec") or "socket=<stand-alone %s -S -E socketserver.py>" % cfg.get("server")}
            res.count(("bootstrap", name))
            try:
                if any(n not in gws for n in cfg.get("needs", [])):
                    res.stat("worker_skipped_" + name)
                    continue
                if "server" in cfg:
                    port, proc, info = servers.start(cfg["server"])
                    if port is None:
                        res.violations.append(dict(case=case0, what="stand-alone socketserver.py does not start on an interpreter without execnet: " + str(info)[-400:], finding=None))
                        continue
                    gw = bounded(lambda: group.makegateway("socket=127.0.0.1:%d//id=%s" % (port, name)), 30, "socket bootstrap on the stand-alone server")
                else:
                    gw = bounded(lambda: group.makegateway(cfg["spec"] + "//id=" + name), 60, "bootstrap")
                ch = gw.remote_exec(IMPORTABLE_SRC)
                info = ch.receive(RECV_TIMEOUT)
            except BaseException as e:  # noqa: BLE001 - any failure to come up is the finding
                if isinstance(e, (KeyboardInterrupt, common.ToolFailure)):
                    raise
                text = "%s: %s" % (type(e).__name__, str(e)[-600:])
                res.violations.append(dict(case=case0, what="worker bootstrapped from source alone did not come up: " + text, finding=classify(name, text)))
                res.stat("worker_failed_" + name)
                continue
            gws[name] = gw
            res.stat("worker_up_" + name)
            if info[0] == "importable" or info[1] != 1:
                raise common.ToolFailure("worker %s can import execnet (%r): the -S -E interpreter is not bare" % (name, info))
            if cfg.get("known"):
                # the known-finding shape did not occur: nothing to report, the worker is simply used
                pass
            # the non-channel messages must work on a bare worker too: STATUS and RECONFIGURE
            try:
                st = bounded(lambda: gw.remote_status(), 20, "remote_status()")
                ref_st = refs[cfg["ref"]].remote_status()
                res.count(("status", name))
                if sorted(vars(st)) != sorted(vars(ref_st)) or not isinstance(st.numchannels, int):
                    res.violations.append(dict(case=case0, what="remote_status() of the source-bootstrapped worker differs from the import-bootstrapped one: %r vs %r" % (st, ref_st)))
                gw.reconfigure(py2str_as_py3str=True, py3str_as_py2str=False)
                chs = gw.remote_exec("channel.send(channel.receive() + 'x')")
                chs.send("é")
                if bounded(lambda: chs.receive(RECV_TIMEOUT), 20, "echo after reconfigure") != "éx":
                    res.violations.append(dict(case=case0, what="echo after Gateway.reconfigure() wrong on the source-bootstrapped worker"))
            except BaseException as e:  # noqa: BLE001
                if isinstance(e, (KeyboardInterrupt, common.ToolFailure)):
                    raise
                res.violations.append(dict(case=case0, what="remote_status()/reconfigure on a worker bootstrapped from source alone failed: %s: %s" % (type(e).__name__, str(e)[-300:]),
                                           finding=classify(name, str(e))))
                res.stat("worker_failed_" + name)
                continue
            for i, prog in enumerate(progs):
                if prog["kind"] == "error" and not cfg.get("errors", True):
                    continue
                case = {"worker": name, "program": prog, "spec": case0["spec"]}
                res.count(("prog", name, json.dumps(prog, sort_keys=True)))
                res.stat("prog_" + prog["kind"])
                try:
                    got = run_program(ctx, gw, prog, scratch, name)
                except BaseException as e:  # noqa: BLE001
                    if isinstance(e, (KeyboardInterrupt, common.ToolFailure)):
                        raise
                    got = ["FAILED %s: %s" % (type(e).__name__, str(e)[-500:])]
                exp = ref_run(cfg["ref"], i, prog)
                res.traces += 1
                if got != exp:
                    res.violations.append(dict(case=case, what="transcript differs from the import-bootstrapped worker", impl=got[:6], expected=exp[:6],
                                               finding=classify(name, " ".join(got))))
                    if got and got[0].startswith("FAILED"):
                        break  # the worker is probably gone
                elif len(res.samples) < 6:
                    res.sample({"worker": name, "program": prog["kind"], "transcript": got[:3]})
    finally:
        servers.stop()
        try:
            bounded(lambda: group.terminate(timeout=3.0), 40, "terminate")
        except BaseException:  # noqa: BLE001
            pass
        shutil.rmtree(scratch, ignore_errors=True)


# ---------------------------------------------------------------------------------------
def run(ctx):
    res = common.Result()
    res.rule = ("static: every shipped text (found by scanning sendexec/remote_exec call sites) executed in `python -S -E` under a recording, "
                "stdlib-only import hook + compiler view vs generated tables; closure-check verdicts on module-level mutants vs execution; "
                "path selection exhaustively (64 flag combinations x 2 selectors); dynamic: generated channel programs (echo, function+kwargs, "
                "module, sub-channels, errors, stdout noise, rsync) on exec/via/socket/installvia workers of interpreters without site-packages "
                "vs an import-bootstrapped worker; distinct = distinct (worker, program) / (unit text) / (unit, mutation)")
    a = extract_shipped.analyse(common.REPO)
    gen_path = os.path.join(common.LEAN, "ExecnetVerif", "Generated", "Shipped.lean")
    with open(gen_path, encoding="utf-8") as f:
        if f.read() != extract_shipped.gen_shipped(common.REPO):
            raise common.ToolFailure("Generated/Shipped.lean is not what the translator produces for " + common.REPO)
    res.extra["shipped_units"] = [u["name"] for u in a["units"]]
    res.extra["excluded_imports"] = {u["name"]: ["line %d: %s [%s]" % (e["line"], e["what"], e["reason"]) for e in u["excluded"]] for u in a["units"] if u["excluded"]}
    static_check(ctx, res, a)
    if PY311:
        # the same texts on the second interpreter: only the execution outcome matters there
        for r in run_child(child_job(a), python=PY311):
            st = r.get("status")
            if st and st.startswith(("ImportError", "ModuleNotFoundError", "NameError")):
                res.violations.append(dict(case={"unit": r["unit"], "sequence": r["sequence"], "static": True, "python": "3.11"},
                                           what="shipped text %s raises on python3.11 without execnet: %s" % (r["unit"], st), finding=None))
            res.count(("static311", r["unit"]), nontrivial=False)
    mutant_check(ctx, res, a)
    selection_check(ctx, res)
    dynamic_check(ctx, res)
    res.assumptions.append("C15: runtime behaviour of the bootstrapped worker is sampled (interpreters present: CPython 3.12 and 3.11, "
                           "stdlib execmodels thread/main_thread_only); ssh/vagrant_ssh are covered only as the same exec path through a pipe")
    return res


def search(ctx, prev):
    return run(ctx)


def replay(ctx, payload):
    res = common.Result()
    case = payload["case"]
    if case.get("static"):
        a = extract_shipped.analyse(common.REPO)
        static_check(ctx, res, a, only_units={case["unit"]})
    else:
        dynamic_check(ctx, res, only=(case["worker"], case.get("program")))
    return res
