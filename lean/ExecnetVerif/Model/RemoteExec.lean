/-
L9 (C06) — `Gateway.remote_exec`: what is decided locally before anything is sent, the text that is
shipped for a function (line-number arithmetic), the EXEC frame, and the file-descriptor surgery of
`init_popen_io` on the worker.

Transcribed from gateway.py (`remote_exec`, `_source_of_function`, `_find_non_builtin_globals`) and
gateway_base.py (`init_popen_io`, POSIX branch) in the order the code tests things.
-/
import ExecnetVerif.Model.Serializer
namespace ExecnetVerif.RemoteExec

/-- what `_source_of_function` looks at -/
structure FuncInfo where
  /-- `function.__name__` -/
  name : String
  /-- `inspect.getfullargspec(function).args` -/
  args : List String
  /-- `function.__closure__ is not None` -/
  hasClosure : Bool
  /-- `inspect.getsource(function)` succeeds -/
  hasSource : Bool
  /-- ids of all `ast.Name` nodes of the dedented source, in `ast.walk` order -/
  names : List String
  /-- `function.__code__.co_varnames` -/
  varnames : List String
  /-- `co_firstlineno` (1-based) -/
  firstlineno : Nat
  /-- width of the common indentation `textwrap.dedent` removes -/
  margin : Nat
  /-- `inspect.getsource(function).split("\n")` -/
  srcLines : List String
deriving Repr

inductive Reject
  | lambda
  | firstArg
  | closure
  | noSource
  | globals (names : List String)
deriving Repr, DecidableEq

/-- `_find_non_builtin_globals`: every Name id that is neither a local of the outer code object nor a
key of `builtins.__dict__`, in order, with repetitions -/
def usedGlobals (builtins : List String) (f : FuncInfo) : List String :=
  f.names.filter fun n => !(f.varnames.contains n) && !(builtins.contains n)

/-- `_source_of_function` up to the point where it returns the text: which error for which shape,
in the order of the code -/
def remoteExecCheck (builtins : List String) (f : FuncInfo) : Except Reject Unit :=
  if f.name = "<lambda>" then .error .lambda
  else if f.args.head? ≠ some "channel" then .error .firstArg
  else if f.hasClosure then .error .closure
  else if !f.hasSource then .error .noSource
  else match usedGlobals builtins f with
    | [] => .ok ()
    | g :: gs => .error (.globals (g :: gs))

/-- `textwrap.dedent` on one line: whitespace-only lines become empty, others lose the margin -/
def dedentLine (margin : Nat) (s : String) : String :=
  if s.toList.all (fun c => c == ' ' || c == '\t') then "" else String.ofList (s.toList.drop margin)

/-- lines of the text `_source_of_function` returns: `"\n" * (co_firstlineno - 1) + dedent(source)` -/
def shippedLines (f : FuncInfo) : List String :=
  List.replicate (f.firstlineno - 1) "" ++ f.srcLines.map (dedentLine f.margin)

def shippedText (f : FuncInfo) : String := "\n".intercalate (shippedLines f)

/-! ### remote_exec as check · newchannel · send -/

inductive Source
  | module (text file : String)
  | function (f : FuncInfo) (file : Option String)
  | text (s : String)

inductive Err
  | value (r : Reject)
  | type
  | dump
deriving Repr, DecidableEq

/-- the initiator's side of a gateway as far as `remote_exec` touches it -/
structure Gw where
  /-- `ChannelFactory.count`: next channel id -/
  count : Nat
  /-- ids handed out by `newchannel` -/
  channels : List Nat
  /-- CHANNEL_EXEC frames written: (channel id, payload) -/
  wire : List (Nat × Bytes)
deriving Repr, DecidableEq

def optStr : Option String → PyVal
  | some s => .str s
  | none => .none

/-- (source text, file_name, call_name) or the local rejection -/
def prepare (builtins : List String) : Source → Except Err (String × Option String × Option String)
  | .module text file => .ok (text, some file, none)
  | .function f file =>
    match remoteExecCheck builtins f with
    | .error r => .error (.value r)
    | .ok () => .ok (shippedText f, file, some f.name)
  | .text s => .ok (s, none, none)

def payload (text : String) (file call : Option String) (kwargs : List (PyVal × PyVal)) : PyVal :=
  .tuple [.str text, optStr file, optStr call, .dict kwargs]

/-- `Gateway.remote_exec(source, **kwargs)` -/
def remoteExec (builtins : List String) (g : Gw) (src : Source) (kwargs : List (PyVal × PyVal)) :
    Gw × Except Err Nat :=
  match prepare builtins src with
  | .error e => (g, .error e)
  | .ok (text, file, call) =>
    if call = none ∧ kwargs ≠ [] then (g, .error .type)
    else
      let id := g.count
      let g1 : Gw := { g with count := g.count + 2, channels := id :: g.channels }
      match encodeInternal (payload text file call kwargs) with
      | .error _ => (g1, .error .dump)
      | .ok b => ({ g1 with wire := g1.wire ++ [(id, b)] }, .ok id)

/-! ### file descriptors of a popen worker (`init_popen_io`, POSIX branch) -/

inductive Resource
  | closed
  /-- the pipe the initiator writes to (worker's original fd 0) -/
  | pipeIn
  /-- the pipe the initiator reads from (worker's original fd 1) -/
  | pipeOut
  | devnullR
  | devnullW
  | other (tag : Nat)
deriving Repr, DecidableEq

/-- a process' descriptor table; everything at or above `size` is closed -/
structure Fds where
  get : Nat → Resource
  size : Nat

def Fds.WF (s : Fds) : Prop := ∀ n, s.size ≤ n → s.get n = .closed

def upd (t : Nat → Resource) (k : Nat) (v : Resource) : Nat → Resource := fun n => if n = k then v else t n

/-- first closed descriptor at or after `i`, looking at `fuel` entries -/
def lowestFreeFrom (t : Nat → Resource) : Nat → Nat → Nat
  | 0, i => i
  | fuel + 1, i => if t i = .closed then i else lowestFreeFrom t fuel (i + 1)

/-- POSIX: `open`/`dup` return the lowest-numbered descriptor not open -/
def Fds.lowestFree (s : Fds) : Nat := lowestFreeFrom s.get s.size 0

def Fds.set (s : Fds) (k : Nat) (v : Resource) : Fds := ⟨upd s.get k v, max s.size (k + 1)⟩

/-- `os.open(path, …)` -/
def Fds.open (s : Fds) (r : Resource) : Fds × Nat := (s.set s.lowestFree r, s.lowestFree)
/-- `os.dup(fd)` -/
def Fds.dup (s : Fds) (fd : Nat) : Fds × Nat := (s.set s.lowestFree (s.get fd), s.lowestFree)
/-- `os.dup2(a, b)` -/
def Fds.dup2 (s : Fds) (a b : Nat) : Fds := s.set b (s.get a)
/-- `os.close(fd)` -/
def Fds.close (s : Fds) (fd : Nat) : Fds := ⟨upd s.get fd .closed, s.size⟩

structure PopenIO where
  fds : Fds
  /-- descriptor `Popen2IO` reads protocol bytes from -/
  protoIn : Nat
  /-- descriptor `Popen2IO` writes protocol bytes to -/
  protoOut : Nat
  /-- descriptor behind the new `sys.stdin` / `sys.stdout` -/
  sysStdin : Nat
  sysStdout : Nat

/-- `init_popen_io`, statement by statement -/
def initPopenIO (s : Fds) : PopenIO :=
  let (s, a) := s.dup 0                -- stdin = fdopen(os.dup(0))
  let (s, fd) := s.open .devnullR      -- fd = os.open(devnull, O_RDONLY)
  let s := s.dup2 fd 0                 -- os.dup2(fd, 0)
  let s := s.close fd                  -- os.close(fd)
  let (s, b) := s.dup 1                -- stdout = fdopen(os.dup(1))
  let (s, fd) := s.open .devnullW      -- fd = os.open(devnull, O_WRONLY)
  let s := s.dup2 fd 1                 -- os.dup2(fd, 1)
  let s := s.close fd                  -- os.close(fd)
  { fds := s, protoIn := a, protoOut := b, sysStdin := 0, sysStdout := 1 }

end ExecnetVerif.RemoteExec
