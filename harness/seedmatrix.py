"""Print the catch matrix of /verif/seeded (markdown) from the meta.json files written by harness/seedtest.py."""
import glob
import json
import os

rows = []
for d in sorted(glob.glob(os.path.join(os.path.dirname(os.path.abspath(__file__)), "..", "seeded", "C*-*"))):
    m = json.load(open(os.path.join(d, "meta.json")))
    det = m.get("detection", {})
    lines = det.get("lines") or []
    vio = [ln for ln in lines if ln.startswith("VIOLATION")]
    how = "MISSED"
    if vio:
        rp = vio[0].split("replay=")[1].split()[0]
        kind = os.path.basename(rp).split("-")[1]
        how = {"oracle": "model-free oracle, concrete replay", "correspondence": "model/implementation mismatch",
               "proof": "proof obligation broken"}.get(kind, kind)
        if "no-failing-input-found" in vio[0]:
            how += " (no-failing-input-found)"
    first = m.get("first_detection")
    note = ""
    if first is not None and first.get("exit") == 0:
        note = "missed by the check as first built; caught after strengthening"
    elif first is not None and first.get("exit") == 2:
        note = "the check's own bookkeeping crashed on it (exit 2) as first built; hardened"
    elif first is not None and any("no-failing-input-found" in ln for ln in (first.get("lines") or [])) and "no-failing" not in how:
        note = "first reported without a concrete input; now with one"
    summ = " ".join(m.get("summary", "").split())
    if len(summ) > 230:
        summ = summ[:227] + "..."
    rows.append((os.path.basename(d), m["property"], summ, how, note))
print("| seed | what was changed | caught by `./check <prop>` (quick) as | note |")
print("|---|---|---|---|")
for sid, prop, summ, how, note in rows:
    print(f"| {sid} | {summ} | {how} | {note} |")
print()
print(f"{sum(1 for r in rows if r[3] != 'MISSED')} of {len(rows)} seeded changes caught by the quick tier.")
