/-
Line-protocol commands for the channel-file model (elements are `Nat` codes — code points of a `str`
item, byte values of a `bytes` item — newline = 10):

  cf.read  <proxyclose:0|1> <closed0:0|1> <items> <calls>   → ok <outputs> closed=<0|1> atend=<0|1>
  cf.file  <data> <calls>                                    → ok <outputs> pos=<n>
  cf.write <proxyclose:0|1> <ops>                            → ok <o|e,…> sent=<items> closed=<0|1>

  <seq>     = `-` (empty) | decimal codes joined by `,`
  <items>   = `.` (no item) | <seq> joined by `/`          (also the format of <outputs>)
  <calls>   = `.` (no call) | `r<n>` / `l` joined by `,`
  <ops>     = `.` | `w:<seq>` / `f` / `c` / `x` (channel closed by other means) joined by `/`

Not part of any theorem: the parser/printer (exercised by the correspondence runs).
-/
import ExecnetVerif.Model.ChannelFile
namespace ExecnetVerif
open ChannelFile

def cfParseSeq (s : String) : Option (List Nat) :=
  if s = "-" then some [] else (s.splitOn ",").mapM String.toNat?

def cfParseItems (s : String) : Option (List (List Nat)) :=
  if s = "." then some [] else (s.splitOn "/").mapM cfParseSeq

def cfParseCall (s : String) : Option Call :=
  if s = "l" then some .readline
  else if s.startsWith "r" then (s.drop 1).toString.toNat?.map .read
  else none

def cfParseCalls (s : String) : Option (List Call) :=
  if s = "." then some [] else (s.splitOn ",").mapM cfParseCall

def cfParseBool (s : String) : Option Bool :=
  if s = "0" then some false else if s = "1" then some true else none

def cfParseOp (s : String) : Option (WOp Nat) :=
  if s = "f" then some .flush
  else if s = "c" then some .close
  else if s = "x" then some .channelClosed
  else if s.startsWith "w:" then (cfParseSeq (s.drop 2).toString).map .write
  else none

def cfParseOps (s : String) : Option (List (WOp Nat)) :=
  if s = "." then some [] else (s.splitOn "/").mapM cfParseOp

def cfShowSeq (l : List Nat) : String :=
  if l.isEmpty then "-" else ",".intercalate (l.map toString)

def cfShowItems (l : List (List Nat)) : String :=
  if l.isEmpty then "." else "/".intercalate (l.map cfShowSeq)

def cfShowBool (b : Bool) : String := if b then "1" else "0"

def cfShowOuts (l : List WOut) : String :=
  if l.isEmpty then "." else ",".intercalate (l.map fun | .ok => "o" | .oserror => "e")

/-- channel-file commands of the driver -/
def chanFileHandle : List String → Option String
  | ["cf.read", pc, c0, items, calls] =>
    match cfParseBool pc, cfParseBool c0, cfParseItems items, cfParseCalls calls with
    | some pc, some c0, some items, some calls =>
      let r := runReader 10 items pc c0 calls
      some s!"ok {cfShowItems r.1} closed={cfShowBool r.2.closed} atend={cfShowBool (decide r.2.atEnd)}"
    | _, _, _, _ => some "bad-op"
  | ["cf.file", data, calls] =>
    match cfParseSeq data, cfParseCalls calls with
    | some data, some calls =>
      let r := runFile 10 data calls
      some s!"ok {cfShowItems r.1} pos={r.2.pos}"
    | _, _ => some "bad-op"
  | ["cf.write", pc, ops] =>
    match cfParseBool pc, cfParseOps ops with
    | some pc, some ops =>
      let r := Writer.run (Writer.init pc) ops
      some s!"ok {cfShowOuts r.1} sent={cfShowItems r.2.sent} closed={cfShowBool r.2.closed}"
    | _, _ => some "bad-op"
  | "cf.read" :: _ => some "bad-op"
  | "cf.file" :: _ => some "bad-op"
  | "cf.write" :: _ => some "bad-op"
  | _ => none

end ExecnetVerif
