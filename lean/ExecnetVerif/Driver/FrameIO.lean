/-
Driver commands for the frame layer (C08, C04 byte level) and the proxy path (C16).
Not part of any theorem: parser/printer only (exercised by the correspondence runs).

  frame.encode <t> <cid> <hex>            -> ok <hex> | err struct
  frame.decode <hex> [k1,k2,...]          -> ok <n> (<t> <cid> <hex>)* <ending>     (contiguous | chunk sizes)
  frame.chunks <hex>*                     -> same; explicit chunks, "-" = a low-level read returning b""
  frame.cut <k> (<t> <cid> <hex>)*        -> same; the *specification* `framesBefore msgs k`
  proxy.down (<t> <cid> <hex>)*           -> ok items=<hex,..> | <n> msgs.. <ending>
  proxy.up (<t> <cid> <hex>)*             -> ok boot=<hex> items=<hex,..> | <n> msgs.. <ending>
  proxy.upstream <hex> [k1,k2,...]        -> same, for an arbitrary sub output (chunk sizes optional)
  proxy.items <hex>*                      -> <n> msgs.. <ending>   (master's from_io loop over arbitrary items)
  proxy.control <code>                    -> ok <op> <result|none> | noreply
-/
import ExecnetVerif.Model.Proxy
namespace ExecnetVerif

def parseMsgs : List String → Option (List Msg)
  | [] => some []
  | t :: c :: h :: rest => do
    let ti ← t.toInt?
    let ci ← c.toInt?
    let b ← ofHex h
    let ms ← parseMsgs rest
    pure (⟨ti, ci, b⟩ :: ms)
  | _ => none

def parseSizes (s : String) : Option (List Nat) :=
  (s.splitOn ",").mapM String.toNat?

def parseHexList (toks : List String) : Option (List Bytes) := toks.mapM ofHex

def renderItems (items : List Bytes) : String :=
  if items.isEmpty then "items=." else "items=" ++ ",".intercalate (items.map toHex)

def renderUp (r : Bytes × List Msg × Ending) (items : List Bytes) : String :=
  s!"ok boot={toHex r.1} {renderItems items} | " ++ (renderDecoded r.2).drop 3

/-- frame and proxy commands of the driver -/
def frameHandle : List String → Option String
  | ["frame.encode", t, c, h] =>
    match t.toInt?, c.toInt?, ofHex h with
    | some ti, some ci, some b =>
      match encodeMsg? ⟨ti, ci, b⟩ with
      | some out => some s!"ok {toHex out}"
      | none => some "err struct"
    | _, _, _ => some "bad-op"
  | ["frame.decode", h] =>
    match ofHex h with
    | some b => some (renderDecoded (decodeStream b))
    | none => some "bad-op"
  | ["frame.decode", h, sizes] =>
    match ofHex h, parseSizes sizes with
    | some b, some ks => some (renderDecoded (decodeStreamChunked (chunkBy ks b)))
    | _, _ => some "bad-op"
  | "rdx.run" :: n :: toks =>
    -- Unserializer._read_exact(n) against the chunks: `ok <hex> rest=<hex of what is left>` | `err <got>`
    match n.toNat?, parseHexList toks with
    | some n, some chunks =>
      match unserReadExact chunks n with
      | .ok (b, rest) => some s!"ok {toHex b} rest={toHex rest.flatten}"
      | .error got => some s!"err {got}"
    | _, _ => some "bad-op"
  | "frame.chunks" :: toks =>
    match parseHexList toks with
    | some chunks => some (renderDecoded (decodeStreamChunked chunks))
    | none => some "bad-op"
  | "frame.cut" :: k :: toks =>
    match k.toNat?, parseMsgs toks with
    | some kk, some ms => if wfMsgs ms then some (renderDecoded (framesBefore ms kk)) else some "err struct"
    | _, _ => some "bad-op"
  | "proxy.down" :: toks =>
    match parseMsgs toks with
    | some ms =>
      if wfMsgs ms then
        some (s!"ok {renderItems (masterItems ms)} | " ++ (renderDecoded (proxyDown ms)).drop 3)
      else some "err struct"
    | none => some "bad-op"
  | "proxy.up" :: toks =>
    match parseMsgs toks with
    | some ms =>
      if wfMsgs ms then some (renderUp (proxyUp ms) (forwarderItems (bootByte :: encodeAll ms)))
      else some "err struct"
    | none => some "bad-op"
  | ["proxy.upstream", h] =>
    match ofHex h with
    | some b => some (renderUp (proxyUpStream b) (forwarderItems b))
    | none => some "bad-op"
  | ["proxy.upstream", h, sizes] =>
    match ofHex h, parseSizes sizes with
    | some b, some ks =>
      let items := forwarderItemsChunked (chunkBy ks b)
      let r := pxRead 1 ⟨none, items⟩
      some (renderUp (r.1, decodeItems r.2) items)
    | _, _ => some "bad-op"
  | "proxy.items" :: toks =>
    match parseHexList toks with
    | some items => some (renderDecoded (decodeItems ⟨none, items⟩))
    | none => some "bad-op"
  | ["proxy.control", c] =>
    match c.toInt? with
    | some code =>
      match rioControl code with
      | some (op, .result) => some s!"ok {op.name} result"
      | some (op, .none) => some s!"ok {op.name} none"
      | none => some "noreply"
    | none => some "bad-op"
  | _ => none

end ExecnetVerif
