/-
L4 `Pool` — thread-level model of `WorkerPool` / `Reply` (src/execnet/gateway_base.py) AFTER the D9 fix
(`Config.old = true` selects the protocol of the pinned tree; it is only used for the documented
counterexample `C09_pinned_counterexample`).

Threads are *agents*: client threads `user i` (they call `spawn`, `trigger_shutdown`, `waitall`,
`Reply.get`; `terminate` = `trigger_shutdown` then `waitall`), the integrated primary thread, and one
worker thread per task that `spawn` started with `execmodel.start`.  A step is the code between two
synchronisation operations (lock acquire / release, event set / clear / wait / is_set, thread start,
begin / end of a task body); `step c s (agent, action)` is `none` when the action is not enabled.  Any
list of steps is a schedule; clients may start any call at any time (the most general client), except that
with `Config.gated` a `spawn` only starts when the bodies of all accepted tasks have ended (the gateway's
submission protocol for `main_thread_only`: `_executetask_complete.wait(); .clear(); spawn`).

Python ↔ model
  `_running_lock` (an RLock, never re-entered)      `lock : Option Agent`
  `_shuttingdown`                                   `shut`
  `_primary_thread_task` / `_primary_thread_task_ready`   `mbox : Option TaskId` / `ready`
  `_running`                                        `running : List TaskId`
  `_waitall_events` + the callers' events           `wreg i` (registered) / `wev i` (set)
  `Reply._result_ready`                             `resultReady` (phase ≥ `resReady`)
  ghost logs                                        `accepted`, `started`, `finished`, `wsnap`, `wshut`
-/
namespace ExecnetVerif.Pool

abbrev TaskId := Nat
abbrev Uid := Nat

def upd {α β : Type} [DecidableEq α] (f : α → β) (k : α) (v : β) : α → β :=
  fun u => if u = k then v else f u

inductive Agent where
  | user (i : Uid)
  | primary
  | worker (t : TaskId)
  deriving DecidableEq, Repr

structure Config where
  /-- `hasprimary=True` and some thread called `integrate_as_primary_thread` -/
  primary : Bool
  /-- `execmodel.backend == "main_thread_only"` -/
  mto : Bool
  /-- spawners follow the gateway's submission protocol -/
  gated : Bool
  /-- the protocol of the pinned tree (before the `fix:` commit) -/
  old : Bool
  deriving DecidableEq, Repr

/-- where an accepted task is -/
inductive TPhase where
  | unused
  | pending    -- in `_running`, its spawner is blocked in `waitfinish()` of the previous mailbox task (lock held)
  | inMbox     -- in the primary thread's mailbox, event set, not yet read
  | inHand     -- read by the primary thread, body not begun
  | created    -- a worker thread was started for it, body not begun
  | body       -- body running
  | ended      -- body returned / raised; `_result_ready` not yet set
  | resReady   -- `_result_ready` set; executor about to take the lock
  | removing   -- executor holds the lock inside `_perform_spawn`
  | done       -- removed from `_running`
  deriving DecidableEq, Repr

inductive UPhase where
  | idle
  | spawnHold (t : TaskId)       -- holds the lock, before the `_shuttingdown` check
  | spawnWait (t m : TaskId)     -- main_thread_only: holds the lock, blocked in `m.waitfinish()`
  | spawnRel (t : TaskId)        -- dispatched, still holds the lock
  | spawnRet (t : TaskId)        -- lock released, `spawn` about to return the Reply
  | refusedRet                   -- lock released, `spawn` about to raise ValueError
  | shutHold
  | shutRet
  | waHold (timed : Bool)
  | waWait (timed : Bool)        -- registered, waiting on its event
  | waRet (r : Bool)
  | getWait (t : TaskId) (timed : Bool)
  | getRet (t : TaskId) (r : Bool)   -- r = false: OSError (timeout)
  deriving DecidableEq, Repr

inductive PPhase where
  | waitReady                -- `primary_thread_task_ready.wait()`
  | readMbox                 -- woke up, about to read `_primary_thread_task`
  | run (t : TaskId)         -- inside `_perform_spawn(reply)`
  | chkAcq (t : TaskId)      -- about to take the lock for the shutdown / clear check
  | chk (t : TaskId)         -- holds the lock for that check
  | left                     -- out of the loop, `integrate_as_primary_thread` about to return
  | gone
  deriving DecidableEq, Repr

structure State where
  lock : Option Agent
  shut : Bool
  mbox : Option TaskId
  ready : Bool
  running : List TaskId
  phase : TaskId → TPhase
  /-- the task was handed to the primary thread (otherwise a worker thread runs it) -/
  prim : TaskId → Bool
  us : Uid → UPhase
  wreg : Uid → Bool
  wev : Uid → Bool
  pp : PPhase
  accepted : List TaskId
  started : List TaskId
  finished : List TaskId
  /-- ghost: tasks accepted when the waitall caller took the lock -/
  wsnap : Uid → List TaskId
  /-- ghost: `_shuttingdown` was already set when the waitall caller took the lock -/
  wshut : Uid → Bool

inductive Action where
  | spawnAcq (t : TaskId) | spawnCheck | spawnWaitfin | spawnRelease | spawnReturn | refusedReturn
  | shutAcq | shutDo | shutReturn
  | waAcq (timed : Bool) | waCheck | waWake | waTimeout | waReturn
  | getCall (t : TaskId) (timed : Bool) | getOk | getTimeout | getReturn
  | tBegin (t : TaskId) | tEnd (t : TaskId) | tSetReady (t : TaskId) | tRemAcq (t : TaskId) | tRemove (t : TaskId)
  | pWait | pRead | pChkAcq | pCheck | pLeave
  deriving DecidableEq, Repr

def init (c : Config) : State where
  lock := none
  shut := false
  mbox := none
  ready := false
  running := []
  phase := fun _ => .unused
  prim := fun _ => false
  us := fun _ => .idle
  wreg := fun _ => false
  wev := fun _ => false
  pp := if c.primary then .waitReady else .gone
  accepted := []
  started := []
  finished := []
  wsnap := fun _ => []
  wshut := fun _ => false

/-- `Reply._result_ready.is_set()` -/
def resultReady (s : State) (t : TaskId) : Bool :=
  match s.phase t with
  | .resReady | .removing | .done => true
  | _ => false

/-- the body of the task has returned or raised -/
def bodyEnded : TPhase → Bool
  | .ended | .resReady | .removing | .done => true
  | _ => false

/-- gateway submission protocol: every accepted task's body has ended -/
def gateOk (c : Config) (s : State) : Bool :=
  !c.gated || s.accepted.all (fun t => bodyEnded (s.phase t))

/-- may agent `a` execute the `_perform_spawn` steps of task `t`? -/
def canExec (s : State) (a : Agent) (t : TaskId) : Bool :=
  match a with
  | .worker u => u == t && !s.prim t
  | .primary => decide (s.pp = .run t)
  | .user _ => false

/-- steps of client thread `i` -/
def userStep (c : Config) (s : State) (i : Uid) : Action → Option State
  -- spawn ------------------------------------------------------------------------------------------
  | .spawnAcq t =>
    -- `t` names the fresh `Reply` object created at the top of `spawn`
    if s.us i = .idle ∧ s.lock = none ∧ s.phase t = .unused ∧ gateOk c s = true then
      some { s with lock := some (.user i), us := upd s.us i (.spawnHold t) }
    else none
  | .spawnCheck =>
    match s.us i with
    | .spawnHold t =>
      if s.shut = true then some { s with lock := none, us := upd s.us i .refusedRet }
      else if c.primary = true ∧ s.ready = false then
        some { s with running := t :: s.running, accepted := s.accepted ++ [t], mbox := some t, ready := true, phase := upd s.phase t .inMbox, prim := upd s.prim t true, us := upd s.us i (.spawnRel t) }
      else match c.primary && c.mto, s.mbox with
        | true, some m =>
          some { s with running := t :: s.running, accepted := s.accepted ++ [t], phase := upd s.phase t .pending, prim := upd s.prim t true, us := upd s.us i (.spawnWait t m) }
        | _, _ =>
          some { s with running := t :: s.running, accepted := s.accepted ++ [t], phase := upd s.phase t .created, prim := upd s.prim t false, us := upd s.us i (.spawnRel t) }
    | _ => none
  | .spawnWaitfin =>
    match s.us i with
    | .spawnWait t m =>
      if resultReady s m = true then
        some { s with mbox := some t, ready := true, phase := upd s.phase t .inMbox, us := upd s.us i (.spawnRel t) }
      else none
    | _ => none
  | .spawnRelease =>
    match s.us i with
    | .spawnRel t => some { s with lock := none, us := upd s.us i (.spawnRet t) }
    | _ => none
  | .spawnReturn =>
    match s.us i with
    | .spawnRet _ => some { s with us := upd s.us i .idle }
    | _ => none
  | .refusedReturn =>
    match s.us i with
    | .refusedRet => some { s with us := upd s.us i .idle }
    | _ => none
  -- trigger_shutdown ---------------------------------------------------------------------------------
  | .shutAcq =>
    if s.us i = .idle ∧ s.lock = none then
      some { s with lock := some (.user i), us := upd s.us i .shutHold }
    else none
  | .shutDo =>
    match s.us i with
    | .shutHold =>
      if c.primary = true ∧ (c.old = true ∨ s.ready = false) then
        some { s with shut := true, mbox := none, ready := true, lock := none, us := upd s.us i .shutRet }
      else some { s with shut := true, lock := none, us := upd s.us i .shutRet }
    | _ => none
  | .shutReturn =>
    match s.us i with
    | .shutRet => some { s with us := upd s.us i .idle }
    | _ => none
  -- waitall --------------------------------------------------------------------------------------------
  | .waAcq timed =>
    if s.us i = .idle ∧ s.lock = none then
      some { s with lock := some (.user i), us := upd s.us i (.waHold timed), wsnap := upd s.wsnap i s.accepted, wshut := upd s.wshut i s.shut }
    else none
  | .waCheck =>
    match s.us i with
    | .waHold timed =>
      if s.running = [] then some { s with lock := none, us := upd s.us i (.waRet true) }
      else some { s with lock := none, wreg := upd s.wreg i true, wev := upd s.wev i false, us := upd s.us i (.waWait timed) }
    | _ => none
  | .waWake =>
    match s.us i with
    | .waWait _ => if s.wev i = true then some { s with us := upd s.us i (.waRet true) } else none
    | _ => none
  | .waTimeout =>
    match s.us i with
    | .waWait true => if s.wev i = false then some { s with us := upd s.us i (.waRet false) } else none
    | _ => none
  | .waReturn =>
    match s.us i with
    | .waRet _ => some { s with us := upd s.us i .idle }
    | _ => none
  -- Reply.get / waitfinish -----------------------------------------------------------------------------
  | .getCall t timed =>
    if s.us i = .idle then some { s with us := upd s.us i (.getWait t timed) } else none
  | .getOk =>
    match s.us i with
    | .getWait t _ => if resultReady s t = true then some { s with us := upd s.us i (.getRet t true) } else none
    | _ => none
  | .getTimeout =>
    match s.us i with
    | .getWait t true => if resultReady s t = false then some { s with us := upd s.us i (.getRet t false) } else none
    | _ => none
  | .getReturn =>
    match s.us i with
    | .getRet _ _ => some { s with us := upd s.us i .idle }
    | _ => none
  | _ => none

/-- `_perform_spawn(reply)` executed by agent `a` (the primary thread or the task's worker thread) -/
def taskStep (s : State) (a : Agent) : Action → Option State
  | .tBegin t =>
    if canExec s a t = true ∧ (s.phase t = .created ∨ s.phase t = .inHand) then
      some { s with phase := upd s.phase t .body, started := s.started ++ [t] }
    else none
  | .tEnd t =>
    if canExec s a t = true ∧ s.phase t = .body then
      some { s with phase := upd s.phase t .ended, finished := s.finished ++ [t] }
    else none
  | .tSetReady t =>
    if canExec s a t = true ∧ s.phase t = .ended then
      some { s with phase := upd s.phase t .resReady }
    else none
  | .tRemAcq t =>
    if canExec s a t = true ∧ s.phase t = .resReady ∧ s.lock = none then
      some { s with phase := upd s.phase t .removing, lock := some a }
    else none
  | .tRemove t =>
    if canExec s a t = true ∧ s.phase t = .removing then
      if s.running.erase t = [] then
        some { s with running := s.running.erase t, phase := upd s.phase t .done, lock := none, pp := if a = .primary then PPhase.chkAcq t else s.pp, wev := fun i => s.wev i || s.wreg i, wreg := fun _ => false }
      else some { s with running := s.running.erase t, phase := upd s.phase t .done, lock := none, pp := if a = .primary then PPhase.chkAcq t else s.pp }
    else none
  | _ => none

/-- the loop of `integrate_as_primary_thread` -/
def primStep (c : Config) (s : State) : Action → Option State
  | .pWait =>
    if s.pp = .waitReady ∧ s.ready = true then some { s with pp := .readMbox } else none
  | .pRead =>
    if s.pp = .readMbox then
      match s.mbox with
      | none => some { s with pp := .left }
      | some t => some { s with pp := .run t, phase := upd s.phase t .inHand }
    else none
  | .pChkAcq =>
    match s.pp with
    | .chkAcq t => if s.lock = none then some { s with lock := some .primary, pp := .chk t } else none
    | _ => none
  | .pCheck =>
    match s.pp with
    | .chk t =>
      if c.old = true then
        if s.shut = true then some { s with lock := none, pp := .left }
        else if s.mbox = some t then some { s with lock := none, ready := false, pp := .waitReady }
        else some { s with lock := none, pp := .waitReady }
      else
        if s.mbox = some t then
          if s.shut = true then some { s with lock := none, pp := .left }
          else some { s with lock := none, ready := false, pp := .waitReady }
        else some { s with lock := none, pp := .waitReady }
    | _ => none
  | .pLeave =>
    if s.pp = .left then some { s with pp := .gone } else none
  | _ => none

def Action.isPrim : Action → Bool
  | .pWait | .pRead | .pChkAcq | .pCheck | .pLeave => true
  | _ => false

def step (c : Config) (s : State) : Agent × Action → Option State
  | (.user i, act) => userStep c s i act
  | (.worker t, act) => taskStep s (.worker t) act
  | (.primary, act) => if act.isPrim then primStep c s act else taskStep s .primary act

/-- steps that are the expiry of a time-out -/
def Action.isTimeout : Action → Bool
  | .waTimeout | .getTimeout => true
  | _ => false

/-- steps by which a client thread starts a new API call (they add work, they are not progress) -/
def Action.isCall : Action → Bool
  | .spawnAcq _ | .shutAcq | .waAcq _ | .getCall _ _ => true
  | _ => false

def runSteps (c : Config) : State → List (Agent × Action) → Option State
  | s, [] => some s
  | s, a :: rest => match step c s a with
    | some s' => runSteps c s' rest
    | none => none

inductive Reachable (c : Config) : State → Prop where
  | init : Reachable c (init c)
  | step {s s' a} : Reachable c s → step c s a = some s' → Reachable c s'

end ExecnetVerif.Pool
