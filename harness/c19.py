"""C19 — channel files behave like files over the concatenated items (DESIGN.md §4 C19).

Reader: the REAL `ChannelFileRead` (from `Channel.makefile('r')`) is run
  * in-process over a real `Channel` of a real `ChannelFactory` on a minimal gateway object (execmodel
    `thread`); items enter through the real message handlers (`Message(CHANNEL_DATA…).received`) and the
    channel ends through the real CHANNEL_CLOSE / CHANNEL_LAST_MESSAGE handlers (ENDMARKER path), and
  * end-to-end over a real `popen` gateway (the remote side sends the items and finishes; and the remote side
    reading what the local side sends),
and judged by `io.StringIO` / `io.BytesIO` over the concatenation (model-free oracle) and compared with the
Lean model (`cf.read`); the Lean reference file (`cf.file`) is compared with `io` as well.

Writer: `makefile('w')` against a real peer channel (in-process pair and popen): one item per write, flush
harmless, write on a closed channel raises OSError, close closes the channel iff proxyclose; compared with
`cf.write`.

A case is a JSON-able dict; element codes are code points (kind "t") or byte values (kind "b").
"""
from __future__ import annotations

import contextlib
import io
import itertools
import signal

from . import common

CASE_TIMEOUT = 5.0  # seconds; a call of the real code that does not return in time is a violation
MAX_HANGS = 3       # after that many the run stops early (each costs CASE_TIMEOUT)


class Hang(BaseException):
    pass


class TooManyHangs(Exception):
    pass


@contextlib.contextmanager
def time_limit(sec):
    def handler(_sig, _frm):
        raise Hang()

    old = signal.signal(signal.SIGALRM, handler)
    signal.setitimer(signal.ITIMER_REAL, sec)
    try:
        yield
    finally:
        signal.setitimer(signal.ITIMER_REAL, 0)
        signal.signal(signal.SIGALRM, old)


# ---------------------------------------------------------------------------------------
# encoding of cases
# ---------------------------------------------------------------------------------------
def to_py(kind, codes):
    return "".join(map(chr, codes)) if kind == "t" else bytes(codes)


def to_codes(value):
    if isinstance(value, str):
        return [ord(c) for c in value]
    return list(value)


def show_seq(codes):
    return ",".join(map(str, codes)) if codes else "-"


def show_items(items):
    return "/".join(show_seq(i) for i in items) if items else "."


def show_calls(calls):
    return ",".join(calls) if calls else "."


def flat(items):
    return [c for it in items for c in it]


# ---------------------------------------------------------------------------------------
# running the real code
# ---------------------------------------------------------------------------------------
class FakeGateway:
    """the minimum a real ChannelFactory / Channel needs from its gateway; `_send` hands each message to the
    peer's real message handler (no byte stream in between)"""

    def __init__(self, gb, startcount=1):
        self.gb = gb
        self.execmodel = gb.get_execmodel("thread")
        self._receivelock = self.execmodel.RLock()
        self._channelfactory = gb.ChannelFactory(self, startcount)
        self.sent = []
        self.peer = None

    def _trace(self, *a):
        pass

    def _send(self, msgcode, channelid=0, data=b""):
        self.sent.append((msgcode, channelid, data))
        if self.peer is not None:
            with self.peer._receivelock:
                self.gb.Message(msgcode, channelid, data).received(self.peer)


def do_calls(f, calls):
    outs = []
    for c in calls:
        try:
            r = f.readline() if c == "l" else f.read(int(c[1:]))
        except Hang:
            outs.append(("hang", c))
            break
        except Exception as e:  # noqa: BLE001 - reported by the oracle
            outs.append(("exc", type(e).__name__, str(e)[:200]))
        else:
            outs.append(("ok", r))
    return outs


def run_reader_inproc(execnet, case):
    gb = execnet.gateway_base
    gw = FakeGateway(gb)
    ch = gw._channelfactory.new()
    M = gb.Message
    for it in case["items"]:
        M(M.CHANNEL_DATA, ch.id, gb.dumps_internal(to_py(case["kind"], it))).received(gw)
    M(M.CHANNEL_CLOSE if case["end"] == "close" else M.CHANNEL_LAST_MESSAGE, ch.id, b"").received(gw)
    closed0 = ch.isclosed()
    f = ch.makefile("r", proxyclose=case["proxyclose"])
    with time_limit(CASE_TIMEOUT):
        outs = do_calls(f, case["calls"])
    closed = ch.isclosed()
    try:
        f.close()
        close_exc = None
    except Exception as e:  # noqa: BLE001
        close_exc = repr(e)
    return dict(outs=outs, closed0=closed0, closed=closed, closed_after_close=ch.isclosed(), close_exc=close_exc,
                sent=len(gw.sent))


REMOTE_SENDER = """
items = channel.receive()
for it in items:
    channel.send(it)
"""

REMOTE_READER = """
rep, data, proxyclose, calls = channel.receive()
f = data.makefile('r', proxyclose=proxyclose)
outs = []
for c in calls:
    try:
        r = f.readline() if c == 'l' else f.read(int(c[1:]))
    except Exception as e:
        outs.append(('exc', type(e).__name__, str(e)[:200]))
    else:
        outs.append(('ok', r))
data.waitclose(10)   # we closed our end right after sending: do not sample isclosed() before that arrived
closed = data.isclosed()
f.close()
rep.send((outs, closed, data.isclosed()))
"""

REMOTE_EXEC_READER = """
rep, proxyclose, calls = channel.receive()
f = channel.makefile('r', proxyclose=proxyclose)
outs = []
for c in calls:
    try:
        r = f.readline() if c == 'l' else f.read(int(c[1:]))
    except Exception as e:
        outs.append(('exc', type(e).__name__, str(e)[:200]))
    else:
        outs.append(('ok', r))
channel.waitclose(10)
rep.send((outs, channel.isclosed(), channel.isclosed()))
"""


def run_reader_e2e(gw, case):
    """mode e2e-local: the remote side sends the items and finishes, the local side reads;
    mode e2e-remote: the local side sends and closes, the remote side reads a passed channel;
    mode e2e-exec: like e2e-remote but the remote side reads the remote_exec channel itself"""
    kind = case["kind"]
    items = [to_py(kind, it) for it in case["items"]]
    with time_limit(3 * CASE_TIMEOUT):
        try:
            if case["mode"] == "e2e-local":
                ch = gw.remote_exec(REMOTE_SENDER)
                f = ch.makefile("r", proxyclose=case["proxyclose"])
                ch.send(items)
                outs = do_calls(f, case["calls"])
                ch.waitclose(CASE_TIMEOUT)  # the remote body finishes right after sending: wait for its CHANNEL_CLOSE
                closed = ch.isclosed()
                f.close()
                return dict(outs=outs, closed0=True, closed=closed, closed_after_close=ch.isclosed(), close_exc=None)
            rep = gw.newchannel()
            if case["mode"] == "e2e-remote":
                ch = gw.remote_exec(REMOTE_READER)
                data = gw.newchannel()
                ch.send((rep, data, case["proxyclose"], case["calls"]))
            else:
                ch = data = gw.remote_exec(REMOTE_EXEC_READER)
                ch.send((rep, case["proxyclose"], case["calls"]))
            for it in items:
                data.send(it)
            data.close()
            try:
                outs, closed, closed2 = rep.receive(CASE_TIMEOUT)
            except rep.TimeoutError:
                return dict(outs=[("hang", "remote")], closed0=True, closed=None, closed_after_close=None, close_exc=None)
            except (rep.RemoteError, EOFError) as e:
                return dict(outs=[("exc", type(e).__name__, str(e)[-200:])], closed0=True, closed=None,
                            closed_after_close=None, close_exc=None)
            with contextlib.suppress(Exception):
                ch.waitclose(CASE_TIMEOUT)
            return dict(outs=[tuple(o) for o in outs], closed0=True, closed=closed, closed_after_close=closed2, close_exc=None)
        except Hang:
            return dict(outs=[("hang", "local")], closed0=True, closed=None, closed_after_close=None, close_exc=None)
        except Exception as e:  # noqa: BLE001 - e.g. waitclose timing out / RemoteError: judged by the oracle
            return dict(outs=[("exc", type(e).__name__, str(e)[-200:])], closed0=True, closed=None,
                        closed_after_close=None, close_exc=None)


# ---------------------------------------------------------------------------------------
# oracle (model-free) and model comparison for the reader
# ---------------------------------------------------------------------------------------
def reference_outputs(case):
    data = to_py(case["kind"], flat(case["items"]))
    ref = io.StringIO(data, newline="\n") if case["kind"] == "t" else io.BytesIO(data)
    return [ref.readline() if c == "l" else ref.read(int(c[1:])) for c in case["calls"]]


EXEC_CLOSE_TEXT = "cannot explicitly close channel within remote_exec"


def classify_reader(case, obs):
    """known finding: a reader with proxyclose=True on the worker side of the remote_exec channel itself
    raises OSError when it reaches the end (Channel.close() refuses while the body is executing)"""
    if case.get("mode") == "e2e-exec" and case["proxyclose"]:
        excs = [o for o in obs["outs"] if o[0] == "exc"]
        if excs and all(o[1] == "OSError" and EXEC_CLOSE_TEXT in o[2] for o in excs):
            return "C19-proxyclose-on-exec-channel"
    return None


def judge_reader(case, obs):
    """returns a description of what violates the property, or None"""
    exp = reference_outputs(case)
    outs = obs["outs"]
    for i, o in enumerate(outs):
        if o[0] == "hang":
            return "call %d (%s) did not return within %.0f s" % (i, case["calls"][i] if i < len(case["calls"]) else "?", CASE_TIMEOUT)
        if o[0] == "exc":
            return "call %d (%s) raised %s: %s (file returns %r)" % (i, case["calls"][i], o[1], o[2], exp[i])
        got = o[1]
        if got != exp[i] or type(got) is not type(exp[i]):
            # zero items: the empty concatenation has no type; "" is the empty result for both kinds
            if not case["items"] and len(got) == 0 and len(exp[i]) == 0 and isinstance(got, (str, bytes)):
                continue
            return "call %d (%s) returned %r, the file over the concatenation returns %r" % (i, case["calls"][i], got, exp[i])
    if len(outs) != len(exp):
        return "only %d of %d calls answered" % (len(outs), len(exp))
    if obs.get("close_exc"):
        return "close() raised " + obs["close_exc"]
    if obs["closed"] is not None:
        if not case["proxyclose"] and obs["closed"] != obs["closed0"]:
            return "reading changed channel.isclosed() from %r to %r without proxyclose" % (obs["closed0"], obs["closed"])
        if obs["closed_after_close"] != (obs["closed"] or case["proxyclose"]):
            return "close(): channel closed=%r with proxyclose=%r (was %r)" % (obs["closed_after_close"], case["proxyclose"], obs["closed"])
    return None


def impl_line(case, obs):
    """canonical line of the implementation's behaviour, same format as the driver's `cf.read` answer
    (without atend)"""
    outs = []
    for o in obs["outs"]:
        if o[0] != "ok" or not isinstance(o[1], (str, bytes)):
            return "err " + str(o[0]) + " " + str(o[1])
        outs.append(to_codes(o[1]))
    return "ok %s closed=%s" % (show_items(outs), "?" if obs["closed"] is None else int(obs["closed"]))


def model_lines(case, closed0):
    return ["cf.read %d %d %s %s" % (case["proxyclose"], closed0, show_items(case["items"]), show_calls(case["calls"])),
            "cf.file %s %s" % (show_seq(flat(case["items"])), show_calls(case["calls"]))]


def case_stats(res, case, exp):
    res.stat("kind_" + case["kind"])
    res.stat("end_" + case["end"])
    res.stat("items", len(case["items"]))
    res.stat("empty_items", sum(1 for it in case["items"] if not it))
    pos = 0
    bounds = set(itertools.accumulate(len(it) for it in case["items"]))
    for c, e in zip(case["calls"], exp):
        if c == "l":
            res.stat("call_readline")
            if not e:
                res.stat("readline_at_end")
            elif to_codes(e)[-1] != 10:
                res.stat("readline_unterminated_last_line")
            if any(pos < b < pos + len(e) for b in bounds):
                res.stat("readline_across_item_boundary")
        else:
            n = int(c[1:])
            res.stat("call_read")
            if n == 0:
                res.stat("read_0")
            if len(e) < n:
                res.stat("read_short_or_at_end")
            if any(pos < b < pos + len(e) for b in bounds):
                res.stat("read_across_item_boundary")
        pos += len(e)


class Batch:
    """collects reader cases, asks the driver once"""

    def __init__(self, ctx, res):
        self.ctx = ctx
        self.res = res
        self.pending = []

    def add(self, case, obs, exp):
        self.pending.append((case, obs, exp))

    def flush(self):
        lines = []
        for case, obs, _ in self.pending:
            lines += model_lines(case, int(bool(obs["closed0"])))
        outs = self.ctx.driver.ask(lines)
        for k, (case, obs, exp) in enumerate(self.pending):
            m_read, m_file = outs[2 * k], outs[2 * k + 1]
            impl = impl_line(case, obs)
            model = " ".join(t for t in m_read.split(" ") if not t.startswith("atend="))
            if impl.endswith("closed=?"):
                model = model.rsplit(" ", 1)[0] + " closed=?"
            if impl != model:
                self.res.mismatches.append(dict(op="cf.read", case=case, impl=impl[:300], model=model[:300]))
            else:
                self.res.traces += 1
            ref = "ok " + show_items([to_codes(e) for e in exp])
            if m_file.rsplit(" ", 1)[0] != ref:
                self.res.mismatches.append(dict(op="cf.file", case=case, impl="io: " + ref[:300], model=m_file[:300]))
        self.pending = []


def check_reader(ctx, res, batch, case, gw=None, shrink=True):
    execnet = ctx.execnet
    case.setdefault("mode", "inproc")
    res.count(("reader", case["mode"], case["kind"], case["items"], case["calls"], case["proxyclose"], case["end"]),
              nontrivial=bool(flat(case["items"])) and bool(case["calls"]))
    obs = run_reader_inproc(execnet, case) if case["mode"] == "inproc" else run_reader_e2e(gw, case)
    exp = reference_outputs(case)
    case_stats(res, case, exp)
    what = judge_reader(case, obs)
    if what is not None:
        finding = classify_reader(case, obs)
        hung = any(o[0] == "hang" for o in obs["outs"])
        if hung:
            res.stat("hangs")
        if finding is None and shrink and not hung and case["mode"] == "inproc" and len(res.violations) < 3:
            case = shrink_reader(execnet, case)
            obs = run_reader_inproc(execnet, case)
            what = judge_reader(case, obs) or what
        res.violations.append(dict(case=case, what=what, impl=[list(map(repr, o)) for o in obs["outs"]][:12], finding=finding))
        if finding is not None:
            return
        if res.stats.get("hangs", 0) >= MAX_HANGS:
            raise TooManyHangs()
    batch.add(case, obs, reference_outputs(case))


def shrink_reader(execnet, case, limit=600):
    """greedy minimisation of a failing in-process reader case (oracle only)"""

    def fails(c):
        try:
            return judge_reader(c, run_reader_inproc(execnet, c)) is not None
        except Exception:  # noqa: BLE001
            return False

    def variants(c):
        for i in range(len(c["calls"])):
            yield dict(c, calls=c["calls"][:i] + c["calls"][i + 1:])
        for i in range(len(c["items"])):
            yield dict(c, items=c["items"][:i] + c["items"][i + 1:])
        for i in range(len(c["items"]) - 1):
            yield dict(c, items=c["items"][:i] + [c["items"][i] + c["items"][i + 1]] + c["items"][i + 2:])
        for i, it in enumerate(c["items"]):
            for j in range(len(it)):
                yield dict(c, items=c["items"][:i] + [it[:j] + it[j + 1:]] + c["items"][i + 1:])
        for i, it in enumerate(c["items"]):
            for j, code in enumerate(it):
                if code not in (97, 10):
                    yield dict(c, items=c["items"][:i] + [it[:j] + [97] + it[j + 1:]] + c["items"][i + 1:])
        for i, cl in enumerate(c["calls"]):
            if cl != "l" and int(cl[1:]) > 0:
                n = int(cl[1:])
                for m in {n // 2, n - 1}:
                    yield dict(c, calls=c["calls"][:i] + ["r%d" % m] + c["calls"][i + 1:])
        if c["proxyclose"]:
            yield dict(c, proxyclose=False)
        if c["end"] != "close":
            yield dict(c, end="close")

    budget = limit
    progress = True
    while progress and budget > 0:
        progress = False
        for v in variants(case):
            budget -= 1
            if budget <= 0:
                break
            if fails(v):
                case = v
                progress = True
                break
    return case


# ---------------------------------------------------------------------------------------
# generators
# ---------------------------------------------------------------------------------------
ALPHA = {
    "t": [97, 98, 10, 10, 10, 13, 32, 0xE9, 0x20AC, 0x1D11E, 120],
    "b": [97, 98, 10, 10, 10, 13, 0, 0xFF, 0xC3, 120],
}


def gen_string(rng, kind, length):
    return [rng.choice(ALPHA[kind]) for _ in range(length)]


def all_splits(codes):
    """all 2^(len-1) splits into non-empty items (the single split of the empty string: no item)"""
    n = len(codes)
    if n == 0:
        yield []
        return
    for mask in range(1 << (n - 1)):
        items, start = [], 0
        for i in range(1, n):
            if mask >> (i - 1) & 1:
                items.append(codes[start:i])
                start = i
        items.append(codes[start:])
        yield items


def random_split(rng, codes, allow_empty=True):
    n = len(codes)
    k = rng.choice([0, 1, 2, 3, rng.randint(0, max(0, n - 1))]) if n > 1 else 0
    cuts = sorted(rng.sample(range(1, n), min(k, n - 1))) if n > 1 else []
    items = [codes[a:b] for a, b in zip([0] + cuts, cuts + [n])] if n else []
    if allow_empty:
        items = add_empties(rng, items, rng.choice([0, 0, 1, 2, 3]))
    return items


def add_empties(rng, items, k):
    items = list(items)
    for _ in range(k):
        items.insert(rng.randint(0, len(items)), [])
    return items


def gen_calls(rng, total, maxcalls=7):
    calls = []
    for _ in range(rng.randint(1, maxcalls)):
        if rng.random() < 0.4:
            calls.append("l")
        else:
            n = rng.choice([0, 1, 1, 2, 3, total, total + 1, rng.randint(0, total + 2), rng.randint(0, max(1, total // 2))])
            calls.append("r%d" % n)
    if rng.random() < 0.5:
        calls += rng.choice([["l"], ["r%d" % (total + 1)], ["l", "l"], ["r1", "l"], ["r%d" % (total + 3), "r0", "l"]])
    return calls


def mk_case(rng, kind, items, calls, origin, **kw):
    case = dict(kind=kind, items=[list(i) for i in items], calls=list(calls),
                proxyclose=rng.random() < 0.5, end=rng.choice(["close", "last"]), origin=origin)
    case.update(kw)
    return case


# minimised past failures (run first)
CORPUS = [
    # D15: readline() on bytes items compared with the str "\n"
    dict(kind="b", items=[[97, 98, 10, 99, 100, 10], [101, 102]], calls=["l", "l", "l", "l"], proxyclose=False, end="close"),
    dict(kind="b", items=[[97, 98], [10], [99, 100]], calls=["r2", "l", "l", "l"], proxyclose=False, end="close"),
    dict(kind="b", items=[[10]], calls=["l", "l"], proxyclose=True, end="last"),
    dict(kind="b", items=[[97]], calls=["r0", "l"], proxyclose=False, end="last"),
    # the same shapes on text items, newline split off into its own item, empty items, zero items
    dict(kind="t", items=[[97, 98, 10, 99, 100, 10], [101, 102]], calls=["l", "l", "l", "l"], proxyclose=False, end="close"),
    dict(kind="t", items=[[], [97], [], [98, 10], [10, 99]], calls=["r0", "r1", "l", "r3", "l", "r2"], proxyclose=True, end="last"),
    dict(kind="t", items=[], calls=["r3", "l", "r0"], proxyclose=True, end="last"),
    dict(kind="b", items=[], calls=["r3", "l", "r0"], proxyclose=False, end="close"),
    dict(kind="b", items=[[]], calls=["l", "r1"], proxyclose=True, end="last"),
    dict(kind="t", items=[[0x1D11E, 13], [10, 0xE9]], calls=["r1", "l", "l"], proxyclose=False, end="close"),
    dict(kind="t", items=[[97, 98]], calls=["r2", "r0"], proxyclose=True, end="last"),   # exactly consumed: not yet closed
    dict(kind="t", items=[[97, 98]], calls=["r3"], proxyclose=True, end="last"),         # short read: closed
]


def small_scope(ctx, res, batch):
    """truly exhaustive block: every string over {a, newline} of length ≤ 3 × every split into non-empty items
    (plus one variant with an empty item in every position) × every call sequence of length ≤ 2 over
    {read 0, read 1, read 2, read 4, readline}, both kinds"""
    calls_alpha = ["r0", "r1", "r2", "r4", "l"]
    seqs = [[]] + [[a] for a in calls_alpha] + [[a, b] for a in calls_alpha for b in calls_alpha]
    rng = ctx.rng("small-scope")
    for kind in ("t", "b"):
        for length in range(4):
            for codes in itertools.product([97, 10], repeat=length):
                for items in all_splits(list(codes)):
                    variants = [items] + [items[:i] + [[]] + items[i:] for i in range(len(items) + 1)]
                    for its in variants:
                        for calls in seqs:
                            check_reader(ctx, res, batch, mk_case(rng, kind, its, calls, "small-scope"))
                            res.stat("small_scope_cases")


def reader_phase(ctx, res):
    batch = Batch(ctx, res)
    rng = ctx.rng("reader")
    for c in CORPUS:
        check_reader(ctx, res, batch, dict(c, origin="corpus"))
        res.sample(dict(c, origin="corpus"))
    batch.flush()
    small_scope(ctx, res, batch)
    batch.flush()
    # strings of length ≤ 8: ALL splits into non-empty items, each with its own random call sequence,
    # plus (30 %) a variant with empty items inserted
    nsmall = ctx.budget(600, 6000, 2000)
    for i in range(nsmall):
        kind = "tb"[i % 2]
        codes = gen_string(rng, kind, rng.choice([0, 1, 2, 3, 4, 5, 6, 7, 8, 8]))
        for items in all_splits(codes):
            check_reader(ctx, res, batch, mk_case(rng, kind, items, gen_calls(rng, len(codes)), "all-splits"))
            res.stat("all_splits_cases")
            if rng.random() < 0.3:
                its = add_empties(rng, items, rng.randint(1, 3))
                check_reader(ctx, res, batch, mk_case(rng, kind, its, gen_calls(rng, len(codes)), "all-splits+empty"))
        if i < 4:
            res.sample(mk_case(rng, kind, list(all_splits(codes))[-1], gen_calls(rng, len(codes)), "all-splits"))
        if len(batch.pending) > 20000:
            batch.flush()
    batch.flush()
    # longer strings, random splits incl. empty items, longer call sequences
    nlarge = ctx.budget(10000, 150000, 40000)
    maxlen = 300 if ctx.thorough else 80
    for i in range(nlarge):
        kind = "tb"[i % 2]
        length = rng.choice([9, 12, 20, rng.randint(9, maxlen)])
        codes = gen_string(rng, kind, length)
        items = random_split(rng, codes)
        check_reader(ctx, res, batch, mk_case(rng, kind, items, gen_calls(rng, length, maxcalls=14), "random-split"))
        res.stat("random_split_cases")
        if len(batch.pending) > 20000:
            batch.flush()
    batch.flush()


def e2e_reader_phase(ctx, res, gw):
    batch = Batch(ctx, res)
    rng = ctx.rng("e2e-reader")
    n = ctx.budget(150, 1500, 400)
    cases = [dict(c, origin="corpus") for c in CORPUS]
    for i in range(n):
        kind = "tb"[i % 2]
        length = rng.choice([0, 1, 3, 8, rng.randint(0, 40)])
        codes = gen_string(rng, kind, length)
        cases.append(mk_case(rng, kind, random_split(rng, codes), gen_calls(rng, length), "e2e"))
    for i, c in enumerate(cases):
        mode = ("e2e-local", "e2e-remote")[i % 2]
        # the peer closes (local) / we close (remote): the reader's channel is closed, not merely ended
        check_reader(ctx, res, batch, dict(c, mode=mode, end="close"), gw=gw)
        res.stat("cases_" + mode)
    # the remote_exec channel itself read on the worker side: fine without proxyclose …
    for kind in ("t", "b"):
        c = dict(kind=kind, items=[[120, 121], [122, 10, 97]], calls=["r2", "l", "r2", "r1", "l"], origin="e2e-exec",
                 mode="e2e-exec", end="close")
        check_reader(ctx, res, batch, dict(c, proxyclose=False), gw=gw)
        # … with proxyclose the end of the channel raises OSError (known finding)
        check_reader(ctx, res, batch, dict(c, proxyclose=True), gw=gw)
        res.stat("cases_e2e-exec", 2)
    batch.flush()


# ---------------------------------------------------------------------------------------
# writer
# ---------------------------------------------------------------------------------------
def show_ops(kind, ops):
    return "/".join(("w:" + show_seq(o[1])) if o[0] == "w" else o[0] for o in ops) if ops else "."


def run_writer_inproc(execnet, case):
    """a real pair of channels (same id) on two gateway objects wired back to back"""
    gb = execnet.gateway_base
    a, b = FakeGateway(gb, 1), FakeGateway(gb, 2)
    a.peer, b.peer = b, a
    ch = a._channelfactory.new()
    peer = b._channelfactory.new(ch.id)
    got = []
    END = object()
    peer.setcallback(got.append, endmarker=END)
    f = ch.makefile("w", proxyclose=case["proxyclose"])
    outs, problems = [], []
    with time_limit(CASE_TIMEOUT):
        try:
            for op in case["ops"]:
                before_closed, before_n = ch.isclosed(), len(got)
                if op[0] == "w":
                    x = to_py(case["kind"], op[1])
                    try:
                        r = f.write(x)
                    except OSError:
                        outs.append("e")
                        if not before_closed:
                            problems.append("write on an open channel raised OSError")
                        if len(got) != before_n:
                            problems.append("refused write delivered something")
                    except Exception as e:  # noqa: BLE001
                        outs.append("x")
                        problems.append("write raised %r" % (e,))
                    else:
                        outs.append("o")
                        if before_closed:
                            problems.append("write on a closed channel did not raise OSError")
                        new = got[before_n:]
                        if len(new) != 1 or new[0] != x or type(new[0]) is not type(x):
                            problems.append("write(%r) delivered %r instead of exactly that item" % (x, new))
                        if r is not None and r != len(x):
                            problems.append("write returned %r" % (r,))
                elif op[0] == "f":
                    r = f.flush()
                    outs.append("o")
                    if r is not None or ch.isclosed() != before_closed or len(got) != before_n:
                        problems.append("flush had an effect")
                elif op[0] == "c":
                    f.close()
                    outs.append("o")
                    if ch.isclosed() != (before_closed or case["proxyclose"]):
                        problems.append("close(): channel closed=%r with proxyclose=%r (was %r)" % (ch.isclosed(), case["proxyclose"], before_closed))
                    if len(got) != before_n + (1 if (ch.isclosed() and not before_closed) else 0):
                        problems.append("close() delivered data or no end marker")
                else:  # channel closed by the peer
                    peer.close()
                    outs.append("o")
                    if not ch.isclosed():
                        problems.append("peer close did not close the channel")
        except Hang:
            problems.append("operation did not return within %.0f s" % CASE_TIMEOUT)
    items = [g for g in got if g is not END]
    return dict(outs=outs, sent=items, closed=ch.isclosed(), problems=problems)


def check_writer(ctx, res, pending, case):
    res.count(("writer", case["kind"], case["ops"], case["proxyclose"]), nontrivial=any(o[0] == "w" for o in case["ops"]))
    obs = run_writer_inproc(ctx.execnet, case)
    for o in case["ops"]:
        res.stat("wop_" + o[0])
    res.stat("write_refused", obs["outs"].count("e"))
    if obs["problems"]:
        res.violations.append(dict(case=dict(case, mode="writer"), what=obs["problems"][0], impl=obs["outs"], finding=None))
    if any(not isinstance(s, (str, bytes)) for s in obs["sent"]):
        impl = "err non-sequence item delivered"
    else:
        impl = "ok %s sent=%s closed=%d" % (",".join(obs["outs"]) if obs["outs"] else ".",
                                            show_items([to_codes(s) for s in obs["sent"]]), obs["closed"])
    pending.append((case, impl))


def flush_writer(ctx, res, pending):
    outs = ctx.driver.ask(["cf.write %d %s" % (c["proxyclose"], show_ops(c["kind"], c["ops"])) for c, _ in pending])
    for (case, impl), model in zip(pending, outs):
        if impl != model:
            res.mismatches.append(dict(op="cf.write", case=dict(case, mode="writer"), impl=impl[:300], model=model[:300]))
        else:
            res.traces += 1
    del pending[:]


WRITER_CORPUS = [
    dict(kind="t", proxyclose=True, ops=[["w", [104, 105, 10]], ["f"], ["w", []], ["c"], ["w", [120]]]),
    dict(kind="b", proxyclose=False, ops=[["w", [104]], ["c"], ["w", [105]], ["x"], ["w", [106]], ["f"]]),
    dict(kind="b", proxyclose=True, ops=[["c"], ["c"], ["w", []]]),
    dict(kind="t", proxyclose=False, ops=[["x"], ["f"], ["w", [97]], ["c"]]),
]


def writer_phase(ctx, res):
    rng = ctx.rng("writer")
    pending = []
    for c in WRITER_CORPUS:
        check_writer(ctx, res, pending, dict(c, origin="corpus"))
    for i in range(ctx.budget(1500, 40000, 6000)):
        kind = "tb"[i % 2]
        ops = []
        for _ in range(rng.randint(1, 9)):
            r = rng.random()
            if r < 0.6:
                ops.append(["w", gen_string(rng, kind, rng.choice([0, 1, 2, 5, rng.randint(0, 30)]))])
            elif r < 0.75:
                ops.append(["f"])
            elif r < 0.92:
                ops.append(["c"])
            else:
                ops.append(["x"])
        check_writer(ctx, res, pending, dict(kind=kind, proxyclose=rng.random() < 0.5, ops=ops, origin="gen"))
    flush_writer(ctx, res, pending)


REMOTE_COLLECTOR = """
rep = channel.receive()
got = []
try:
    while 1:
        got.append(channel.receive())
except EOFError:
    pass
rep.send(got)
"""

REMOTE_WRITER = """
rep, data, proxyclose, items = channel.receive()
f = data.makefile('w', proxyclose=proxyclose)
for it in items:
    f.write(it)
    f.flush()
f.close()
closed = data.isclosed()
try:
    f.write(items[0] if items else '')
    late = 'accepted'
except OSError:
    late = 'OSError'
if not closed:
    data.close()
rep.send((closed, late))
"""


def e2e_writer_case(ctx, res, gw, case):
    """over a real popen gateway, both directions"""
    kind = case["kind"]
    items = [to_py(kind, it) for it in case["items"]]
    pc = case["proxyclose"]
    res.count(("e2e-writer", case["mode"], kind, case["items"], pc), nontrivial=bool(items))
    res.stat("cases_" + case["mode"])
    problems = []
    with time_limit(3 * CASE_TIMEOUT):
        try:
            if case["mode"] == "e2e-writer-local":
                ch = gw.remote_exec(REMOTE_COLLECTOR)
                rep = gw.newchannel()
                ch.send(rep)
                f = ch.makefile("w", proxyclose=pc)
                for it in items:
                    f.write(it)
                    f.flush()
                f.close()
                if ch.isclosed() != pc:
                    problems.append("close(): channel closed=%r with proxyclose=%r" % (ch.isclosed(), pc))
                late = []
                if not ch.isclosed():
                    late = [to_py(kind, [122])]
                    f.write(late[0])  # still accepted: the channel is open
                    ch.close()
                try:
                    f.write(to_py(kind, [33]))
                    problems.append("write on a closed channel did not raise OSError")
                except OSError:
                    pass
                got = rep.receive(CASE_TIMEOUT)
                if got != items + late or [type(g) for g in got] != [type(x) for x in items + late]:
                    problems.append("peer received %r for writes %r" % (got, items + late))
            else:
                ch = gw.remote_exec(REMOTE_WRITER)
                rep, data = gw.newchannel(), gw.newchannel()
                ch.send((rep, data, pc, items))
                got = []
                with contextlib.suppress(EOFError):
                    while 1:
                        got.append(data.receive(CASE_TIMEOUT))
                closed, late = rep.receive(CASE_TIMEOUT)
                if closed != pc:
                    problems.append("remote close(): channel closed=%r with proxyclose=%r" % (closed, pc))
                if late != ("OSError" if pc else "accepted"):
                    problems.append("remote write after close(): %s with proxyclose=%r" % (late, pc))
                exp = items + ([] if pc else [items[0] if items else ""])
                if got != exp or [type(g) for g in got] != [type(x) for x in exp]:
                    problems.append("received %r for remote writes %r" % (got, exp))
        except Hang:
            problems.append("operation did not return in time")
        except Exception as e:  # noqa: BLE001
            problems.append("raised %r" % (e,))
    if problems:
        res.violations.append(dict(case=case, what=problems[0], finding=None))
    else:
        res.traces += 1


def e2e_writer_phase(ctx, res, gw):
    rng = ctx.rng("e2e-writer")
    for i in range(ctx.budget(24, 300, 80)):
        kind = "tb"[i % 2]
        items = [gen_string(rng, kind, rng.choice([0, 1, 5, rng.randint(0, 50)])) for _ in range(rng.randint(0, 5))]
        case = dict(mode=("e2e-writer-local", "e2e-writer-remote")[(i // 2) % 2], kind=kind, items=items,
                    proxyclose=bool((i // 4) % 2), origin="e2e")
        e2e_writer_case(ctx, res, gw, case)


# ---------------------------------------------------------------------------------------
# entry points
# ---------------------------------------------------------------------------------------
RULE = (
    "reader: text AND bytes strings over a newline-heavy alphabet (\\n \\r NUL 0xff, non-ASCII / astral code points); "
    "(1) a frozen corpus (D15 shapes first); (2) small scope, enumerated completely: every string over {a,\\n} of length ≤ 3 × "
    "every split into non-empty items and every single insertion of an empty item × every call sequence of length ≤ 2 over "
    "{read 0,1,2,4, readline}; (3) for every generated string of length ≤ 8 ALL 2^(len-1) splits into non-empty items "
    "(exhaustive in the split; 30 % additionally with 1-3 empty items), each with a fresh random call sequence; (4) strings up to "
    "80 (thorough 300) elements with random splits incl. empty items and up to 14 calls; read sizes from {0,1,2,3,len,len+1,random}, "
    "40 % readline, half of the sequences continue past the end; proxyclose and end kind (CHANNEL_CLOSE / CHANNEL_LAST_MESSAGE) random; "
    "each case on the real ChannelFileRead over an in-process real Channel (real message handlers, ENDMARKER path), a subset over a real "
    "popen gateway in both directions; oracle io.StringIO(newline='\\n') / io.BytesIO over the concatenation, type-exact. "
    "writer: random histories of write/flush/close/peer-close on makefile('w') against a real peer channel (in-process pair; popen both "
    "directions). distinct = distinct (kind, items, calls/ops, proxyclose, end); non-trivial = non-empty data and at least one call "
    "(reader) / at least one write (writer)"
)


def run(ctx):
    res = common.Result()
    res.rule = RULE
    res.exhaustive = True  # parts (2) and the split dimension of (3), see rule
    res.assumptions = [
        "C19: a zero-item channel has no element type; the empty str returned by read()/readline() then counts as the empty result for bytes too",
        "C19: 'write after close' is read as write on a closed channel (file.close() without proxyclose leaves channel and file usable, as coded)",
        "C19: negative read sizes, mixed str/bytes items, RemoteError endings and concurrent readers are outside the property",
    ]
    group = ctx.execnet.Group()
    try:
        reader_phase(ctx, res)
        writer_phase(ctx, res)
        gw = group.makegateway("popen")
        e2e_reader_phase(ctx, res, gw)
        e2e_writer_phase(ctx, res, gw)
    except TooManyHangs:
        res.stat("stopped_early_after_hangs")
    finally:
        group.terminate(timeout=3.0)
    return res


def search(ctx, prev):
    return run(ctx)


def replay(ctx, payload):
    res = common.Result()
    res.rule = "replay of one recorded case"
    case = payload["case"]
    mode = case.get("mode", "inproc")
    if mode == "inproc":
        batch = Batch(ctx, res)
        check_reader(ctx, res, batch, dict(case), shrink=False)
        batch.flush()
    elif mode == "writer":
        pending = []
        check_writer(ctx, res, pending, dict(case))
        flush_writer(ctx, res, pending)
    else:
        group = ctx.execnet.Group()
        try:
            gw = group.makegateway("popen")
            if mode.startswith("e2e-writer"):
                e2e_writer_case(ctx, res, gw, dict(case))
            else:
                batch = Batch(ctx, res)
                check_reader(ctx, res, batch, dict(case), gw=gw, shrink=False)
                batch.flush()
        finally:
            group.terminate(timeout=3.0)
    return res
