"""Shared machinery of the execnet verification checks.

Everything here is run with /venv/bin/python and PYTHONPATH=<repo>/src (the `check` script
arranges that); see DESIGN.md §1.4 for the flow of one check run.
"""
from __future__ import annotations

import fcntl
import hashlib
import json
import os
import random
import re
import subprocess
import sys
import time

VERIF = os.path.dirname(os.path.dirname(os.path.abspath(__file__)))
REPO = os.environ.get("EXECNET_REPO", "/repo")
LEAN = os.path.join(VERIF, "lean")
DRIVER = os.path.join(LEAN, ".lake", "build", "bin", "driver")
ALLOWED_AXIOMS = {"propext", "Classical.choice", "Quot.sound"}
FORBIDDEN = re.compile(
    r"\bsorry\b|\badmit\b|^\s*axiom\s|native_decide|bv_decide|implemented_by|\bunsafe\s|maxHeartbeats\s+0"
)
TRUSTED_BASE = [
    "Lean 4.33.0 kernel (thorough tier: re-checked by leanchecker)",
    "axioms allowed: propext, Classical.choice, Quot.sound (audited by #print axioms on every run)",
    "hand-written Lean model tied to /repo by the correspondence harness of this check (generators, canonicalisers)",
    "translator/extract.py (constants and tables regenerated from /repo on every run)",
    "Lean compiler + C toolchain that build the native model driver",
]


class ToolFailure(Exception):
    """The machinery itself failed (exit 2, never a VIOLATION)."""


def import_execnet():
    """Import execnet from the repository under test (not from site-packages)."""
    src = os.path.join(REPO, "src")
    if sys.path[0] != src:
        sys.path.insert(0, src)
    import execnet

    real = os.path.realpath(execnet.__file__)
    if not real.startswith(os.path.realpath(src) + os.sep):
        raise ToolFailure(f"execnet imported from {real}, expected under {src}")
    # RemoteError.warn() only prints "[pid] Warning: unhandled RemoteError ..." to stderr (in THIS process; child
    # gateways are untouched): keep the check's output readable
    if os.environ.get("VERIF_KEEP_WARNINGS") != "1":
        execnet.gateway_base.RemoteError.warn = lambda self: None
    return execnet


def scratch_dir(tag: str) -> str:
    base = os.environ.get("VERIF_SCRATCH", "/var/tmp")
    d = os.path.join(base, f"execnet-verif-{os.getpid()}-{tag}")
    os.makedirs(d, exist_ok=True)
    return d


# ---------------------------------------------------------------------------------------
# build + audit
# ---------------------------------------------------------------------------------------
class BuildLock:
    def __enter__(self):
        os.makedirs(os.path.join(LEAN, ".lake"), exist_ok=True)
        self.f = open(os.path.join(LEAN, ".lake", "verif.lock"), "w")
        fcntl.flock(self.f, fcntl.LOCK_EX)
        return self

    def __exit__(self, *a):
        fcntl.flock(self.f, fcntl.LOCK_UN)
        self.f.close()


def run_cmd(cmd, cwd=None, timeout=1800, env=None):
    p = subprocess.run(
        cmd, cwd=cwd, stdout=subprocess.PIPE, stderr=subprocess.STDOUT, timeout=timeout, env=env
    )
    return p.returncode, p.stdout.decode("utf-8", "replace")


def run_translator():
    """Regenerate lean/ExecnetVerif/Generated/*.lean from the current source of REPO."""
    rc, out = run_cmd(
        ["/venv/bin/python", os.path.join(VERIF, "translator", "extract.py"), REPO, LEAN]
    )
    return rc == 0, out


def build_driver():
    with BuildLock():
        rc, out = run_cmd(["lake", "build", "driver"], cwd=LEAN)
    if rc != 0 or not os.path.exists(DRIVER):
        raise ToolFailure("lake build driver failed:\n" + out[-3000:])


def build_module(module: str):
    with BuildLock():
        rc, out = run_cmd(["lake", "build", module], cwd=LEAN)
    return rc == 0, out


def audit_sources():
    """grep the Lean sources for constructs that would void a proof."""
    hits = []
    for root, _dirs, files in os.walk(os.path.join(LEAN, "ExecnetVerif")):
        for fn in files:
            if not fn.endswith(".lean"):
                continue
            path = os.path.join(root, fn)
            in_block = 0
            for ln, line in enumerate(open(path, encoding="utf-8"), 1):
                code = line
                # strip block comments (coarse, nesting-aware enough for our files) and line comments
                out = []
                i = 0
                while i < len(code):
                    if code.startswith("/-", i):
                        in_block += 1
                        i += 2
                    elif code.startswith("-/", i) and in_block:
                        in_block -= 1
                        i += 2
                    elif in_block:
                        i += 1
                    elif code.startswith("--", i):
                        break
                    else:
                        out.append(code[i])
                        i += 1
                code = "".join(out)
                if FORBIDDEN.search(code):
                    hits.append(f"{os.path.relpath(path, LEAN)}:{ln}: {line.strip()}")
    return hits


def print_axioms(module: str, theorems: list[str]):
    """Return {theorem: set(axioms) | None (missing / error)} using `#print axioms`."""
    d = os.path.join(LEAN, ".lake", "axioms")
    os.makedirs(d, exist_ok=True)
    path = os.path.join(d, module.split(".")[-1] + f"-{os.getpid()}.lean")
    with open(path, "w") as f:
        f.write(f"import {module}\n")
        for t in theorems:
            f.write(f"#print axioms {t}\n")
    try:
        rc, out = run_cmd(["lake", "env", "lean", path], cwd=LEAN)
    finally:
        os.unlink(path)
    res: dict[str, set[str] | None] = {t: None for t in theorems}
    # outputs may wrap over several lines: join then parse
    text = out.replace("\n", " ")
    for t in theorems:
        m = re.search(r"'" + re.escape(t) + r"' depends on axioms: \[([^\]]*)\]", text)
        if m:
            res[t] = {a.strip() for a in m.group(1).split(",") if a.strip()}
        elif re.search(r"'" + re.escape(t) + r"' does not depend on any axioms", text):
            res[t] = set()
    return res, out


def load_obligations(prop: str):
    with open(os.path.join(VERIF, "harness", "obligations.json")) as f:
        return json.load(f)[prop]


def prove(prop: str, tier: str):
    """Translator + lake build of the property's Props module + audits.

    Returns dict(obligations=[names], discharged=[names], broken=[(name, why)], log=str).
    """
    ob = load_obligations(prop)
    module = ob["module"]
    theorems = ob["theorems"]
    broken = []
    log = []
    ok, out = run_translator()
    if not ok:
        raise ToolFailure("translator failed:\n" + out[-3000:])
    build_driver()
    ok, out = build_module(module)
    log.append(out[-4000:])
    discharged = []
    if not ok:
        for t in theorems:
            broken.append((t, "lake build of " + module + " failed"))
        return dict(obligations=theorems, discharged=[], broken=broken, log="\n".join(log), build_ok=False)
    hits = audit_sources()
    if hits:
        for t in theorems:
            broken.append((t, "forbidden construct in Lean sources: " + "; ".join(hits[:5])))
        return dict(obligations=theorems, discharged=[], broken=broken, log="\n".join(log), build_ok=True)
    axioms, out = print_axioms(module, theorems)
    for t in theorems:
        ax = axioms[t]
        if ax is None:
            broken.append((t, "theorem missing or #print axioms failed"))
        elif not ax <= ALLOWED_AXIOMS:
            broken.append((t, "depends on axioms " + ", ".join(sorted(ax - ALLOWED_AXIOMS))))
        else:
            discharged.append(t)
    if tier == "thorough" and not broken:
        with BuildLock():
            rc, out = run_cmd(["lake", "env", "leanchecker", module], cwd=LEAN, timeout=3600)
        log.append("leanchecker: rc=%d %s" % (rc, out[-500:]))
        if rc != 0:
            for t in theorems:
                broken.append((t, "leanchecker rejected " + module))
            discharged = []
    return dict(obligations=theorems, discharged=discharged, broken=broken, log="\n".join(log), build_ok=True)


# ---------------------------------------------------------------------------------------
# model driver
# ---------------------------------------------------------------------------------------
class Driver:
    """Batch interface to the native model driver: one line in, one line out."""

    def __init__(self):
        if not os.path.exists(DRIVER):
            raise ToolFailure("model driver not built: " + DRIVER)

    def ask(self, lines: list[str], timeout=900) -> list[str]:
        if not lines:
            return []
        data = ("\n".join(lines) + "\n").encode("utf-8")
        p = subprocess.run([DRIVER], input=data, stdout=subprocess.PIPE, stderr=subprocess.PIPE, timeout=timeout)
        if p.returncode != 0:
            raise ToolFailure("driver exited with %d: %s" % (p.returncode, p.stderr.decode()[-2000:]))
        out = p.stdout.decode("utf-8").split("\n")
        if out and out[-1] == "":
            out.pop()
        if len(out) != len(lines):
            raise ToolFailure("driver answered %d lines for %d requests" % (len(out), len(lines)))
        return out


# ---------------------------------------------------------------------------------------
# results, evidence, known findings
# ---------------------------------------------------------------------------------------
class Result:
    """What a property module reports back to the runner."""

    def __init__(self):
        self.evaluations = 0
        self.hashes: set[str] = set()  # distinct non-trivial cases
        self.samples: list = []
        self.violations: list[dict] = []  # oracle violations on the implementation (each a replayable case)
        self.mismatches: list[dict] = []  # model/implementation disagreements (correspondence broken)
        self.stats: dict = {}
        self.rule = ""
        self.exhaustive = None
        self.traces = 0
        self.assumptions: list[str] = []
        self.extra: dict = {}

    def count(self, case, nontrivial=True):
        self.evaluations += 1
        if nontrivial:
            h = hashlib.sha1(repr(case).encode("utf-8", "surrogatepass")).hexdigest()
            self.hashes.add(h)

    def stat(self, key, n=1):
        self.stats[key] = self.stats.get(key, 0) + n

    def sample(self, case, limit=6):
        if len(self.samples) < limit:
            self.samples.append(case)


class WorkerCrash(RuntimeError):
    """a forked worker of fork_map ended with an exception"""


def merge_results(dst: "Result", src: "Result"):
    dst.evaluations += src.evaluations
    dst.hashes |= src.hashes
    for c in src.samples:
        dst.sample(c)
    dst.violations += src.violations
    dst.mismatches += src.mismatches
    for k, v in src.stats.items():
        dst.stats[k] = dst.stats.get(k, 0) + v
    dst.traces += src.traces
    for a in src.assumptions:
        if a not in dst.assumptions:
            dst.assumptions.append(a)


def fork_map(n, worker, nproc=None, min_parallel=120, chunk=250):
    """Run `worker(indices) -> picklable` over range(n) in forked children, `chunk` cases per child, at most `nproc`
    children at a time (short-lived children: a long run with the cyclic GC switched off slows down badly).  The cases are
    independent and each derives its randomness from its own index, so the outcome does not depend on the partition.
    Returns the list of the children's return values in chunk order.  Small n: one in-process call."""
    import pickle
    import select as _select

    if nproc is None:
        nproc = int(os.environ.get("VERIF_JOBS", "0")) or min(12, os.cpu_count() or 1)
    if n < min_parallel or nproc <= 1:
        return [worker(list(range(n)))]
    chunks = [list(range(lo, min(lo + chunk, n))) for lo in range(0, n, chunk)]
    results = [None] * len(chunks)
    errors = []
    pending = list(enumerate(chunks))
    running = {}   # read fd -> (pid, chunk number, bytearray)

    def start(k, idx):
        r, w = os.pipe()
        pid = os.fork()
        if pid == 0:
            code = 0
            try:
                os.close(r)
                try:
                    payload = pickle.dumps(("ok", worker(idx)))
                except BaseException as e:  # noqa: BLE001
                    import traceback

                    payload = pickle.dumps(("error", "%r\n%s" % (e, traceback.format_exc())))
                    code = 1
                with os.fdopen(w, "wb") as f:
                    f.write(payload)
            finally:
                os._exit(code)
        os.close(w)
        running[r] = (pid, k, bytearray())

    while pending or running:
        while pending and len(running) < nproc:
            k, idx = pending.pop(0)
            start(k, idx)
        ready, _, _ = _select.select(list(running), [], [], 1.0)
        for r in ready:
            pid, k, buf = running[r]
            data = os.read(r, 1 << 20)
            if data:
                buf += data
                continue
            os.close(r)
            os.waitpid(pid, 0)
            del running[r]
            if not buf:
                errors.append("child %d died without a result" % pid)
                continue
            kind, val = pickle.loads(bytes(buf))
            if kind == "ok":
                results[k] = val
            else:
                errors.append(val)
    if errors:
        # not a ToolFailure: the worker ran harness code against the implementation; the runner decides whether an exception
        # there is a failure of the tool (unchanged source) or of the correspondence (changed source)
        raise WorkerCrash("parallel worker failed: " + errors[0][-2000:])
    return results


def known_findings(prop: str):
    path = os.path.join(VERIF, "known_findings.json")
    if not os.path.exists(path):
        return []
    with open(path) as f:
        data = json.load(f)
    return [e for e in data.get("findings", []) if e.get("property") == prop and e.get("kind") == "known"]


def match_known(prop: str, violation: dict):
    """A violation matches a known finding iff its 'finding' key equals the entry's id.

    Property modules set violation['finding'] only through their own classifier of the
    *specific* failing shape (see each module's `classify`), never at run time from the file."""
    fid = violation.get("finding")
    if not fid:
        return None
    for e in known_findings(prop):
        if e["id"] == fid:
            return e
    return None


def write_replay(prop: str, kind: str, payload: dict) -> str:
    d = os.path.join(VERIF, "replays")
    os.makedirs(d, exist_ok=True)
    body = dict(property=prop, kind=kind, **payload)
    h = hashlib.sha1(json.dumps(body, sort_keys=True, default=repr).encode()).hexdigest()[:10]
    path = os.path.join(d, f"{prop}-{kind}-{h}.json")
    with open(path, "w") as f:
        json.dump(body, f, indent=1, default=repr)
    return os.path.relpath(path, VERIF)


def write_evidence(prop, tier, seed, proof, res: Result, wall, nviol, checker_cmd):
    d = os.path.join(VERIF, "evidence")
    os.makedirs(d, exist_ok=True)
    cov = {
        "obligations": len(proof["obligations"]),
        "discharged": len(proof["discharged"]),
        "obligation_names": proof["obligations"],
        "undischarged": [list(b) for b in proof["broken"]],
        "checker_cmd": checker_cmd,
        "trusted_base": TRUSTED_BASE + res.assumptions,
        "evaluations": res.evaluations,
        "distinct_nontrivial": len(res.hashes),
        "rule": res.rule,
        "samples": res.samples[:8] or ["(no case recorded)"],
        "traces_validated_against_impl": res.traces,
        "input_distribution": res.stats,
        "correspondence_mismatches": len(res.mismatches),
    }
    if res.exhaustive is not None:
        cov["exhaustive"] = bool(res.exhaustive)
    cov.update(res.extra)
    ev = {
        "property_id": prop,
        "tier": tier,
        "seed": seed,
        "level": "proof",
        "coverage": cov,
        "assumptions": res.assumptions,
        "wall_s": round(wall, 3),
        "violations": nviol,
    }
    path = os.path.join(d, f"{prop}.json")
    tmp = path + ".tmp%d" % os.getpid()
    with open(tmp, "w") as f:
        json.dump(ev, f, indent=1, default=repr)
    os.replace(tmp, path)
    return path


def get_seed() -> int:
    try:
        return int(os.environ.get("VERIF_SEED", "0"))
    except ValueError:
        return 0


def rng_for(seed: int, tag: str) -> random.Random:
    return random.Random(f"{seed}:{tag}")


def now() -> float:
    return time.monotonic()
