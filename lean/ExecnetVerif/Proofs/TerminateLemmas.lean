/-
Helper lemmas for C05 (`Model/Terminate.lean`).
-/
import ExecnetVerif.Model.Terminate
namespace ExecnetVerif.Terminate

/-! ### leaves of an acyclic via relation -/

theorem exists_max_rank (f : Member → Nat) :
    ∀ (ms : List Member), ms ≠ [] → ∃ m ∈ ms, ∀ m' ∈ ms, f m' ≤ f m
  | [], h => absurd rfl h
  | [a], _ => ⟨a, by simp, by simp⟩
  | a :: b :: t, _ => by
    obtain ⟨m, hm, hmax⟩ := exists_max_rank f (b :: t) (by simp)
    by_cases h : f m ≤ f a
    · refine ⟨a, by simp, ?_⟩
      intro m' hm'
      rcases List.mem_cons.1 hm' with rfl | h'
      · exact Nat.le_refl _
      · exact Nat.le_trans (hmax m' h') h
    · refine ⟨m, List.mem_cons_of_mem _ hm, ?_⟩
      intro m' hm'
      rcases List.mem_cons.1 hm' with rfl | h'
      · omega
      · exact hmax m' h'

theorem mem_vias {ms : List Member} {v : Nat} : v ∈ vias ms ↔ ∃ m ∈ ms, m.via = some v := by
  simp [vias, List.mem_filterMap]

theorem isLeaf_iff {ms : List Member} {m : Member} :
    isLeaf ms m = true ↔ ∀ m' ∈ ms, m'.via ≠ some m.id := by
  simp only [isLeaf, Bool.not_eq_true', List.contains_eq_mem, decide_eq_false_iff_not, mem_vias]
  constructor
  · intro h m' hm' hv; exact h ⟨m', hm', hv⟩
  · rintro h ⟨m', hm', hv⟩; exact h m' hm' hv

theorem leaf_exists {ms : List Member} (h : AcyclicVia ms) (hne : ms ≠ []) :
    ∃ m ∈ ms, isLeaf ms m = true := by
  obtain ⟨rank, hr⟩ := h
  obtain ⟨m, hm, hmax⟩ := exists_max_rank (fun m => rank m.id) ms hne
  refine ⟨m, hm, isLeaf_iff.2 ?_⟩
  intro m' hm' hv
  have h1 := hr m' hm' m.id hv (List.mem_map.2 ⟨m, hm, rfl⟩)
  have h2 := hmax m' hm'
  omega

theorem rest_length_lt {ms : List Member} (h : AcyclicVia ms) (hne : ms ≠ []) :
    (rest ms).length < ms.length := by
  obtain ⟨m, hm, hl⟩ := leaf_exists h hne
  unfold rest
  apply List.length_filter_lt_length_iff_exists.2
  exact ⟨m, hm, by simp [hl]⟩

theorem acyclic_filter {ms : List Member} (p : Member → Bool) (h : AcyclicVia ms) :
    AcyclicVia (ms.filter p) := by
  obtain ⟨rank, hr⟩ := h
  refine ⟨rank, ?_⟩
  intro m hm v hv hin
  have hm' : m ∈ ms := (List.mem_filter.1 hm).1
  apply hr m hm' v hv
  obtain ⟨x, hx, rfl⟩ := List.mem_map.1 hin
  exact List.mem_map.2 ⟨x, (List.mem_filter.1 hx).1, rfl⟩

theorem acyclic_rest {ms : List Member} (h : AcyclicVia ms) : AcyclicVia (rest ms) :=
  acyclic_filter _ h

theorem mem_leaves_or_rest {ms : List Member} {m : Member} (h : m ∈ ms) : m ∈ leaves ms ∨ m ∈ rest ms := by
  by_cases hl : isLeaf ms m = true
  · exact Or.inl (List.mem_filter.2 ⟨h, hl⟩)
  · exact Or.inr (List.mem_filter.2 ⟨h, by simpa using hl⟩)

/-! ### bounded waits -/

/-- number of replies that never finish -/
def countNone : List (Option Nat) → Nat
  | [] => 0
  | none :: fs => countNone fs + 1
  | some _ :: fs => countNone fs

/-- the sequential reply waits: every finishing reply is over by `B`, every other one costs one wait bound -/
theorem waitReplies_bound (w B : Nat) : ∀ (fs : List (Option Nat)) (cur : Nat),
    (∀ f ∈ fs, ∀ y, f = some y → y ≤ B) →
    ∃ x, waitReplies (some w) cur fs = some x ∧ cur ≤ x ∧ x ≤ max cur B + countNone fs * w
  | [], cur, _ => ⟨cur, rfl, Nat.le_refl _, by simp [countNone]; exact Nat.le_max_left _ _⟩
  | none :: fs, cur, h => by
    obtain ⟨x, hx, h1, h2⟩ := waitReplies_bound w B fs (cur + w) (fun f hf => h f (List.mem_cons_of_mem _ hf))
    refine ⟨x, by simp [waitReplies, waitStep, hx], by omega, ?_⟩
    simp only [countNone]
    have : max (cur + w) B ≤ max cur B + w := by omega
    have : (countNone fs + 1) * w = countNone fs * w + w := Nat.succ_mul _ _
    omega
  | some y :: fs, cur, h => by
    have hy : y ≤ B := h (some y) (by simp) y rfl
    by_cases hc : y ≤ cur + w
    · obtain ⟨x, hx, h1, h2⟩ := waitReplies_bound w B fs (max cur y) (fun f hf => h f (List.mem_cons_of_mem _ hf))
      refine ⟨x, by simp [waitReplies, waitStep, hc, hx], by omega, ?_⟩
      simp only [countNone]
      have : max (max cur y) B ≤ max cur B := by omega
      omega
    · obtain ⟨x, hx, h1, h2⟩ := waitReplies_bound w B fs (cur + w) (fun f hf => h f (List.mem_cons_of_mem _ hf))
      refine ⟨x, by simp [waitReplies, waitStep, hc, hx], by omega, ?_⟩
      simp only [countNone]
      have : max (cur + w) B ≤ max cur B := by omega
      omega

/-- when every reply is over within one wait bound of the start, the waits end at the latest reply -/
theorem waitReplies_all (w : Nat) : ∀ (fs : List (Option Nat)) (cur : Nat),
    (∀ f ∈ fs, ∃ y, f = some y ∧ y ≤ w) →
    ∃ x, waitReplies (some w) cur fs = some x ∧ cur ≤ x ∧ (∀ f ∈ fs, ∃ y, f = some y ∧ y ≤ x)
  | [], cur, _ => ⟨cur, rfl, Nat.le_refl _, by simp⟩
  | f :: fs, cur, h => by
    obtain ⟨y, rfl, hy⟩ := h f (by simp)
    have hc : y ≤ cur + w := by omega
    obtain ⟨x, hx, h1, h2⟩ := waitReplies_all w fs (max cur y) (fun f hf => h f (List.mem_cons_of_mem _ hf))
    refine ⟨x, by simp [waitReplies, waitStep, hc, hx], by omega, ?_⟩
    intro f hf
    rcases List.mem_cons.1 hf with rfl | hf'
    · exact ⟨y, rfl, by omega⟩
    · exact h2 f hf'

theorem allFinish_some : ∀ (fs : List (Option Nat)) (B : Nat), (∀ f ∈ fs, ∃ y, f = some y ∧ y ≤ B) →
    ∃ x, allFinish fs = some x ∧ x ≤ B ∧ ∀ f ∈ fs, ∃ y, f = some y ∧ y ≤ x
  | [], B, _ => ⟨0, rfl, Nat.zero_le _, by simp⟩
  | f :: fs, B, h => by
    obtain ⟨y, rfl, hy⟩ := h f (by simp)
    obtain ⟨x, hx, h1, h2⟩ := allFinish_some fs B (fun f hf => h f (List.mem_cons_of_mem _ hf))
    refine ⟨max y x, by simp [allFinish, hx, optMax], by omega, ?_⟩
    intro f hf
    rcases List.mem_cons.1 hf with rfl | hf'
    · exact ⟨y, rfl, Nat.le_max_left _ _⟩
    · obtain ⟨z, hz, hzx⟩ := h2 f hf'
      exact ⟨z, hz, by omega⟩

/-! ### per-member finishing times -/

theorem termkillFinish_le (t c : Nat) (m : Member) (y : Nat) (h : termkillFinish (some t) c m = some y) :
    y ≤ t + c := by
  unfold termkillFinish at h
  split at h
  · cases hk : m.kill <;> simp [hk] at h <;> omega
  · rename_i hnk
    cases hn : natural m.remote with
    | none => simp [hn] at h
    | some d =>
      simp [hn] at h
      simp [killCalled, hn] at hnk
      omega

theorem effective_finish (t c : Nat) (m : Member) (hk : m.kill = .effective) :
    ∃ a b, termkillFinish (some t) c m = some a ∧ termFinish (some t) c m = some b ∧ b ≤ a ∧ a ≤ t + c := by
  unfold termkillFinish termFinish
  cases hn : natural m.remote with
  | none => simp [killCalled, hn, hk, optMin]
  | some d =>
    by_cases hd : t < d
    · simp [killCalled, hn, hk, hd, optMin]; omega
    · simp [killCalled, hn, hd]; omega

end ExecnetVerif.Terminate
