/-
L7 (paths): the fragment of `posixpath` that `RSync._send_link_structure` and the receiver's link
phase use — `isabs`, `join`, `abspath`/`normpath` (for absolute paths) and `relpath`.

A path string is represented losslessly by the list of its `/`-separated pieces
(`RawPath`, `"/".join(pieces)` is the string; `"/a//b"` is `["", "a", "", "b"]`, `"x"` is `["x"]`),
so that everything below is list manipulation with string *equality* only (kernel-decidable);
the driver converts with `String.splitOn "/"` / `String.intercalate "/"`.
-/
namespace ExecnetVerif.Path

/-- the pieces of `s.split("/")`; the string is `"/".join p` -/
abbrev RawPath := List String

/-- `posixpath.isabs`: the string starts with `/` (⇔ at least two pieces, the first one empty) -/
def isAbs : RawPath → Bool
  | "" :: _ :: _ => true
  | _ => false

/-- one step of `normpath` on an absolute path: skip `""` and `"."`, `".."` pops (stays at the root) -/
def normStep (acc : List String) (c : String) : List String :=
  if c = "" ∨ c = "." then acc else if c = ".." then acc.dropLast else acc ++ [c]

/-- components of `normpath(p)` for an absolute `p`, i.e. `[x for x in abspath(p).split("/") if x]` -/
def normAbs (p : RawPath) : List String := p.foldl normStep []

/-- components of `abspath(p)` when the process's working directory is `cwd` (absolute) -/
def absComps (cwd p : RawPath) : List String :=
  if isAbs p then normAbs p else normAbs (cwd ++ p)

/-- length of `os.path.commonprefix([a, b])` on component lists -/
def commonLen : List String → List String → Nat
  | a :: as, b :: bs => if a = b then commonLen as bs + 1 else 0
  | _, _ => 0

/-- components of `relpath(path, start)` (both given as absolute normalised components);
`[]` stands for the string `"."` -/
def relComps (path start : List String) : List String :=
  let i := commonLen path start
  List.replicate (start.length - i) ".." ++ path.drop i

/-- the sender's test `relpath not in (".", "..") and not relpath.startswith("../")` -/
def isInside (rel : List String) : Bool :=
  rel ≠ [] && rel ≠ [".."] && !(rel.head? = some ".." && 2 ≤ rel.length)

/-- `posixpath.join(a, b)` -/
def pjoin (a b : RawPath) : RawPath :=
  if isAbs b then b else if a.getLast? = some "" then a.dropLast ++ b else a ++ b

/-- `some rest` iff `l = pre ++ rest` -/
def stripPrefix? : List String → List String → Option (List String)
  | [], l => some l
  | _ :: _, [] => none
  | a :: as, b :: bs => if a = b then stripPrefix? as bs else none

end ExecnetVerif.Path
