/-
C10 — Callback receivers see every item once, in order, then one endmarker.
-/
import ExecnetVerif.Proofs.Net.Wire
import ExecnetVerif.Proofs.Net.Got
import ExecnetVerif.Proofs.Net.Cb
import ExecnetVerif.Props.NetFine
import ExecnetVerif.Props.NetGranularity
namespace ExecnetVerif
open Net

theorem cbAll_reachable {fails : Item → Bool} {st : State} (h : Reachable fails st) : CbAll st :=
  CbAll_reachable fails (fun _ hr => ShapeInv_reachable hr) st h

/-- **C10 (hand-over).** In callback mode (`queue = none`) everything that was accepted for the
channel — the items drained from the queue by `setcallback` and every item delivered later — has been
handed to the user exactly once and in order: `got = kept`, with the callback's items forming the
tail of `got` (what was received before `setcallback` forms the head).  This holds wherever the
`setcallback` falls relative to the deliveries of in-flight items and of the peer's close. -/
theorem C10_handover {fails : Item → Bool} {st : State} (h : Reachable fails st) (p : Side) (id : Nat)
    (hq : ((st.side p).chans id).queue = none) (hb : (st.side p).broken id = false) :
    (st.side p).got id = (st.side p).kept id ∧
    ∃ pre, (st.side p).got id = pre ++ cbItems ((st.side p).cbLog id) := by
  have hg := (GotInv_reachable h p id).2 hb
  simp only [hq, queueItems, Option.map_none, Option.getD_none, List.append_nil] at hg
  exact ⟨hg, (cbAll_reachable h).2 p id |>.2.2.2.2.2.2.2.1 hb⟩

/-- with C02: the items the callback (and the receives before it) got are, in order and without
repetition, items the peer sent on this channel; and all of them, while this side kept its end -/
theorem C10_items_in_order {fails : Item → Bool} {st : State} (h : Reachable fails st) (p : Side) (id : Nat) :
    List.Sublist (cbItems ((st.side p).cbLog id)) ((st.side p.peer).sent id) ∨ (st.side p).broken id = true := by
  cases hb : (st.side p).broken id with
  | true => exact Or.inr rfl
  | false =>
    left
    obtain ⟨pre, hpre⟩ := (cbAll_reachable h).2 p id |>.2.2.2.2.2.2.2.1 hb
    have hg := (GotInv_reachable h p id).1
    have hk := C02_in_order_general h p id
    have : List.Sublist (cbItems ((st.side p).cbLog id)) ((st.side p).got id) := by
      rw [hpre]; exact List.sublist_append_right _ _
    exact (this.trans ((List.sublist_append_left _ _).trans hg)).trans hk

/-- **C10 (receive is refused).** Once a callback is set, `receive()` and a second `setcallback` raise. -/
theorem C10_receive_refused (fails : Item → Bool) (st : State) (p : Side) (id : Nat) (w : Bool)
    (ha : ((st.side p).chans id).alive = true) (hq : ((st.side p).chans id).queue = none) :
    (step fails st (.receive p id)).1 = .osError ∧ (step fails st (.setcallback p id w)).1 = .osError :=
  Net.C10_receive_refused fails st p id w ha hq

/-- **C10 (at most one endmarker, and it is last).** -/
theorem C10_endmarker_once {fails : Item → Bool} {st : State} (h : Reachable fails st) (p : Side) (id : Nat)
    (hb : (st.side p).broken id = false) :
    ((st.side p).cbLog id).count .endmarker ≤ 1 ∧
    (.endmarker ∈ (st.side p).cbLog id → ((st.side p).cbLog id).getLast? = some .endmarker) :=
  Net.C10_endmarker_once p id (cbAll_reachable h).2 hb

/-- **C10 (the endmarker is delivered).** If an endmarker was requested and the conversation has ended
at this side — the peer's CLOSE / CLOSE_ERROR / LAST_MESSAGE was handled (explicit close, end of the
remote execution, remote error), the side closed locally, or the receiver thread ended (connection lost
or terminated, or a callback raising after the IO was closed) —
then the endmarker HAS been delivered, also when the local channel object had been dropped (the
callback entry outlives the object). -/
theorem C10_endmarker_eventually {fails : Item → Bool} {st : State} (h : Reachable fails st) (p : Side) (id : Nat)
    (hw : (st.side p).cbWants id = some true) (he : (st.side p).ended id = true)
    (hb : (st.side p).broken id = false) : CbEvent.endmarker ∈ (st.side p).cbLog id :=
  Net.C10_endmarker_eventually p id (cbAll_reachable h).2 hw he hb

/-- … and the three endings do set `ended`: handling any closing frame of the peer, and the receiver
epilogue (connection loss, termination, or a callback raising after the IO was closed) for every channel that still had a callback or object. -/
theorem C10_endings_end (fails : Item → Bool) (x : SideSt) (id : Nat) (err : Option Nat) (so : Bool) (isCut : Bool) :
    (localClose x id err so).ended id = true ∧
    ((x.cbs id).isSome = true → (epilogue x isCut).ended id = true) := by
  constructor
  · simp only [localClose]
    split <;> simp [noLongerOpened, upd]
  · intro hc
    simp [epilogue, hc]

/-- an endmarker is never delivered unless requested -/
theorem C10_endmarker_only_on_request {fails : Item → Bool} {st : State} (h : Reachable fails st) (p : Side) (id : Nat)
    (hb : (st.side p).broken id = false) (he : CbEvent.endmarker ∈ (st.side p).cbLog id) :
    (st.side p).cbWants id = some true :=
  ((cbAll_reachable h).2 p id).2.2.2.2.2.2.1 hb he

/-! non-vacuity: setcallback between two in-flight items, then the remote exec ends; the callback log is
item, item, endmarker and a later receive is refused -/
example : (let r := run (fun _ => false) init [.remoteExec, .deliver .B, .send .B 1 ⟨7, []⟩, .send .B 1 ⟨8, []⟩,
      .deliver .A, .setcallback .A 1 true, .deliver .A, .execFinish 1 .ret, .deliver .A, .receive .A 1]
    (r.1.getLast?, r.2.a.cbLog 1)) = (some .osError, [.item ⟨7, []⟩, .item ⟨8, []⟩, .endmarker]) := by decide

end ExecnetVerif

namespace ExecnetVerif

/-- **C10 (MultiChannel).** `MultiChannel.make_receive_queue` installs one callback per member channel,
each appending `(channel, event)` to ONE shared FIFO.  Whatever the interleaving of the member
channels' callback invocations, the projection of the queue on a member channel is exactly that
channel's callback-event sequence — so every per-channel guarantee above (each item once, in order,
then one endmarker) holds per member. -/
theorem C10_multichannel {Ch Ev : Type} [DecidableEq Ch] (events : List (Ch × Ev)) (c : Ch) :
    ((events.foldl (fun q e => q ++ [e]) ([] : List (Ch × Ev))).filter (fun e => e.1 = c)).map Prod.snd
      = (events.filter (fun e => e.1 = c)).map Prod.snd := by
  have : ∀ (acc : List (Ch × Ev)), events.foldl (fun q e => q ++ [e]) acc = acc ++ events := by
    induction events with
    | nil => intro acc; simp
    | cons e t ih => intro acc; simp [ih]
  rw [this []]; simp

end ExecnetVerif
