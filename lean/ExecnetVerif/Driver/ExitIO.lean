/-
Driver commands of the worker exit ladder model (C11).  Not part of any theorem.

  exit.run <t5|-> <t10|-> <fin> <t0> <class…>   class… = idle | blocked | sleeping <d> | busy | swallow | extra <0|1>
      → `rung=<clean|sigint|hardexit> status=<n> exit=<t> sigint=<t|-> path=<pc,…>`  or  `never pc=<pc> now=<t> path=…`
  exit.via <t5|-> <t10|-> <fin> <t0> <class…> via <f>*   the same behind forwarding gateways, nearest to the
      initiator first; f = busy | s<d> (its task ends by itself after d)   (path omitted)
-/
import ExecnetVerif.Model.WorkerExit
namespace ExecnetVerif
open WorkerExit

def parseOptNat (s : String) : Option (Option Nat) :=
  if s == "-" then some none else s.toNat?.map some

def parseActivity : List String → Option Activity
  | ["idle"] => some .idle
  | ["blocked"] => some .blockedInReceive
  | ["sleeping", d] => d.toNat?.map .sleeping
  | ["busy"] => some .busyInterruptible
  | ["swallow"] => some .swallowsKeyboardInterrupt
  | ["extra", "0"] => some (.extraDaemonThreads false)
  | ["extra", "1"] => some (.extraDaemonThreads true)
  | _ => none

def parseForwarder (s : String) : Option Activity :=
  if s == "busy" then some .busyInterruptible
  else if s.startsWith "s" then (s.drop 1).toNat?.map .sleeping
  else none

def WorkerExit.Pc.render : Pc → String
  | .eof => "eof" | .finished => "finished" | .wait5 => "wait5" | .sigint => "sigint"
  | .wait10 => "wait10" | .hardExit => "hardexit" | .closing => "closing"

def WorkerExit.Rung.render : Rung → String
  | .clean => "clean" | .sigint => "sigint" | .hardExit => "hardexit"

/-- the program points visited by `iter` -/
def pcPath (L : Ladder) : Nat → St → List Pc
  | 0, _ => []
  | n + 1, s => match step L s with
    | some s' => s.pc :: pcPath L n s'
    | none => []

def renderOptNat : Option Nat → String
  | some n => toString n
  | none => "-"

def renderRun (s : St) (path : Option (List Pc)) : String :=
  let p := match path with
    | some ps => " path=" ++ ",".intercalate (ps.map Pc.render)
    | none => ""
  match s.gone with
  | some e => s!"rung={e.rung.render} status={e.status} exit={e.time} sigint={renderOptNat s.sigintAt}{p}"
  | none => s!"never pc={s.pc.render} now={s.now}{p}"

def exitHandle : List String → Option String
  | "exit.run" :: t5 :: t10 :: fin :: t0 :: cls =>
    match parseOptNat t5, parseOptNat t10, fin.toNat?, t0.toNat?, parseActivity cls with
    | some a, some b, some f, some t, some c =>
      let L : Ladder := ⟨a, b, f⟩
      some (renderRun (run L c t) (some (pcPath L fuel (init c t))))
    | _, _, _, _, _ => some "bad-op"
  | "exit.via" :: t5 :: t10 :: fin :: t0 :: restToks =>
    let cls := restToks.takeWhile (· ≠ "via")
    let fws := (restToks.dropWhile (· ≠ "via")).drop 1
    match parseOptNat t5, parseOptNat t10, fin.toNat?, t0.toNat?, parseActivity cls, fws.mapM parseForwarder with
    | some a, some b, some f, some t, some c, some fs =>
      if restToks.contains "via" then
        match runVia ⟨a, b, f⟩ fs c t with
        | some s => some (renderRun s none)
        | none => some "never forwarder"
      else some "bad-op"
    | _, _, _, _, _, _ => some "bad-op"
  | _ => none

end ExecnetVerif
