/-
C15 — Bootstrapping needs nothing installed on the other side.
Property theorems only.  The tables they quantify over (`Generated.sequences`, …) are regenerated from the
source on every run, so each theorem is a statement about what the shipped code says *now*: the bounded
quantifiers below range over every import statement and every global name of every shipped text.
-/
import ExecnetVerif.Generated.Shipped
namespace ExecnetVerif
open Bootstrap

/-- what `from __main__ import …` can find on a worker that was bootstrapped over a pipe
(`python -c "import sys;exec(eval(sys.stdin.readline()))"`: the shipped text runs in `__main__`) -/
def mainOfPipeWorker : List String := mainProvides Generated.sequences "exec"

/-- what it can find on a worker started by the stand-alone socket server (the shipped text runs in a
private dict; `__main__` is `socketserver.py` itself) -/
def mainOfSocketWorker : List String := mainProvides Generated.sequences "script:socketserver"

/-- the namespaces that must be self-contained: everything except the import bootstrap, whose
`from execnet.gateway_base import …` *is* that path (see `C15_paths`: plain local popen only) -/
def shippedSequences : List Sequence := Generated.sequences.filter (·.name != "import")

/-- **C15 (closure).** For every namespace the initiator sends code into — the exec bootstrap
(`popen//python=`, `via=`, `ssh=`), the socket bootstrap, every `remote_exec(<module|function|literal>)` the
package itself issues (proxy forwarder, `installvia` socket server, rsync receiver, rinfo, chdir/nice/env) and
the stand-alone `socketserver.py` — and for every text executed there, in order:
* every import statement on the executed path (module level and inside any function; for the methods of an
  execmodel class only when a stdlib execmodel selects that class) names a standard-library module, or sits
  in a `try … except ImportError` whose handler obtains the same names from `__main__` where the exec
  bootstrap has put them (or needs none of them afterwards), or is such a handler's `from __main__ import`;
* every global name read anywhere in the text is bound by the text itself, is a builtin, was put into the
  namespace by the code that starts it (`channel`, `__name__`, `clientsock`, …), or is bound by a text
  executed earlier in the same namespace.
So no shipped text can raise ImportError/NameError for lack of execnet on the other side. -/
theorem C15_closed :
    ∀ q ∈ shippedSequences, ∀ p ∈ q.units.zipIdx,
      (∀ i ∈ p.1.imports, i.relevant →
          ImportOk Generated.stdlibModules mainOfPipeWorker p.1 i)
      ∧ (∀ n ∈ p.1.freeGlobals,
          n ∈ p.1.defined ∨ n ∈ Generated.builtinNames ∨ n ∈ q.before p.2) := by
  decide +kernel

/-- **C15 (no sibling module).** No shipped text imports `execnet…` (absolutely or relatively) except
inside a guarded `try` whose fallback `C15_closed` has checked; the only unguarded one in the whole
package's remote side is the import bootstrap. -/
theorem C15_no_sibling :
    ∀ q ∈ shippedSequences, ∀ u ∈ q.units, ∀ i ∈ u.imports,
      (i.root = "execnet" ∨ i.relative = true) → i.guarded = true := by
  decide +kernel

/-- **C15 (execmodels).** The imports `C15_closed` does not look at are exactly those inside the methods of
an execmodel class that only `get_execmodel("eventlet")` / `get_execmodel("gevent")` instantiates (outside the
property: "execmodels available in the stdlib"); every backend tag in the tables is a backend `get_execmodel`
knows.  So `thread` and `main_thread_only` workers are covered by `C15_closed` completely. -/
theorem C15_execmodels :
    (∀ q ∈ shippedSequences, ∀ u ∈ q.units, ∀ i ∈ u.imports,
        ¬ i.relevant → ∀ b ∈ i.backends, b = "eventlet" ∨ b = "gevent")
    ∧ (∀ q ∈ shippedSequences, ∀ u ∈ q.units, ∀ i ∈ u.imports,
        ∀ b ∈ i.backends, b ∈ Generated.execmodelTable.map (·.1)) :=
  ⟨by decide +kernel, by decide +kernel⟩

theorem C15_execmodels_known : stdlibExecmodels ⊆ Generated.execmodelTable.map (·.1) := by
  decide +kernel

/-- the generated selector of `gateway_bootstrap.bootstrap` is the hand-modelled function, for all 64
truthiness combinations of (popen, via, python, ssh, vagrant_ssh, socket) -/
theorem C15_paths_table (s : Spec) :
    Generated.bootstrapSelect.eval s = (bootstrapKind s).outcome
    ∧ Generated.ioSelect.eval s = (ioKind s).outcome :=
  (by decide +kernel : ∀ s ∈ Spec.all,
      Generated.bootstrapSelect.eval s = (bootstrapKind s).outcome
      ∧ Generated.ioSelect.eval s = (ioKind s).outcome) s (Spec.mem_all s)

/-- **C15 (paths).** Which bootstrap a spec gets, for every combination of the attributes: the import
bootstrap exactly for a plain local `popen` (no `python=`, no `via=`) and then over a direct pipe to a child
of this very interpreter; source shipping (`exec`) for `python=`, `via=`, `ssh=`, `vagrant_ssh=`; the socket
bootstrap for socket specs; anything else fails with ValueError before a gateway exists. -/
theorem C15_paths (s : Spec) :
    (bootstrapKind s = .import ↔ s.popen = true ∧ s.via = false ∧ s.python = false)
    ∧ (bootstrapKind s = .exec ↔
        (s.popen = true ∧ (s.via = true ∨ s.python = true))
        ∨ (s.popen = false ∧ (s.ssh = true ∨ s.vagrant_ssh = true)))
    ∧ (bootstrapKind s = .socket ↔
        s.popen = false ∧ s.ssh = false ∧ s.vagrant_ssh = false ∧ s.socket = true)
    ∧ (bootstrapKind s = .error ↔
        s.popen = false ∧ s.ssh = false ∧ s.vagrant_ssh = false ∧ s.socket = false)
    ∧ (bootstrapKind s = .import → ioKind s = .pipe)
    ∧ Generated.bootstrapSelect.eval s = (bootstrapKind s).outcome :=
  (by decide +kernel : ∀ s ∈ Spec.all,
    (bootstrapKind s = .import ↔ s.popen = true ∧ s.via = false ∧ s.python = false)
    ∧ (bootstrapKind s = .exec ↔
        (s.popen = true ∧ (s.via = true ∨ s.python = true))
        ∨ (s.popen = false ∧ (s.ssh = true ∨ s.vagrant_ssh = true)))
    ∧ (bootstrapKind s = .socket ↔
        s.popen = false ∧ s.ssh = false ∧ s.vagrant_ssh = false ∧ s.socket = true)
    ∧ (bootstrapKind s = .error ↔
        s.popen = false ∧ s.ssh = false ∧ s.vagrant_ssh = false ∧ s.socket = false)
    ∧ (bootstrapKind s = .import → ioKind s = .pipe)
    ∧ Generated.bootstrapSelect.eval s = (bootstrapKind s).outcome) s (Spec.mem_all s)

/-- the unit holding the shipped `gateway_base` text in the exec sequence -/
def shippedBase : List SUnit :=
  (Generated.sequences.filter (·.name == "exec")).flatMap fun q => q.units.filter (·.name == "exec:gateway_base")

/-- the `execnet…` imports of the import bootstrap's lines -/
def importBootstrapImports : List Import :=
  (Generated.sequences.filter (·.name == "import")).flatMap fun q =>
    q.units.flatMap fun u => u.imports.filter (·.root == "execnet")

/-- **C15 (same tail).** All three bootstraps end in the same call `serve(<io>, id='%s-worker')`; the import
and the exec bootstrap build `<io>` and the execmodel by the very same expressions; `serve`,
`init_popen_io`, `get_execmodel` are taken from `execnet.gateway_base` on the import path and are defined
by the shipped text — the source of that same module — on the other two.  Hence after the first byte an
exec- or socket-bootstrapped worker runs the same `WorkerGateway.serve` as an import-bootstrapped one. -/
theorem C15_same_tail :
    Generated.bootstrapTails.map (·.kind) = ["import", "exec", "socket"]
    ∧ (∀ t ∈ Generated.bootstrapTails, t.callee = "serve" ∧ t.idTemplate = "%s-worker"
        ∧ (t.kind = "import" → t.importedFrom = "execnet.gateway_base")
        ∧ (t.kind ≠ "import" → t.shippedModule = "gateway_base"))
    ∧ (∀ t ∈ Generated.bootstrapTails, ∀ t' ∈ Generated.bootstrapTails,
        t.kind = "import" → t'.kind = "exec" → t.io = t'.io ∧ t.execmodel = t'.execmodel)
    ∧ shippedBase.length = 1
    ∧ (∀ u ∈ shippedBase, ∀ n ∈ ["serve", "init_popen_io", "get_execmodel", "Message", "Popen2IO"], n ∈ u.defined)
    ∧ importBootstrapImports.length = 1
    ∧ (∀ i ∈ importBootstrapImports,
        i.module = "execnet.gateway_base" ∧ ∀ n ∈ i.names, ∀ b ∈ shippedBase, n ∈ b.defined) :=
  ⟨by decide +kernel, by decide +kernel, by decide +kernel, by decide +kernel, by decide +kernel, by decide +kernel,
    by decide +kernel⟩

/-- pins of the constants the harness and the other theorems rely on -/
theorem C15_pins :
    Generated.popenBootstrapLine = "import sys;exec(eval(sys.stdin.readline()))"
    ∧ Generated.channelexecName = "__channelexec__"
    ∧ Generated.nonAsciiShipped = []
    ∧ Generated.specFlags = ["popen", "python", "socket", "ssh", "vagrant_ssh", "via"]
    ∧ (Generated.sequences.map (·.name)).take 3 = ["import", "exec", "socket"]
    ∧ (∀ q ∈ Generated.sequences, q.name = "exec" → q.inMain = true)
    ∧ (∀ q ∈ Generated.sequences, q.name = "socket" → q.inMain = false ∧ "clientsock" ∈ q.injected)
    ∧ (∀ q ∈ Generated.sequences, (q.name.startsWith "remote_exec:") = true →
        q.injected = ["channel", "__name__"]) := by
  decide +kernel

/-- **known finding, stated exactly**: the proxy forwarder (`gateway_io`, run by `via=`) finds `Message` and
`Popen2IO` in `__main__` only on a pipe-bootstrapped master.  On a master started by the stand-alone socket
server `__main__` is the server script, which defines neither — `via=` through such a master fails with
ImportError when execnet is not installed there. -/
theorem C15_via_socket_master_counterexample :
    ∃ q ∈ shippedSequences, ∃ u ∈ q.units, ∃ i ∈ u.imports,
      u.name = "remote_exec:gateway_io" ∧ i.relevant ∧ ¬ ImportOk Generated.stdlibModules mainOfSocketWorker u i := by
  decide +kernel

/-! ### non-vacuity -/

example : shippedSequences.length ≥ 7 := by decide +kernel
example : ∃ q ∈ shippedSequences, ∃ u ∈ q.units, u.imports.length ≥ 40 ∧ u.freeGlobals.length ≥ 30 := by
  decide +kernel
/-- the closure condition is not trivially true: a text that reads a sibling helper is rejected -/
example : ¬ NamesOk Generated.builtinNames []
    { name := "x", imports := [], fallbacks := [], excluded := [], defined := ["f"], freeGlobals := ["len", "XSpec"] } := by
  decide +kernel
example : ¬ ImportOk Generated.stdlibModules mainOfPipeWorker
    { name := "x", imports := [], fallbacks := [], excluded := [], defined := [], freeGlobals := [] }
    { module := "execnet.xspec", root := "execnet", relative := false, bound := ["execnet"], names := [],
      scope := "", funcLevel := false, guarded := false, fallback := false, backends := [] } := by
  decide +kernel
example : bootstrapKind ⟨true, false, true, false, false, false⟩ = .exec := by decide

end ExecnetVerif
