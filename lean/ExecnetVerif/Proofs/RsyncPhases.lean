/-
C17 helper: content phase and link phase as leaf-wise passes over the skeleton; `syncWith` in
closed (structural) form.
-/
import ExecnetVerif.Proofs.RsyncRecv
namespace ExecnetVerif.Rsync
open ExecnetVerif.Path

/-! ### pushing a source-dependent map through `collect` -/

theorem collect_flatMap {α β : Type} (preA : Name → α → α) (preB : Name → β → β) (leaf : Tree → Tree → List α)
    (g : Tree → α → List β)
    (hg : ∀ m es n a, g (.dir m es) (preA n a) = (g (lookup n es) a).map (preB n)) (src : Tree) :
    wfTree src → ∀ tgt, (collect preA leaf src tgt).flatMap (g src) =
      collect preB (fun s t => (leaf s t).flatMap (g s)) src tgt := by
  refine Tree.rec
    (motive_1 := fun src => wfTree src → ∀ tgt, (collect preA leaf src tgt).flatMap (g src) =
      collect preB (fun s t => (leaf s t).flatMap (g s)) src tgt)
    (motive_2 := fun es => ∀ e ∈ es, wfTree e.2 → ∀ tgt, (collect preA leaf e.2 tgt).flatMap (g e.2) =
      collect preB (fun s t => (leaf s t).flatMap (g s)) e.2 tgt)
    (motive_3 := fun e => wfTree e.2 → ∀ tgt, (collect preA leaf e.2 tgt).flatMap (g e.2) =
      collect preB (fun s t => (leaf s t).flatMap (g s)) e.2 tgt)
    ?_ ?_ ?_ ?_ ?_ ?_ ?_ src
  · intro b m t _ tgt; simp [collect]
  · intro m es ih hw tgt
    simp only [wfTree] at hw
    simp only [collect]
    -- walk a sub-list `r` of `es` whose names resolve (in `es`) to the entries themselves
    have aux : ∀ (r : List (Name × Tree)), (∀ e ∈ r, e ∈ es) →
        (collectL preA leaf r (entriesOf tgt)).flatMap (g (.dir m es)) =
          collectL preB (fun s t => (leaf s t).flatMap (g s)) r (entriesOf tgt) := by
      intro r
      induction r with
      | nil => intro _; simp [collectL]
      | cons e r ihr =>
        intro hsub
        obtain ⟨n, s⟩ := e
        have hmem : (n, s) ∈ es := hsub (n, s) (by simp)
        have hl : lookup n es = s := lookup_of_mem_nodup (by simpa [names] using hw.1) hmem
        have ihs := ih (n, s) hmem (wfTreeL_mem hw.2 (n, s) hmem) (lookup n (entriesOf tgt))
        simp only [collectL, List.flatMap_append, List.flatMap_map, hg, hl]
        rw [ihr (fun e he => hsub e (by simp [he]))]
        congr 1
        rw [← ihs, List.map_flatMap]
    exact aux es (fun e he => he)
  · intro tg _ tgt; simp [collect]
  · intro hw; simp [wfTree] at hw
  · intro e he; simp at he
  · intro head tail ihh iht e he
    simp only [List.mem_cons] at he
    cases he with
    | inl h => subst h; exact ihh
    | inr h => exact iht e h
  · intro n t ih; exact ih

/-! ### content phase -/

/-- the file-system update one request ends in -/
def toUp (src : Tree) (r : Req) : List Up := [(r.path, writeFile r (senderData src r))]

/-- the `_report_send_file` call one request ends in -/
def sentL (src : Tree) (r : Req) : List (List Name) := if (senderData src r).isSome then [r.path] else []

theorem foldl_serveReq (src : Tree) : ∀ (reqs : List Req) (t : Tree) (sent : List (List Name)),
    reqs.foldl (serveReq src) (t, sent) = (run (reqs.flatMap (toUp src)) t, sent ++ reqs.flatMap (sentL src))
  | [], t, sent => by simp
  | r :: rs, t, sent => by
    simp only [List.foldl_cons, serveReq, List.flatMap_cons]
    rw [foldl_serveReq src rs]
    simp only [toUp, List.singleton_append, run_cons, sentL]
    cases senderData src r <;> simp

theorem senderData_pre (m : Nat) (es : Entries) (n : Name) (r : Req) :
    senderData (.dir m es) (Req.pre n r) = senderData (lookup n es) r := rfl

theorem writeFile_pre (n : Name) (r : Req) (d : Option Blob) : writeFile (Req.pre n r) d = writeFile r d := by
  funext t; simp [writeFile, Req.pre]

theorem toUp_pre (m : Nat) (es : Entries) (n : Name) (r : Req) :
    toUp (.dir m es) (Req.pre n r) = (toUp (lookup n es) r).map (Up.pre n) := by
  simp only [toUp, senderData_pre, writeFile_pre]
  simp [Up.pre, Req.pre]

theorem sentL_pre (m : Nat) (es : Entries) (n : Name) (r : Req) :
    sentL (.dir m es) (Req.pre n r) = (sentL (lookup n es) r).map (n :: ·) := by
  simp only [sentL, senderData_pre]
  by_cases h : (senderData (lookup n es) r).isSome = true <;> simp [h, Req.pre]

/-! ### link phase -/

def linkUp (dest : RawPath) (l : LinkMsg) : Up :=
  (l.path, fun _ => .link (if l.base then pjoin dest l.payload else l.payload))

/-- where the receiver points a link classified as `c` -/
def resolveLink (dest : RawPath) (c : Bool × List String) : RawPath := if c.1 then pjoin dest c.2 else c.2

def leafLink (cl : RawPath → Bool × List String) (dest : RawPath) : Tree → Tree → List Up
  | .link tg, _ => [([], fun _ => .link (resolveLink dest (cl tg)))]
  | .file _ _ _, _ => []
  | .dir _ _, _ => []
  | .absent, _ => []

def Up.addPre (p : List Name) (u : Up) : Up := (p ++ u.1, u.2)

theorem Up.addPre_snoc (p : List Name) (n : Name) (u : Up) : Up.addPre (p ++ [n]) u = Up.addPre p (Up.pre n u) := by
  simp [Up.addPre, Up.pre]

theorem foldl_applyLink (dest : RawPath) : ∀ (links : List LinkMsg) (t : Tree),
    links.foldl (applyLink dest) t = run (links.map (linkUp dest)) t
  | [], t => rfl
  | l :: ls, t => by
    simp only [List.foldl_cons, List.map_cons, run_cons]
    rw [foldl_applyLink dest ls]
    rfl

theorem linkMsgs_collect (cl : RawPath → Bool × List String) (dest : RawPath) (src : Tree) :
    ∀ p tgt, (linkMsgs cl p src).map (linkUp dest) =
      (collect Up.pre (leafLink cl dest) src tgt).map (Up.addPre p) := by
  refine Tree.rec
    (motive_1 := fun src => ∀ p tgt, (linkMsgs cl p src).map (linkUp dest) =
      (collect Up.pre (leafLink cl dest) src tgt).map (Up.addPre p))
    (motive_2 := fun es => ∀ p tes, (linkMsgsL cl p es).map (linkUp dest) =
      (collectL Up.pre (leafLink cl dest) es tes).map (Up.addPre p))
    (motive_3 := fun e => ∀ p tgt, (linkMsgs cl p e.2).map (linkUp dest) =
      (collect Up.pre (leafLink cl dest) e.2 tgt).map (Up.addPre p))
    ?_ ?_ ?_ ?_ ?_ ?_ ?_ src
  · intro b m t p tgt; simp [linkMsgs, collect, leafLink]
  · intro m es ih p tgt; simp only [linkMsgs, collect]; exact ih p (entriesOf tgt)
  · intro tg p tgt; simp [linkMsgs, collect, leafLink, linkUp, Up.addPre, resolveLink]
  · intro p tgt; simp [linkMsgs, collect, leafLink]
  · intro p tes; simp [linkMsgsL, collectL]
  · intro head tail ihh iht p tes
    obtain ⟨n, s⟩ := head
    simp only [linkMsgsL, collectL, List.map_append, List.map_map]
    rw [ihh (p ++ [n]) (lookup n tes), iht p tes]
    congr 1
    apply List.map_congr_left
    intro u _
    simp [Up.addPre_snoc]
  · intro n t ih; exact ih

theorem Up.addPre_nil : Up.addPre [] = id := by funext u; simp [Up.addPre]

/-! ### `syncWith` in closed form -/

/-- a file / link position after the content phase -/
def leaf2 (s t : Tree) : Tree := run ((leafReq s t).flatMap (toUp s)) (leaf1 s t)

/-- … and after the link phase -/
def leaf3 (cl : RawPath → Bool × List String) (dest : RawPath) (s t : Tree) : Tree :=
  run (leafLink cl dest s t) (leaf2 s t)

/-- the `_report_send_file` calls of a file position -/
def leafSent (s t : Tree) : List (List Name) := (leafReq s t).flatMap (sentL s)

theorem syncWith_closed (cl : RawPath → Bool × List String) (src : Tree) (tg : Target) (hw : wfTree src) :
    (syncWith cl src tg).tree = skel (leaf3 cl tg.destdir) tg.delete src tg.tree ∧
    (syncWith cl src tg).sent = collect (fun n p => n :: p) leafSent src tg.tree := by
  have hrecv := recv_stream tg.delete src (fuelOf src) [] tg.tree [] (Nat.le_refl _)
  simp only [List.append_nil] at hrecv
  have hreq : (reqsOf src tg.tree).map (Req.addPre []) = reqsOf src tg.tree := by
    have : Req.addPre [] = id := funext Req.addPre_nil
    simp [this]
  simp only [syncWith, initT, finishT, hrecv, hreq, foldl_serveReq, foldl_applyLink, List.nil_append]
  constructor
  · have h1 := collect_flatMap Req.pre Up.pre leafReq toUp toUp_pre src hw tg.tree
    have h2 := pass (fun s t => (leafReq s t).flatMap (toUp s)) leaf1 tg.delete src hw tg.tree
    have h3 := linkMsgs_collect cl tg.destdir src [] tg.tree
    have h4 := pass (leafLink cl tg.destdir) leaf2 tg.delete src hw tg.tree
    simp only [Up.addPre_nil, List.map_id] at h3
    rw [h3]
    unfold reqsOf
    rw [h1, h2]
    exact h4
  · exact collect_flatMap Req.pre (fun n p => n :: p) leafReq sentL sentL_pre src hw tg.tree

end ExecnetVerif.Rsync
