/-
Driver command of the execution-model choice (C14).  Not part of any theorem.

  exc.choice <local> <remote|-> <spec|->   → the worker's backend name, or `undetermined`
-/
import ExecnetVerif.Model.ExecChoice
namespace ExecnetVerif
open ExecChoice

def parseBackend : String → Option Backend
  | "thread" => some .thread
  | "main_thread_only" => some .mainThreadOnly
  | "eventlet" => some .eventlet
  | "gevent" => some .gevent
  | _ => none

def backendName : Backend → String
  | .thread => "thread"
  | .mainThreadOnly => "main_thread_only"
  | .eventlet => "eventlet"
  | .gevent => "gevent"

def parseOptBackend (s : String) : Option (Option Backend) :=
  if s == "-" then some none else (parseBackend s).map some

def execChoiceHandle : List String → Option String
  | ["exc.choice", e, r, sp] =>
    match parseBackend e, parseOptBackend r, parseOptBackend sp with
    | some e, some r, some sp =>
      match workerModel codeSrc (setExecmodel e r) sp with
      | some b => some (backendName b)
      | none => some "undetermined"
    | _, _, _ => some "bad-op"
  | "exc.choice" :: _ => some "bad-op"
  | _ => none

end ExecnetVerif
