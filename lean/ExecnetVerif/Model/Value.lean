/-
L1 (values): the grammar of Python values the serializer knows, Python's `==` on them
(needed for dict-key replacement and set de-duplication inside the loader) and `hashable`.
-/
import ExecnetVerif.Model.Bytes
namespace ExecnetVerif

/-- A Python value as seen by `_Serializer` / `Unserializer`.
* `float`/`complex` carry raw IEEE-754 bit patterns (so NaN payloads and -0.0 are exact);
* `str` holds a Lean `String` (a sequence of Unicode scalar values = exactly the UTF-8-encodable
  Python strings); a Python `str` containing a lone surrogate is the separate leaf `badstr`;
* `dict` is in insertion order; `set`/`frozenset` list their elements in iteration order;
* `channel id` is a `Channel` object bound to the gateway at hand;
* `foreign` is any object whose exact type is none of the supported ones (other types,
  subclass instances, user classes that merely share a builtin's name). -/
inductive PyVal where
  | none
  | bool (b : Bool)
  | int (i : Int)
  | float (bits : Nat)
  | complex (re im : Nat)
  | bytes (b : Bytes)
  | str (s : String)
  | badstr
  | list (xs : List PyVal)
  | tuple (xs : List PyVal)
  | dict (kvs : List (PyVal × PyVal))
  | set (xs : List PyVal)
  | frozenset (xs : List PyVal)
  | channel (id : Int)
  | foreign
  deriving Inhabited

/-! ### exact numeric comparison (`1 == 1.0 == True == (1+0j)`) -/

/-- an extended dyadic number: `fin m e` is `m * 2^e` -/
inductive Num where
  | nan
  | inf (neg : Bool)
  | fin (m : Int) (e : Int)

def Num.eq : Num → Num → Bool
  | .nan, _ => false
  | _, .nan => false
  | .inf a, .inf b => a == b
  | .inf _, .fin _ _ => false
  | .fin _ _, .inf _ => false
  | .fin m1 e1, .fin m2 e2 =>
    if e1 ≤ e2 then m1 == m2 * (2 : Int) ^ (e2 - e1).toNat
    else m1 * (2 : Int) ^ (e1 - e2).toNat == m2

/-- decode an IEEE-754 binary64 bit pattern -/
def numOfBits (bits : Nat) : Num :=
  let neg := bits / 9223372036854775808 % 2 = 1
  let ex := bits / 4503599627370496 % 2048
  let f := bits % 4503599627370496
  if ex = 2047 then (if f = 0 then .inf neg else .nan)
  else
    let m : Int := if ex = 0 then f else (4503599627370496 + f : Nat)
    let e : Int := if ex = 0 then -1074 else (ex : Int) - 1075
    .fin (if neg then -m else m) e

/-- numeric view `(re, im)` of a number-like value -/
def PyVal.num? : PyVal → Option (Num × Num)
  | .bool b => some (.fin (if b then 1 else 0) 0, .fin 0 0)
  | .int i => some (.fin i 0, .fin 0 0)
  | .float b => some (numOfBits b, .fin 0 0)
  | .complex r i => some (numOfBits r, numOfBits i)
  | _ => Option.none

mutual
/-- Python `a == b` for two *distinct objects* (no identity short-cut: the loader never shares
objects, and NaN != NaN).  Only ever evaluated on *hashable* values (dict keys, set elements), so
`list`/`dict`/`set` operands — which can never be keys or elements — are not modelled (`false`). -/
def pyEq : PyVal → PyVal → Bool
  | .none, .none => true
  | .bytes a, .bytes b => a == b
  | .str a, .str b => a == b
  | .channel a, .channel b => a == b
  | .tuple a, .tuple b => pyEqList a b
  | .frozenset a, .frozenset b => pySubset a b && pySubset b a
  | a, b =>
    match a.num?, b.num? with
    | some (r1, i1), some (r2, i2) => r1.eq r2 && i1.eq i2
    | _, _ => false
termination_by a b => sizeOf a + sizeOf b
def pyEqList : List PyVal → List PyVal → Bool
  | [], [] => true
  | a :: as, b :: bs => pyEq a b && pyEqList as bs
  | _, _ => false
termination_by a b => sizeOf a + sizeOf b
def pyMem (a : PyVal) : List PyVal → Bool
  | [] => false
  | b :: bs => pyEq a b || pyMem a bs
termination_by bs => sizeOf a + sizeOf bs
def pySubset : List PyVal → List PyVal → Bool
  | [], _ => true
  | a :: as, bs => pyMem a bs && pySubset as bs
termination_by a b => sizeOf a + sizeOf b
end

mutual
def hashable : PyVal → Bool
  | .none | .bool _ | .int _ | .float _ | .complex _ _ | .bytes _ | .str _ | .badstr => true
  | .channel _ => true
  | .foreign => true
  | .tuple xs => hashableAll xs
  | .frozenset _ => true
  | .list _ | .dict _ | .set _ => false
def hashableAll : List PyVal → Bool
  | [] => true
  | x :: xs => hashable x && hashableAll xs
end

/-- `set(items)`: keep the first of every class of equal elements, in order -/
def dedup : List PyVal → List PyVal → List PyVal
  | acc, [] => acc
  | acc, x :: xs => if pyMem x acc then dedup acc xs else dedup (acc ++ [x]) xs

/-- `d[k] = v` on an insertion-ordered dict: an equal key keeps its position *and the old key
object*, otherwise the pair is appended -/
def dictInsert (k v : PyVal) : List (PyVal × PyVal) → List (PyVal × PyVal)
  | [] => [(k, v)]
  | (k', v') :: rest => if pyEq k k' then (k', v) :: rest else (k', v') :: dictInsert k v rest

end ExecnetVerif
