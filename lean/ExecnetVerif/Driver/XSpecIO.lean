/-
Driver commands for the XSpec and Group models (C20).  Strings travel as hex of their UTF-8
encoding, the empty string as `-`.
  xspec.parse <s>                → ok <s> A <key>:<val>* E <name>:<val>*   | err <ErrorClass>
  xspec.getattr <s> <name>       → ok none | ok val <val> | ok env <name>:<val>* | ok text <s> | err <ErrorClass>
  xspec.eq <s> <t>               → ok <eq> <ne> <structurally equal>       | err <ErrorClass>  (T/F)
  xspec.kvs (<key> <-|S<val>>)*  → <okKeys> <okShape> <print> <parse result as in xspec.parse>
  group.run <step>*              → <outcome>* | live <id>#<obj>* | reserved <id>* (sorted) | counter <n>
      step = <t>:A | <t>:B | <t>:E:<id> | <t>:C | <t>:F | <t>:R | <t>:U:<obj>
  group.get <step>* ? <id>       → after the schedule: <index of the gateway group[id] in iteration order | KeyError> <id in group>
where <val> = T | S<hex>.  Not part of any theorem (exercised by the correspondence runs).
-/
import ExecnetVerif.Model.Bytes
import ExecnetVerif.Model.XSpec
import ExecnetVerif.Model.Group
namespace ExecnetVerif

open XSpec in
def strOfHex (h : String) : Option Str :=
  if h = "-" then some [] else do
    let b ← ofHex h
    let s ← utf8Decode b
    pure s.toList

open XSpec in
def hexOfStr (s : Str) : String :=
  if s.isEmpty then "-" else toHex (utf8Encode (String.ofList s))

namespace XSpec

def Err.render : Err → String
  | .indexError => "IndexError"
  | .attributeError => "AttributeError"
  | .valueError => "ValueError"

def Val.render : Val → String
  | .true => "T"
  | .str s => "S" ++ hexOfStr s

def renderPairs (l : List (Str × Val)) : String :=
  " ".intercalate (l.map fun kv => hexOfStr kv.1 ++ ":" ++ kv.2.render)

def Obj.render (o : Obj) : String :=
  let a := renderPairs o.attrs
  let e := renderPairs o.env
  "ok " ++ hexOfStr o.spec ++ " A" ++ (if a.isEmpty then "" else " " ++ a) ++ " E" ++
    (if e.isEmpty then "" else " " ++ e)

def renderResult : Except Err Obj → String
  | .ok o => o.render
  | .error e => "err " ++ e.render

def tf (b : Bool) : String := if b then "T" else "F"

def parseKvs : List String → Option (List (Str × Option Str))
  | [] => some []
  | k :: v :: rest => do
    let key ← strOfHex k
    let val ← if v = "-" then pure none else
      match v.toList with
      | 'S' :: h => (strOfHex (String.ofList h)).map some
      | _ => none
    let r ← parseKvs rest
    pure ((key, val) :: r)
  | _ => none

end XSpec

open XSpec in
/-- xspec commands of the driver -/
def xspecHandle : List String → Option String
  | ["xspec.parse", h] =>
    match strOfHex h with
    | some s => some (renderResult (parse s))
    | none => some "bad-op"
  | ["xspec.getattr", h, n] =>
    match strOfHex h, strOfHex n with
    | some s, some name =>
      match parse s with
      | .error e => some ("err " ++ e.render)
      | .ok o =>
        match getattr o name with
        | .error e => some ("err " ++ e.render)
        | .ok .none => some "ok none"
        | .ok (.val v) => some ("ok val " ++ v.render)
        | .ok (.env e) => some (("ok env " ++ renderPairs e).trimAsciiEnd.toString)
        | .ok (.text t) => some ("ok text " ++ hexOfStr t)
    | _, _ => some "bad-op"
  | ["xspec.eq", h1, h2] =>
    match strOfHex h1, strOfHex h2 with
    | some s, some t =>
      match parse s, parse t with
      | .ok x, .ok y => some s!"ok {tf (pyEq x y)} {tf (pyNe x y)} {tf (decide (x = y))}"
      | .error e, _ => some ("err " ++ e.render)
      | _, .error e => some ("err " ++ e.render)
    | _, _ => some "bad-op"
  | "xspec.kvs" :: toks =>
    match parseKvs toks with
    | some kvs =>
      some s!"{tf (decide (okKeys kvs))} {tf (okShape kvs)} {hexOfStr (print kvs)} {renderResult (parse (print kvs))}"
    | none => some "bad-op"
  | _ => none

namespace Group

def parseStep (tok : String) : Option (Nat × Op) :=
  match tok.splitOn ":" with
  | [t, "A"] => t.toNat?.map (·, .allocAuto)
  | [t, "B"] => t.toNat?.map (·, .beginAuto)
  | [t, "E", h] => do let n ← t.toNat?; let i ← strOfHex h; pure (n, .beginExplicit i)
  | [t, "C"] => t.toNat?.map (·, .createOk)
  | [t, "F"] => t.toNat?.map (·, .createFail)
  | [t, "R"] => t.toNat?.map (·, .register)
  | [t, "U", o] => do let n ← t.toNat?; let k ← o.toNat?; pure (n, .unregister k)
  | _ => none

def Out.render : Out → String
  | .ok => "ok"
  | .id i => "id:" ++ hexOfStr i
  | .valueError => "ValueError"
  | .noop => "noop"

def sortStrings (l : List String) : List String := (l.toArray.qsort (· < ·)).toList

def renderRun (r : State × List Out) : String :=
  let outs := " ".intercalate (r.2.map Out.render)
  let live := " ".intercalate (r.1.live.map fun w => hexOfStr w.id ++ "#" ++ toString w.obj)
  let res := " ".intercalate (sortStrings (r.1.reserved.map hexOfStr))
  s!"{outs} | live {live} | reserved {res} | counter {r.1.counter}"

end Group

open Group in
/-- group commands of the driver -/
def groupHandle : List String → Option String
  | "group.run" :: toks =>
    match toks.mapM parseStep with
    | some sched => some (renderRun (run init sched))
    | none => some "bad-op"
  | "group.get" :: toks =>
    match toks.span (· ≠ "?") with
    | (steps, ["?", h]) =>
      match steps.mapM parseStep, strOfHex h with
      | some sched, some i =>
        let g := (run init sched).1
        let idx := match getId g i with
          | some w => match (iter g).findIdx? (· == w) with
            | some k => toString k
            | none => "lost"
          | none => "KeyError"
        some s!"{idx} {XSpec.tf (containsId g i)}"
      | _, _ => some "bad-op"
    | _ => some "bad-op"
  | _ => none

end ExecnetVerif
