"""Function-level fingerprints of execnet's source: which of the functions a property is anchored in differ from the tree the
verification was frozen on?

A fingerprint is the sha1 of `ast.dump` of a function's body without its docstring (layout and comments do not matter).
`harness/fingerprint_frozen.json` holds the fingerprints of the tree the checks were developed and soaked on (refresh it with
`python3 -m harness.fingerprint --freeze` after a `fix:` commit).  When a function relevant to a property differs, the quick
tier of that property's check runs with its enlarged ("search") budgets: a change in the anchored code is looked at harder.
It never turns a passing run into a failing one and is no proof obligation — the tie between model and code remains the
translator's pinned tables and the correspondence runs.

Relevance: the identifiers named in the property's anchors (`properties.jsonl`: every `where` field) plus the functions
listed for the property in `harness/deepen_map.json` (e.g. the 21 functions `Model/Net.lean` transcribes).
"""
from __future__ import annotations

import ast
import hashlib
import json
import os
import re
import sys

from . import common

FROZEN = os.path.join(os.path.dirname(os.path.abspath(__file__)), "fingerprint_frozen.json")
MAP = os.path.join(os.path.dirname(os.path.abspath(__file__)), "deepen_map.json")


def _strip_doc(body):
    if body and isinstance(body[0], ast.Expr) and isinstance(body[0].value, ast.Constant) and isinstance(body[0].value.value, str):
        return body[1:]
    return body


def _fp(nodes):
    # `ast.unparse` (normalised source text) rather than `ast.dump`: node fields differ between Python versions
    return hashlib.sha1("\n".join(ast.unparse(n) for n in nodes).encode()).hexdigest()[:16]


def compute(repo=None):
    repo = repo or common.REPO
    root = os.path.join(repo, "src", "execnet")
    out = {}
    for dirpath, _dirs, files in os.walk(root):
        for fn in sorted(files):
            if not fn.endswith(".py") or fn == "_version.py":
                continue
            path = os.path.join(dirpath, fn)
            rel = os.path.relpath(path, root)
            try:
                tree = ast.parse(open(path, encoding="utf-8").read())
            except SyntaxError:
                out[rel + ":<module>"] = "syntax-error"
                continue
            rest = []
            for node in _strip_doc(tree.body):
                if isinstance(node, (ast.FunctionDef, ast.AsyncFunctionDef)):
                    out["%s:%s" % (rel, node.name)] = _fp([node.args] + _strip_doc(node.body))
                elif isinstance(node, ast.ClassDef):
                    crest = []
                    for sub in _strip_doc(node.body):
                        if isinstance(sub, (ast.FunctionDef, ast.AsyncFunctionDef)):
                            out["%s:%s.%s" % (rel, node.name, sub.name)] = _fp([sub.args] + _strip_doc(sub.body))
                        else:
                            crest.append(sub)
                    out["%s:%s.<class>" % (rel, node.name)] = _fp(node.bases + crest)
                else:
                    rest.append(node)
            out[rel + ":<module>"] = _fp(rest)
    return out


def changed(repo=None):
    """keys (file:qualname) whose fingerprint differs from the frozen one (added and removed functions included)"""
    try:
        frozen = json.load(open(FROZEN))
    except (OSError, ValueError):
        return []
    if frozen.get("__python__") != "%d.%d" % sys.version_info[:2]:
        return []   # frozen by another interpreter version: the normal forms may differ, so no statement is made
    cur = compute(repo)
    return sorted(k for k in (set(frozen) | set(cur)) - {"__python__"} if frozen.get(k) != cur.get(k))


def relevant_names(prop):
    names = set()
    try:
        for line in open(os.path.join(common.VERIF, "properties.jsonl")):
            p = json.loads(line)
            if p.get("id") != prop:
                continue

            def walk(o):
                if isinstance(o, dict):
                    for k, v in o.items():
                        if k == "where" and isinstance(v, str):
                            for part in v.split(";"):
                                tail = part.split(".py:", 1)[1] if ".py:" in part else ""
                                names.update(re.findall(r"[A-Za-z_][A-Za-z0-9_]*", tail))
                        else:
                            walk(v)
                elif isinstance(o, list):
                    for x in o:
                        walk(x)
            walk(p.get("anchors", {}))
    except OSError:
        pass
    try:
        names.update(json.load(open(MAP)).get(prop, []))
    except (OSError, ValueError):
        pass
    return names


def changed_for(prop, repo=None):
    """the changed functions that matter for `prop`"""
    names = relevant_names(prop)
    out = []
    for key in changed(repo):
        qual = key.split(":", 1)[1]
        parts = [x for x in qual.split(".") if not x.startswith("<")]
        if qual in names or any(x in names for x in parts):
            out.append(key)
    return out


if __name__ == "__main__":
    if "--freeze" in sys.argv:
        fp = compute()
        fp["__python__"] = "%d.%d" % sys.version_info[:2]
        json.dump(fp, open(FROZEN, "w"), indent=0, sort_keys=True)
        print("frozen", len(json.load(open(FROZEN))), "fingerprints of", common.REPO)
    else:
        for prop in sys.argv[1:] or []:
            print(prop, changed_for(prop))
        if len(sys.argv) == 1:
            print(changed())
