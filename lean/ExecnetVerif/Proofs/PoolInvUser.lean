import ExecnetVerif.Proofs.PoolInv
namespace ExecnetVerif.Pool
set_option maxHeartbeats 1600000

theorem inv_spawnAcq {c : Config} {s s' : State} {i : Uid} {t} (hc : c.old = false) (h : Inv c s)
    (hs : userStep c s i (.spawnAcq t) = some s') : Inv c s' := by
  simp only [userStep, hc, Bool.false_eq_true, false_or] at hs
  inv_open h
  have hgate : c.gated = true → ∀ u, s.phase u ≠ .unused → bodyEnded (s.phase u) = true := by
    intro hg u hu; split at hs
    · rename_i hh; exact gateOk_spec hh.2.2.2 hg u ((acc u).2 hu)
    · cases hs
  inv_step hs

theorem inv_spawnCheck {c : Config} {s s' : State} {i : Uid}  (hc : c.old = false) (h : Inv c s)
    (hs : userStep c s i (.spawnCheck) = some s') : Inv c s' := by
  simp only [userStep, hc, Bool.false_eq_true, false_or] at hs
  inv_open h
  inv_step hs
  case h_1.refl.pend t _ _ _ _ _ m _ _ =>
    intro u hu
    by_cases hut : u = t
    · subst hut; exact ⟨i, m, by simp [upd]⟩
    · obtain ⟨j, m', hj⟩ := pend u (by grind)
      refine ⟨j, m', ?_⟩
      grind

theorem inv_spawnWaitfin {c : Config} {s s' : State} {i : Uid}  (hc : c.old = false) (h : Inv c s)
    (hs : userStep c s i (.spawnWaitfin) = some s') : Inv c s' := by
  simp only [userStep, hc, Bool.false_eq_true, false_or] at hs
  inv_open h
  inv_step hs

theorem inv_spawnRelease {c : Config} {s s' : State} {i : Uid}  (hc : c.old = false) (h : Inv c s)
    (hs : userStep c s i (.spawnRelease) = some s') : Inv c s' := by
  simp only [userStep, hc, Bool.false_eq_true, false_or] at hs
  inv_open h
  inv_step hs

theorem inv_spawnReturn {c : Config} {s s' : State} {i : Uid}  (hc : c.old = false) (h : Inv c s)
    (hs : userStep c s i (.spawnReturn) = some s') : Inv c s' := by
  simp only [userStep, hc, Bool.false_eq_true, false_or] at hs
  inv_open h
  inv_step hs

theorem inv_refusedReturn {c : Config} {s s' : State} {i : Uid}  (hc : c.old = false) (h : Inv c s)
    (hs : userStep c s i (.refusedReturn) = some s') : Inv c s' := by
  simp only [userStep, hc, Bool.false_eq_true, false_or] at hs
  inv_open h
  inv_step hs

theorem inv_shutAcq {c : Config} {s s' : State} {i : Uid}  (hc : c.old = false) (h : Inv c s)
    (hs : userStep c s i (.shutAcq) = some s') : Inv c s' := by
  simp only [userStep, hc, Bool.false_eq_true, false_or] at hs
  inv_open h
  inv_step hs

theorem inv_shutDo {c : Config} {s s' : State} {i : Uid}  (hc : c.old = false) (h : Inv c s)
    (hs : userStep c s i (.shutDo) = some s') : Inv c s' := by
  simp only [userStep, hc, Bool.false_eq_true, false_or] at hs
  inv_open h
  inv_step hs

theorem inv_shutReturn {c : Config} {s s' : State} {i : Uid}  (hc : c.old = false) (h : Inv c s)
    (hs : userStep c s i (.shutReturn) = some s') : Inv c s' := by
  simp only [userStep, hc, Bool.false_eq_true, false_or] at hs
  inv_open h
  inv_step hs

theorem inv_waAcq {c : Config} {s s' : State} {i : Uid} {b} (hc : c.old = false) (h : Inv c s)
    (hs : userStep c s i (.waAcq b) = some s') : Inv c s' := by
  simp only [userStep, hc, Bool.false_eq_true, false_or] at hs
  inv_open h
  inv_step hs

theorem inv_waCheck {c : Config} {s s' : State} {i : Uid}  (hc : c.old = false) (h : Inv c s)
    (hs : userStep c s i (.waCheck) = some s') : Inv c s' := by
  simp only [userStep, hc, Bool.false_eq_true, false_or] at hs
  inv_open h
  inv_step hs
  case h_1.isTrue.refl.wtrueR hrun =>
    intro j hj t ht
    have h1 := wsn j (by grind [inWa]) t ht
    have h2 := not_live (p := s.phase t) (by have := run t; simp [hrun] at this; simpa using this)
    grind

theorem inv_waWake {c : Config} {s s' : State} {i : Uid}  (hc : c.old = false) (h : Inv c s)
    (hs : userStep c s i (.waWake) = some s') : Inv c s' := by
  simp only [userStep, hc, Bool.false_eq_true, false_or] at hs
  inv_open h
  inv_step hs

theorem inv_waTimeout {c : Config} {s s' : State} {i : Uid}  (hc : c.old = false) (h : Inv c s)
    (hs : userStep c s i (.waTimeout) = some s') : Inv c s' := by
  simp only [userStep, hc, Bool.false_eq_true, false_or] at hs
  inv_open h
  inv_step hs

theorem inv_waReturn {c : Config} {s s' : State} {i : Uid}  (hc : c.old = false) (h : Inv c s)
    (hs : userStep c s i (.waReturn) = some s') : Inv c s' := by
  simp only [userStep, hc, Bool.false_eq_true, false_or] at hs
  inv_open h
  inv_step hs

theorem inv_getCall {c : Config} {s s' : State} {i : Uid} {t b} (hc : c.old = false) (h : Inv c s)
    (hs : userStep c s i (.getCall t b) = some s') : Inv c s' := by
  simp only [userStep, hc, Bool.false_eq_true, false_or] at hs
  inv_open h
  inv_step hs

theorem inv_getOk {c : Config} {s s' : State} {i : Uid}  (hc : c.old = false) (h : Inv c s)
    (hs : userStep c s i (.getOk) = some s') : Inv c s' := by
  simp only [userStep, hc, Bool.false_eq_true, false_or] at hs
  inv_open h
  inv_step hs

theorem inv_getTimeout {c : Config} {s s' : State} {i : Uid}  (hc : c.old = false) (h : Inv c s)
    (hs : userStep c s i (.getTimeout) = some s') : Inv c s' := by
  simp only [userStep, hc, Bool.false_eq_true, false_or] at hs
  inv_open h
  inv_step hs

theorem inv_getReturn {c : Config} {s s' : State} {i : Uid}  (hc : c.old = false) (h : Inv c s)
    (hs : userStep c s i (.getReturn) = some s') : Inv c s' := by
  simp only [userStep, hc, Bool.false_eq_true, false_or] at hs
  inv_open h
  inv_step hs

end ExecnetVerif.Pool
