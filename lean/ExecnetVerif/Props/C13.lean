/-
C13 — Loading untrusted bytes is total, typed-error-only and side-effect free.
-/
import ExecnetVerif.Proofs.SerGrammar
import ExecnetVerif.Proofs.SerPrefix
import ExecnetVerif.Props.C01
import ExecnetVerif.Generated.Tables
import ExecnetVerif.Proofs.ReadExactLemmas
namespace ExecnetVerif

/-- **C13 (totality and typed errors).** `loads` is a total function of the byte string — Lean
accepts its definition only because every opcode consumes input monotonically (`step_len`, the
termination proof of `run`) — and for EVERY byte string its only outcomes are a value, EOFError or
DataFormatError.  MemoryError can arise only under a finite memory limit (the known finding:
NEWLIST counts are trusted). -/
theorem C13_typed (cfg : Cfg) (bs : Bytes) :
    (∃ v, loads cfg bs = .ok v) ∨ loads cfg bs = .error .eof ∨ loads cfg bs = .error .dataFormat
      ∨ (cfg.memLimit ≠ none ∧ loads cfg bs = .error .memory) := by
  cases h : loads cfg bs with
  | ok v => exact Or.inl ⟨v, rfl⟩
  | error e =>
    cases e with
    | eof => exact Or.inr (Or.inl rfl)
    | dataFormat => exact Or.inr (Or.inr (Or.inl rfl))
    | memory =>
      refine Or.inr (Or.inr (Or.inr ⟨?_, rfl⟩))
      unfold loads at h
      split at h
      · cases h
      · split at h
        · exact run_memory cfg _ _ _ (Nat.le_refl _) h
        · cases h

/-- with unbounded memory the outcome is a value, EOFError or DataFormatError — nothing else -/
theorem C13_typed_unbounded (cfg : Cfg) (hm : cfg.memLimit = none) (bs : Bytes) :
    (∃ v, loads cfg bs = .ok v) ∨ loads cfg bs = .error .eof ∨ loads cfg bs = .error .dataFormat := by
  rcases C13_typed cfg bs with h | h | h | ⟨h, _⟩
  · exact Or.inl h
  · exact Or.inr (Or.inl h)
  · exact Or.inr (Or.inr h)
  · exact absurd hm h

/-- **C13 (grammar / no channel objects outside a gateway).** Whatever the bytes, a value returned
by `loads` without a channel factory is built only from the supported builtin types: it contains
no channel object and no foreign object at any depth. -/
theorem C13_grammar (cfg : Cfg) (hf : cfg.hasFactory = false) (bs : Bytes) (v : PyVal)
    (h : loads cfg bs = .ok v) : clean v = true := by
  unfold loads at h
  split at h
  · cases h
  · split at h
    · exact run_clean cfg hf _ _ [] (Nat.le_refl _) (by intro x hx; simp at hx) v h
    · cases h

/-- **C13 (version).** A foreign version byte is rejected with DataFormatError, whatever follows. -/
theorem C13_version (cfg : Cfg) (b : UInt8) (rest : Bytes) (h : b ≠ dumpVersion) :
    loads cfg (b :: rest) = .error .dataFormat := by
  simp [loads, h]

/-- **C13 (no prefix).** No strict prefix of a valid dump loads successfully: loading it fails, and it
fails as "the input ended early" (EOFError).  (`dumps v = .ok (dumpVersion :: (enc v ++ [opSTOP]))`
for a well-formed `v` is `C01_total`.) -/
theorem C13_no_prefix (cfg : Cfg) (hcfg : cfg.py3str_as_py2str = false) (hmem : cfg.memLimit = none)
    (v : PyVal) (h : WF v) (p : Bytes) (hp : p <+: dumpVersion :: (enc v ++ [opSTOP]))
    (hne : p ≠ dumpVersion :: (enc v ++ [opSTOP])) : loads cfg p = .error .eof := by
  rcases SP_cons ((SP_iff _ _).mpr ⟨hp, hne⟩) with rfl | ⟨q, rfl, hq⟩
  · rfl
  · simp only [loads, if_true]
    exact run_dump_prefix cfg hcfg hmem v h q hq []

/-- the same, stated against `dumps`: every strict prefix of the bytes `dumps` produces -/
theorem C13_no_prefix_dumps (cfg : Cfg) (hcfg : cfg.py3str_as_py2str = false)
    (hmem : cfg.memLimit = none) (v : PyVal) (h : WF v) (bs p : Bytes) (hd : dumps v = .ok bs)
    (hp : p <+: bs) (hne : p ≠ bs) : loads cfg p = .error .eof := by
  unfold dumps at hd
  split at hd
  · cases hd
  · cases hd; exact C13_no_prefix cfg hcfg hmem v h p hp hne

/-- the empty input "merely ends early" -/
theorem C13_empty (cfg : Cfg) : loads cfg [] = .error .eof := rfl

/-- **C13 (never runs code).** Every function or method called anywhere inside the loader class
(regenerated from the source on every run) is on this allow-list of data-only operations. -/
def loaderAllowList : List String :=
  ["EOFError", "LoadError", "as_bytes.decode", "complex", "int", "isinstance", "len", "loader",
   "self._load_collection", "self._read_byte_string", "self._read_byte_string().decode",
   "self._read_exact", "self._read_int4", "self.channelfactory.new", "self.stack.append",
   "self.stack.pop", "self.stream.read", "struct.unpack", "type_"]

theorem C13_no_code_exec : ∀ c ∈ Generated.loaderCalls, c ∈ loaderAllowList := by decide

/-! non-vacuity: garbage that loads, garbage that fails in each class -/
example : loads cfgPublic [dumpVersion, opNONE, opSTOP] = .ok .none := by
  simp only [loads, if_true]
  rw [run_cont (step_NONE _ _ _), run_stop (step_STOP _ _ _)]; rfl
example : loads cfgPublic [dumpVersion, opNONE] = .error .eof := by
  simp only [loads, if_true]
  rw [run_cont (step_NONE _ _ _), run_nil]
example : loads cfgPublic [dumpVersion, opCHANNEL, 0, 0, 0, 1, opSTOP] = .error .dataFormat := by
  simp only [loads, if_true]
  exact run_err (by rw [step_CHANNEL]; rfl)

/-! non-vacuity of `C13_no_prefix`: a nested well-formed value, its dump, and a strict prefix cut
inside the string payload of the dict value -/
def c13Sample : PyVal := .tuple [.list [.int 7, .none], .dict [(.int 1, .str "ab")]]

theorem c13Sample_WF : WF c13Sample := by
  simp [c13Sample, WF, WFAll, WFPairs, fresh, hashable, pyMem, inI32, two31_eq]; decide

example : dumps c13Sample = .ok
    [2, 75, 0, 0, 0, 2, 70, 0, 0, 0, 0, 70, 0, 0, 0, 7, 80, 70, 0, 0, 0, 1, 76, 80,
     74, 70, 0, 0, 0, 1, 78, 0, 0, 0, 2, 97, 98, 80, 64, 0, 0, 0, 2, 81] := by
  rw [C01_total _ c13Sample_WF]; exact congrArg Except.ok (by decide)

example : loads cfgPublic
    [2, 75, 0, 0, 0, 2, 70, 0, 0, 0, 0, 70, 0, 0, 0, 7, 80, 70, 0, 0, 0, 1, 76, 80,
     74, 70, 0, 0, 0, 1, 78, 0, 0, 0, 2, 97] = .error .eof :=
  C13_no_prefix cfgPublic rfl rfl c13Sample c13Sample_WF _ (by decide) (by decide)

/-! ### `load()` from a stream that hands the bytes out in pieces (`Model/Chunk.lean`: `unserReadExact`) -/

/-- `Unserializer._read_exact` as the translator reads it: one `read(numbytes)`, then `read(numbytes - len(buf))` until
complete, `EOFError` on an empty read, negative counts refused before anything is read -/
theorem C13_read_exact_pinned :
    Generated.readExactSteps = [(0, "if numbytes < 0"), (1, "raise LoadError"), (0, "buf = self.stream.read(numbytes)"),
      (0, "while len(buf) < numbytes"), (1, "data = self.stream.read(numbytes - len(buf))"), (1, "if not data"),
      (2, "raise EOFError"), (1, "buf += data"), (0, "return buf")] := by
  decide

/-- **C13 / C01 (any chunking).** However the stream cuts the input into non-empty pieces — every list of chunks —
`_read_exact(n)` returns exactly the next `n` bytes and leaves exactly the rest, or, when fewer than `n` bytes are left,
ends with `EOFError("expected n bytes, got <all that was left>")`: what `load()` sees does not depend on the chunking, so it
is what `loads()` sees on the concatenation. -/
theorem C13_read_exact_any_chunking (chunks : List Bytes) (n : Nat) (hne : ∀ c ∈ chunks, c ≠ []) :
    (n ≤ chunks.flatten.length →
      ∃ rest, unserReadExact chunks n = .ok (chunks.flatten.take n, rest) ∧ rest.flatten = chunks.flatten.drop n) ∧
    (chunks.flatten.length < n → unserReadExact chunks n = .error chunks.flatten.length) :=
  ⟨unserReadExact_ok chunks n hne, unserReadExact_short chunks n hne⟩

/-- non-vacuity: 7 bytes in pieces of 1, 3, 2, 1; asking for 5 gives the first five and leaves the last two, asking for 9 fails
having got 7 -/
example : unserReadExact [[1], [2, 3, 4], [5, 6], [7]] 5 = .ok ([1, 2, 3, 4, 5], [[6], [7]]) ∧
    unserReadExact [[1], [2, 3, 4], [5, 6], [7]] 9 = .error 7 := ⟨rfl, rfl⟩

end ExecnetVerif
