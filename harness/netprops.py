"""Shared machinery of the channel-protocol properties C02, C03, C04 (protocol level), C07, C10, C18:

(a) op-level correspondence: random operation programs on the real in-process gateway pair
    (harness/netexec.py) vs. the Lean `Net` model (`net.run`), outputs and state digests compared;
(b) transcript oracles (model-free) evaluated on those same runs;
(c) thread-level scenarios (harness/netthreads.py) under random schedules, judged by model-free oracles.
"""
from __future__ import annotations

import re

from . import common, netexec, netthreads
from . import sched as S


# ---------------------------------------------------------------------------------------------
# (a) + (b): op-level programs
# ---------------------------------------------------------------------------------------------
def parse_transcript(ops, outs):
    """per (side,id): items sent ok, items obtained by recv, and the sequence of API results"""
    sent, recvd, api = {}, {}, {}
    chans = []
    for op, out in zip(ops, outs):
        t = op.split()
        if out.startswith("chan "):
            chans.append((t[0], t[1] if len(t) > 1 else "A", int(out.split()[1])))
        if len(t) >= 3 and t[0] in ("send", "recv", "close", "wait", "setcb", "isclosed", "drop"):
            key = (t[1], int(t[2]))
            api.setdefault(key, []).append((t[0], t[3:] if len(t) > 3 else [], out))
            if t[0] == "send" and out == "ok":
                sent.setdefault(key, []).append(int(t[3]))
            if t[0] == "recv" and out.startswith("item "):
                recvd.setdefault(key, []).append(int(out.split()[1].split(":")[0]))
    return sent, recvd, api, chans


def is_subsequence(a, b):
    it = iter(b)
    return all(x in it for x in a)


def _re_fin(digest, side):
    import re
    m = re.search(r"\b%s count=\d+ fin=(\d)" % side, digest)
    return bool(m) and m.group(1) == "1"


def transcript_oracles(prop, ops, outs, rp, res):
    """model-free checks on one op-level run; `rp` is the RandomProgram (for callback logs / alias events)"""
    sent, recvd, api, chans = parse_transcript(ops, outs)
    case = {"ops": " ; ".join(ops)}
    peer = {"A": "B", "B": "A"}
    aliased = getattr(rp, "aliased", set())
    if prop in ("C02", "C10"):
        for side in "AB":
            keys = set(k for k in recvd if k[0] == side) | set((side, cid) for cid in rp.cblog_final[side])
            for key in keys:
                if key in aliased:
                    continue
                cb_items = [int(e[1:].split(":")[0]) for e in rp.cblog_final[side].get(key[1], []) if e.startswith("i")]
                got = recvd.get(key, []) + cb_items
                src = sent.get((peer[side], key[1]), [])
                if len(set(got)) != len(got):
                    res.violations.append(dict(case=case, what=f"item obtained twice on {key}: {got}"))
                elif not is_subsequence(got, src):
                    res.violations.append(dict(case=case, what=f"items obtained on {key} are not the items sent by the peer in order: got {got}, sent {src}"))
    if prop == "C10":
        for side in "AB":
            for cid, log in rp.cblog_final[side].items():
                if (side, cid) in aliased:
                    continue
                if "E" in log[:-1] or log.count("E") > 1:
                    res.violations.append(dict(case=case, what=f"endmarker not exactly once / not last in callback log of {(side, cid)}: {log}"))
            for key, calls in api.items():
                if key[0] != side or key in aliased:
                    continue
                mode = None
                for name, args, out in calls:
                    if name == "setcb" and out in ("ok", "cbRaised"):
                        if mode is not None:
                            res.violations.append(dict(case=case, what=f"second setcallback accepted on {key}"))
                        mode = (args[0] == "1", out)
                    elif name == "setcb" and mode is not None and out != "OSError":
                        res.violations.append(dict(case=case, what=f"second setcallback on {key} gave {out}, expected OSError"))
                    elif name == "recv" and mode is not None and out not in ("OSError", "noten"):
                        res.violations.append(dict(case=case, what=f"receive() after setcallback on {key} gave {out}, expected OSError"))
                if mode is not None and mode[1] == "ok":
                    log = rp.cblog_final[side].get(key[1], [])
                    registered = key[1] in rp.cbs_final[side]
                    if mode[0] and not registered and "E" not in log:
                        res.violations.append(dict(case=case, what=f"callback of {key} was unregistered without delivering the requested endmarker: {log}"))
                    if registered and "E" in log:
                        res.violations.append(dict(case=case, what=f"endmarker delivered on {key} but the callback is still registered"))
                    if not mode[0] and "E" in log:
                        res.violations.append(dict(case=case, what=f"endmarker delivered on {key} although none was requested"))
    if prop in ("C04", "C10"):
        # after the receiver of a side finished (connection loss), no callback may stay registered there and every
        # requested endmarker must have been delivered
        for op, out in zip(ops, outs):
            t = op.split()
            if t[0] == "cut" and out == "ok":
                side = t[1]
                if rp.cbs_final[side]:
                    res.violations.append(dict(case=case, what=f"callbacks still registered on side {side} after its connection was lost: {sorted(rp.cbs_final[side])}"))
                for key, calls in api.items():
                    if key[0] != side or key in aliased:
                        continue
                    for name, args, o in calls:
                        if name == "setcb" and o == "ok" and args[0] == "1" and "E" not in rp.cblog_final[side].get(key[1], []):
                            res.violations.append(dict(case=case, what=f"callback of {key} requested an endmarker but never got it although the connection was lost"))
    if prop == "C03":
        # close() on the channel of a still running remote_exec is refused by design ("cannot explicitly close channel within
        # remote_exec", C06) whatever the channel's state: those calls are not "second closes"
        executing, nclose, refused = set(), {}, set()
        for op, out in zip(ops, outs):
            t = op.split()
            if t[0] == "rexec" and out.startswith("chan "):
                executing.add(int(out.split()[1]))
            elif t[0] == "finish" and out != "noten":
                executing.discard(int(t[1]))
            elif t[0] == "close":
                k2 = (t[1], int(t[2]))
                nclose[k2] = nclose.get(k2, 0) + 1
                if t[1] == "B" and int(t[2]) in executing:
                    refused.add((k2, nclose[k2]))
        for key, calls in api.items():
            if key in aliased:
                continue
            ended = False
            closed = False
            ncl = 0
            for name, args, out in calls:
                if name == "close":
                    ncl += 1
                    if (key, ncl) in refused:
                        if out not in ("OSError", "noten"):
                            res.violations.append(dict(case=case, what=f"close() inside the running remote_exec of {key} gave {out} (expected OSError)"))
                        continue
                if name == "recv":
                    if ended and out.startswith("item"):
                        res.violations.append(dict(case=case, what=f"an item was received on {key} after EOF had been observed"))
                    if ended and out == "block":
                        res.violations.append(dict(case=case, what=f"receive blocked on {key} after EOF had been observed"))
                    if out == "EOFError" or out.startswith("RemoteError"):
                        ended = True
                if closed:
                    if name == "send" and out not in ("OSError", "noten"):
                        res.violations.append(dict(case=case, what=f"send on closed channel {key} gave {out}"))
                    if name == "isclosed" and out == "false":
                        res.violations.append(dict(case=case, what=f"isclosed false after close on {key}"))
                    if name == "wait" and out == "block":
                        res.violations.append(dict(case=case, what=f"waitclose blocked on closed channel {key}"))
                    if name == "close" and out not in ("ok", "noten"):
                        res.violations.append(dict(case=case, what=f"second close on {key} gave {out}"))
                if name == "close" and out == "ok":
                    closed = True
                if name == "isclosed" and out == "true":
                    closed = True
                if name == "drop" and out == "ok":
                    break
    if prop == "C18":
        ids = [c[2] for c in chans]
        if len(set(ids)) != len(ids):
            res.violations.append(dict(case=case, what=f"a channel id was handed out twice: {ids}"))
        for kind, side, cid in chans:
            want = 1 if (kind == "rexec" or side == "A") else 0
            if cid % 2 != want:
                res.violations.append(dict(case=case, what=f"id {cid} allocated by side {side if kind != 'rexec' else 'A'} has the wrong parity"))
    if prop in ("C02", "C10", "C18") and getattr(rp, "digest", None):
        # no loss, model-free: every frame has been delivered (both pipes empty, nobody finished), side S registered a callback
        # on the conversation and never closed it itself, no callback failed: then what S obtained (receive before the
        # callback + the callback's log) is exactly what the peer sent successfully — also when S dropped its channel object
        # after setcallback (the callback lives on)
        import re as _re3
        if rp.digest.count("out=") == 2 and all(m.group(1) == "-" for m in _re3.finditer(r"\bout=(\S+)", rp.digest)) and "fin=1" not in rp.digest:
            had_from_start = set()
            for kind, cside, ccid in chans:
                if kind == "rexec":
                    had_from_start.update({("A", ccid), ("B", ccid)})   # the exec frame precedes every data frame
                else:
                    had_from_start.add((cside, ccid))                  # its creator; a peer that learns of the channel
                                                                       # later may have dropped earlier items (no receiver yet)
            for (side, cid), calls in api.items():
                if (side, cid) in aliased or (peer[side], cid) in aliased or (side, cid) not in had_from_start:
                    continue
                names = [nm for nm, _a, _o in calls]
                if not any(nm == "setcb" and o == "ok" for nm, _a, o in calls) or "close" in names:
                    continue
                if side == "B" and any(op.split()[0] == "finish" and int(op.split()[1]) == cid for op in ops):
                    continue  # the end of the body closes the worker's own channel: later items of the initiator are refused
                if "drop" in names and names.index("drop") < min(i for i, (nm, _a, o) in enumerate(calls) if nm == "setcb" and o == "ok"):
                    continue
                src = sent.get((peer[side], cid), [])
                if any(v % 100 == 99 for v in src):
                    continue
                cb_items = [int(e[1:].split(":")[0]) for e in rp.cblog_final[side].get(cid, []) if e.startswith("i")]
                got = recvd.get((side, cid), []) + cb_items
                if got != src:
                    res.violations.append(dict(case=case, what=f"items lost on {(side, cid)}: every frame was delivered and the side kept its callback, "
                                                               f"but it obtained {got} of the {src} the peer sent"))
    if prop in ("C10", "C18") and getattr(rp, "digest", None):
        # a conversation that the peer has ended (close / end of the body / drop) and whose frames have all been delivered:
        # a callback registered with an endmarker has got it, and the callback table has forgotten the id
        import re as _re2
        outs_empty = all(m.group(1) == "-" for m in _re2.finditer(r"\bout=(\S+)", rp.digest)) and rp.digest.count("out=") == 2
        if outs_empty and "fin=1" not in rp.digest:
            ended = set()
            for op, out in zip(ops, outs):
                t = op.split()
                if t[0] == "close" and out == "ok":
                    ended.add((peer[t[1]], int(t[2])))
                elif t[0] == "finish" and out in ("ok", "OSError"):
                    ended.add(("A", int(t[1])))
            for (side, cid) in sorted(ended):
                if (side, cid) in aliased or (peer[side], cid) in aliased:
                    continue
                wants = [a for (nm, a, o) in api.get((side, cid), []) if nm == "setcb" and o == "ok"]
                if not wants:
                    continue
                log = rp.cblog_final[side].get(cid, [])
                if wants[-1] and wants[-1][0] == "1" and "E" not in log:
                    res.violations.append(dict(case=case, what=f"the peer ended conversation {cid} and every frame was delivered, but the callback on side {side} never got its endmarker (log {log[-3:]})"))
                if cid in rp.cbs_final[side]:
                    res.violations.append(dict(case=case, what=f"callback of the ended conversation {cid} is still registered on side {side}"))
    if prop == "C18" and getattr(rp, "digest", None):
        # "once a channel is closed or dropped both sides forget it": an id whose last reference was dropped is not in that
        # side's channel table at the end (the generator never re-opens a dropped id on the same side)
        import re as _re
        regs = {m.group(1): set(int(x) for x in m.group(2).split(",") if x != "-")
                for m in _re.finditer(r"\b([AB]) count=\d+ fin=\d reg=(\S+)", rp.digest)}
        travelled = set(int(c) for op in ops if op.startswith("send ") and len(op.split()) == 5 for c in op.split()[4].split(","))
        for op, out in zip(ops, outs):
            t = op.split()
            if t[0] == "drop" and out == "ok" and int(t[2]) not in travelled and int(t[2]) in regs.get(t[1], ()):
                res.violations.append(dict(case=case, what=f"channel {t[2]} still in side {t[1]}'s channel table although its last reference was dropped"))
    if prop == "C07" and getattr(rp, "digest", None) and not any(op.startswith("cut ") for op in ops):
        # "the gateway connection itself stays up": without a connection loss in the program neither receiver thread ends
        for side_ in "AB":
            if ("%s count=" % side_) in rp.digest and _re_fin(rp.digest, side_):
                res.violations.append(dict(case=case, what=f"the receiver thread of side {side_} ended although the connection was never cut (a failure on one channel took the gateway down)"))
    if prop == "C07":
        # a RemoteError for one channel never shows up on another: every RemoteError id must stem from an op on that id
        for key, calls in api.items():
            if key in aliased:
                continue
            for name, args, out in calls:
                if out.startswith("RemoteError -1"):
                    res.violations.append(dict(case=case, what=f"improper remote error object on {key}: {out}"))
            # receiver thread must survive failing callbacks: checked via thread errors by the caller


class Program(netexec.RandomProgram):
    def run_random(self):
        self.aliased = set()
        r = super().run_random()
        return r

    def check_alias(self):
        before = {s: set(self.h[s]) for s in "AB"}
        super().check_alias()
        for s in "AB":
            for cid in before[s] - set(self.h[s]):
                if cid not in getattr(self, "_dropped_now", set()):
                    self.aliased.add((s, cid))

    def do1(self, op):
        t = op.split()
        self._dropped_now = {int(t[2])} if t[0] == "drop" else set()
        return super().do1(op)

    def make_digest(self):
        self.cblog_final = {s: {k: list(v) for k, v in self.cblog[s].items()} for s in "AB"}
        self.cbs_final = {s: set(self.gw[s]._channelfactory._callbacks.keys()) for s in "AB"}
        return super().make_digest()


def op_level(ctx, res, prop, nprog, profile=None):
    execnet = ctx.execnet

    def worker(indices):
        r = common.Result()
        runs = []
        for i in indices:
            prng = common.rng_for(ctx.seed, f"{prop}:prog:{i}")
            rp = Program(execnet, prng, nops=prng.choice([6, 12, 25, 40]), profile=profile or {})
            ops, outs, dig = rp.run_random()
            r.count(tuple(ops), nontrivial=len(ops) > 3)
            for op in ops:
                r.stat("op_" + op.split()[0])
            if rp.error:
                r.violations.append(dict(case={"ops": " ; ".join(ops)}, what="real gateway pair failed under the op program: " + rp.error))
                continue
            transcript_oracles(prop, ops, outs, rp, r)
            runs.append((i, ops, outs, dig))
            if i < 3:
                r.sample({"ops": " ; ".join(ops)[:300], "outs": " ; ".join(outs)[:300]})
        return r, runs

    runs = []
    for part, rr in common.fork_map(nprog, worker):
        common.merge_results(res, part)
        runs += rr
    runs.sort(key=lambda t: t[0])
    model = ctx.driver.ask(["net.run " + " ; ".join(ops) for _i, ops, _o, _d in runs])
    for (_i, ops, outs, dig), m in zip(runs, model):
        impl = " ; ".join(outs) + " | " + (dig or "?")
        if impl != m:
            mo = m.split(" | ")[0].split(" ; ")
            first = next((i for i, (a, b) in enumerate(zip(outs, mo)) if a != b), None)
            res.mismatches.append(dict(op="net.run", ops=" ; ".join(ops)[:1500], first_diff=first,
                                       impl=impl[-600:], model=m[-600:]))
        else:
            res.traces += 1


def replay_ops(ctx, prop, ops):
    res = common.Result()
    prng = common.rng_for(ctx.seed, "replay")
    ne = Program(ctx.execnet, prng)
    ne.aliased = set()
    outs, dig = ne.run(ops)
    res.count(tuple(ops))
    if ne.error:
        res.violations.append(dict(case={"ops": " ; ".join(ops)}, what="real gateway pair failed: " + ne.error))
        return res
    ne.cblog_final = getattr(ne, "cblog_final", {"A": {}, "B": {}})
    ne.cbs_final = getattr(ne, "cbs_final", {"A": set(), "B": set()})
    transcript_oracles(prop, ops, outs, ne, res)
    m = ctx.driver.ask(["net.run " + " ; ".join(ops)])[0]
    if " ; ".join(outs) + " | " + (dig or "?") != m:
        res.mismatches.append(dict(op="net.run", ops=" ; ".join(ops), model=m[-600:], impl=(" ; ".join(outs) + " | " + (dig or "?"))[-600:]))
    return res


# ---------------------------------------------------------------------------------------------
# (c) thread-level scenarios
# ---------------------------------------------------------------------------------------------
def big(rng, tag, seq):
    """an item tagged with its conversation and sequence number; sometimes large"""
    k = rng.random()
    pad = b""
    if k < 0.08:
        pad = bytes(rng.getrandbits(8) for _ in range(rng.choice([300, 5000])))
    return (tag, seq, pad)


def scen_case(res, name, params, sc, problems):
    case = {"scenario": name, "params": params, "schedule": list(sc.sc.trace[:400]) if sc.sc else []}
    if sc.error:
        problems.append("run failed: " + sc.error)
    for nm, exc, tb in sc.thread_errors:
        problems.append(f"thread {nm} died: {exc} {tb[-300:]}")
    for p in problems:
        res.violations.append(dict(case=case, what=p))


def scenario_streams(ctx, res, rng, idx, with_callbacks=False, preempt=0):
    """C02/C10: several conversations, both directions, several sender/receiver threads per side"""
    execnet = ctx.execnet
    nconv = rng.choice([1, 2, 3, 4])
    plan = []
    for k in range(nconv):
        plan.append(dict(nB=rng.choice([0, 1, 3, 8, 20]), nA=rng.choice([0, 1, 3, 8]), mode=rng.choice(["recv", "iter", "cb"] if with_callbacks else ["recv", "iter", "two"]),
                         setcb_after=rng.choice([0, 0, 1, 2, 5]), endmarker=rng.random() < 0.8))
    params = dict(plan=plan, chunk=rng.choice([None, 1, 7, 64]))
    sc = netthreads.Scenario(execnet, rng, max_chunk=params["chunk"], preempt=preempt)
    got = {}
    sentA = {}
    sentB = {}
    END = object()
    problems = []

    def main(sc, gw, ctl):
        chans = []
        threads = []
        for k, p in enumerate(plan):
            itemsB = [big(rng, "B%d" % k, i) for i in range(p["nB"])]
            itemsA = [big(rng, "A%d" % k, i) for i in range(p["nA"])]
            # ids are allocated deterministically: 1, 3, 5, ...
            cid = 2 * k + 1
            half = len(itemsB) // 2
            if p["nA"]:
                # full duplex: the body sends half, reads A's items up to A's sentinel, sends the rest, ends
                ctl.scripts[cid] = ([("send", x) for x in itemsB[:half]] + [("drain_until", ("fin", cid, b""))] +
                                    [("send", x) for x in itemsB[half:]])
            else:
                ctl.scripts[cid] = [("send", x) for x in itemsB]
            sentB[cid] = itemsB
            sentA[cid] = itemsA
            ch = gw.remote_exec(netthreads.BODY2)
            assert ch.id == cid, (ch.id, cid)
            chans.append(ch)
        for k, (ch, p) in enumerate(zip(chans, plan)):
            cid = ch.id
            out = got.setdefault(cid, [])

            if sentA[cid]:
                def sender(ch=ch, items=sentA[cid], cid=cid):
                    for x in items:
                        ch.send(x)
                    ch.send(("fin", cid, b""))
                threads.append(sc.spawn(sender, name="send%d" % k))
                del sender

            if p["mode"] == "cb":
                holder = [ch]
                drop = with_callbacks and p["nA"] == 0 and (k + idx) % 3 == 0
                p["drop"] = drop
                if drop:
                    chans[k] = None
                del ch

                def setcb(holder=holder, out=out, p=p, drop=drop):
                    ch = holder[0]
                    for _ in range(p["setcb_after"]):
                        try:
                            out.append(("item", ch.receive(timeout=2.0)))
                        except EOFError:
                            break  # the conversation already ended: setcallback must then deliver the endmarker at once
                        except Exception as e:  # noqa: BLE001
                            out.append(("pre-exc", type(e).__name__))
                            break
                    log = []
                    out.append(("cb", log))

                    def cb(x, log=log):
                        log.append("END" if x is END else x)
                    if p["endmarker"]:
                        ch.setcallback(cb, endmarker=END)
                    else:
                        ch.setcallback(cb)
                    if drop:
                        # the last reference goes away while items may still be in flight: the callback lives on
                        holder[0] = None
                        del ch
                        return
                    try:
                        ch.receive(timeout=0.1)
                        out.append(("receive-accepted",))
                    except OSError:
                        pass
                threads.append(sc.spawn(setcb, name="setcb%d" % k))
                ch = holder[0]
            elif p["mode"] == "two":
                o2 = []
                out.append(("second", o2))
                threads.append(sc.spawn(netthreads.drain, ch, out, None, name="recvA%d" % k))
                threads.append(sc.spawn(netthreads.drain, ch, o2, None, name="recvB%d" % k))
            else:
                threads.append(sc.spawn(netthreads.drain, ch, out, None, name="recv%d" % k))
            ch = None
        sc.join(threads)
        ch = None
        for ch, p in zip(chans, plan):
            if ch is None:
                continue
            try:
                ch.waitclose(timeout=30.0)
            except Exception as e:  # noqa: BLE001
                problems.append("waitclose raised %r on channel %d" % (e, ch.id))
        sc.sc.block_until(lambda: not gw._channelfactory._callbacks, 30.0, "callbacks-drain")
        sc.leftover_callbacks = dict(gw._channelfactory._callbacks)

    sc.run(main)
    res.count(("streams", idx, repr(params)))
    # oracle
    if not sc.error:
        for k, p in enumerate(plan):
            cid = 2 * k + 1
            out = got.get(cid, [])
            items = [e[1] for e in out if e[0] == "item"]
            second = next((e[1] for e in out if e[0] == "second"), None)
            cbl = next((e[1] for e in out if e[0] == "cb"), None)
            if any(e[0] == "late-item" for e in out):
                problems.append(f"channel {cid}: an item appeared after EOF")
            if any(e[0] == "receive-accepted" for e in out):
                problems.append(f"channel {cid}: receive() accepted after setcallback")
            if any(e[0] in ("exc", "pre-exc") for e in out):
                problems.append(f"channel {cid}: unexpected exception in receiver: {[e for e in out if e[0] in ('exc', 'pre-exc')]}")
            exp = sentB[cid]
            if p["mode"] == "cb":
                cbitems = [x for x in (cbl or []) if x != "END"]
                allgot = items + cbitems
                if allgot != exp:
                    problems.append(f"channel {cid}: received-before-setcallback + callback items != items sent (got {len(allgot)} of {len(exp)}, order/dup error or loss)")
                ends = (cbl or []).count("END")
                if p["endmarker"] and cbl is not None and (ends != 1 or cbl[-1] != "END"):
                    problems.append(f"channel {cid}: endmarker delivered {ends} times / not last")
                if not p["endmarker"] and ends:
                    problems.append(f"channel {cid}: unrequested endmarker")
            elif p["mode"] == "two":
                i2 = [e[1] for e in (second or []) if e[0] == "item"]
                merged = sorted(items + i2, key=lambda x: x[1])
                if merged != exp:
                    problems.append(f"channel {cid}: two receivers together did not get exactly the sent items")
                for part in (items, i2):
                    if not is_subsequence(part, exp):
                        problems.append(f"channel {cid}: a receiver saw items out of order or foreign items")
                for o in (out, second or []):
                    eofs = [e for e in o if e[0] == "eof"]
                    if len(eofs) < 4:
                        problems.append(f"channel {cid}: EOF not observed repeatedly by every receiver ({len(eofs)} of 4)")
            else:
                if items != exp:
                    problems.append(f"channel {cid}: items received != items sent (got {len(items)} of {len(exp)})")
            # B side: what the body read must be exactly what A sent
            if p["nA"]:
                blog = sc.ctl.log.get(cid, [])
                bitems = [e[1] for e in blog if e[0] == "item"]
                if bitems != sentA[cid]:
                    problems.append(f"channel {cid}: remote body received {len(bitems)} items, {len(sentA[cid])} were sent (order/dup error or loss)")
        if getattr(sc, "leftover_callbacks", None):
            problems.append(f"callbacks still registered after every conversation ended: {sorted(sc.leftover_callbacks)}")
    scen_case(res, "streams", params, sc, problems)


def scenario_close(ctx, res, rng, idx):
    """C03/C07: endings by close / exec end / error / reference drop with blocked receivers and waitclose callers"""
    execnet = ctx.execnet
    ending = rng.choice(["exec-end", "raise", "local-close", "drop", "remote-newchan-close"])
    n = rng.choice([0, 1, 4, 9])
    nrecv = rng.choice([1, 2, 3])
    params = dict(ending=ending, n=n, nrecv=nrecv, chunk=rng.choice([None, 3, 50]))
    sc = netthreads.Scenario(execnet, rng, max_chunk=params["chunk"])
    outs = [[] for _ in range(nrecv)]
    waits = []
    problems = []
    items = [("x", i, b"") for i in range(n)]
    sib = []
    wgot = []

    def main(sc, gw, ctl):
        script = [("send", x) for x in items]
        if ending == "raise":
            script.append(("raise", rng.randrange(10)))
        elif ending in ("local-close", "drop"):
            script.append(("drain",))
        ctl.scripts[1] = script
        ctl.scripts[3] = [("send", ("sib", 0, b"")), ("drain",)]
        ch = gw.remote_exec(netthreads.BODY2)
        sibling = gw.remote_exec(netthreads.BODY2)
        threads = []
        if ending in ("exec-end", "raise"):
            for i in range(nrecv):
                threads.append(sc.spawn(netthreads.drain, ch, outs[i], None, name="recv%d" % i))

            def waiter():
                try:
                    ch.waitclose(timeout=60.0)
                    waits.append("ok")
                except execnet.gateway_base.RemoteError as e:
                    waits.append("RemoteError")
                except BaseException as e:  # noqa: BLE001
                    if isinstance(e, S.SchedAbort):
                        raise
                    waits.append("exc " + type(e).__name__)
                try:
                    # an item still queued is legitimately receivable after waitclose returned; it counts as received
                    wgot.append(ch.receive(timeout=0.2))
                    waits.append("item-after-waitclose")
                except Exception:
                    pass
            if rng.random() < 0.7:
                threads.append(sc.spawn(waiter, name="waiter"))
            sc.join(threads)
        elif ending == "local-close":
            got = []
            for _ in range(rng.randint(0, n)):
                got.append(ch.receive(timeout=5.0))
            outs[0].extend(("item", x) for x in got)
            ch.close()
            ch.close()  # harmless no-op
            try:
                ch.send(1)
                problems.append("send accepted on a closed channel")
            except OSError:
                pass
            if not ch.isclosed():
                problems.append("isclosed() false after close()")
            try:
                ch.waitclose(timeout=0.5)
            except Exception as e:  # noqa: BLE001
                problems.append("waitclose on the closing side raised %r" % (e,))
            # items already queued stay receivable, then EOF
            netthreads.drain(ch, outs[0], None)
        elif ending == "drop":
            del ch
        # the sibling conversation must be undisturbed
        try:
            sib.append(sibling.receive(timeout=10.0))
            sibling.send(("to-sib", 0, b""))
            sibling.close()
        except Exception as e:  # noqa: BLE001
            problems.append("sibling channel disturbed: %r" % (e,))
        if not gw.hasreceiver():
            problems.append("gateway no longer receiving after a channel-level ending")

    sc.run(main)
    res.count(("close", idx, repr(params)))
    if not sc.error:
        if ending in ("exec-end", "raise"):
            allitems = []
            errs = 0
            for o in outs:
                part = [e[1] for e in o if e[0] == "item"]
                if not is_subsequence(part, items):
                    problems.append("a receiver saw items out of order")
                allitems += part
                if any(e[0] == "late-item" for e in o):
                    problems.append("item after EOF")
                tail = [e for e in o if e[0] in ("eof", "exc")]
                errs += sum(1 for e in tail if e[0] == "exc" and e[1] == "RemoteError")
                bad = [e for e in tail if e[0] == "exc" and e[1] != "RemoteError"]
                if bad:
                    problems.append("receiver got %r instead of EOFError/RemoteError" % (bad,))
                if len(tail) < 4:
                    problems.append("end of channel not observed repeatedly")
            allitems += wgot
            if sorted(allitems, key=lambda x: x[1]) != items:
                problems.append(f"items before the close: got {len(allitems)} of {len(items)}")
            werr = sum(1 for w in waits if w == "RemoteError")
            if ending == "raise" and errs + werr != 1:
                problems.append(f"RemoteError surfaced {errs + werr} times (receive {errs}, waitclose {werr}), expected exactly once")
            if ending == "exec-end" and errs + werr:
                problems.append("RemoteError without a remote failure")
            if "item-after-waitclose" in waits and not items:
                problems.append("item appeared after waitclose returned")
            if any(w.startswith("exc") for w in waits):
                problems.append("waitclose raised %r" % (waits,))
        if ending in ("local-close", "drop"):
            blog = sc.ctl.log.get(1, [])
            if ("eof",) not in blog:
                problems.append("remote body blocked in receive did not see EOF after the initiator %s" % ("closed" if ending == "local-close" else "dropped the channel"))
        if sib != [("sib", 0, b"")]:
            problems.append("sibling conversation lost its item")
        slog = sc.ctl.log.get(3, [])
        if [e for e in slog if e[0] == "item"] != [("item", ("to-sib", 0, b""))]:
            problems.append("sibling body did not receive exactly its item")
    scen_case(res, "close", params, sc, problems)


def scenario_callback_error(ctx, res, rng, idx):
    """C07: a callback raises (channel object alive or dropped), sibling channels active"""
    execnet = ctx.execnet
    n = rng.choice([1, 3, 6])
    failat = rng.randrange(n)
    dropped = rng.random() < 0.5
    params = dict(n=n, failat=failat, dropped=dropped)
    sc = netthreads.Scenario(execnet, rng)
    problems = []
    seen = []
    result = {}

    def main(sc, gw, ctl):
        ctl.scripts[1] = [("send", ("i", k, b"")) for k in range(n)] + [("drain",)]
        ctl.scripts[3] = [("send", ("sib", 0, b"")), ("drain",)]
        ch = gw.remote_exec(netthreads.BODY2)
        sibling = gw.remote_exec(netthreads.BODY2)

        def cb(x):
            seen.append(x)
            if x[1] == failat:
                raise ValueError("E5")
        try:
            ch.setcallback(cb)
        except ValueError:
            # the failing item was already queued: setcallback itself raises the callback's exception to its caller
            # (the hand-over drain runs in the caller's thread) - not the scenario this oracle is about
            result["drain-failure"] = True
            sibling.close()
            return
        if dropped:
            del ch
        else:
            try:
                ch.waitclose(timeout=30.0)
                result["wait"] = "ok"
            except execnet.gateway_base.RemoteError as e:
                result["wait"] = "RemoteError" if "ValueError: E5" in str(e) and "Traceback" in str(e) else "RemoteError-bad-text"
            except BaseException as e:  # noqa: BLE001
                if isinstance(e, S.SchedAbort):
                    raise
                result["wait"] = "exc " + type(e).__name__
            result["closed"] = ch.isclosed()
        try:
            result["sib"] = sibling.receive(timeout=10.0)
            sibling.send(("to-sib", 0, b""))
            sibling.close()
        except Exception as e:  # noqa: BLE001
            problems.append("sibling channel disturbed: %r" % (e,))
        # give the failure time to travel
        sc.sc.block_until(lambda: ("eof",) in ctl.log.get(1, []) or any(e[0] == "exc" for e in ctl.log.get(1, [])), 30.0, "peer")
        result["hasreceiver"] = gw.hasreceiver()

    # the body's drain ends with RemoteError at the peer: record it
    orig_body = netthreads.Ctl2.body

    def body(self, channel):
        try:
            orig_body(self, channel)
        except execnet.gateway_base.RemoteError as e:
            self.log.setdefault(channel.id, []).append(("exc", "RemoteError", "ValueError: E5" in str(e)))
    netthreads.Ctl2.body = body
    try:
        sc.run(main)
    finally:
        netthreads.Ctl2.body = orig_body
    res.count(("cberr", idx, repr(params)))
    if not sc.error and not result.get("drain-failure"):
        if [x[1] for x in seen] != list(range(failat + 1)):
            problems.append(f"callback saw {[x[1] for x in seen]}, expected items 0..{failat} once each")
        if not dropped:
            if result.get("wait") != "RemoteError":
                problems.append(f"failing side's waitclose gave {result.get('wait')!r}, expected a RemoteError with type, message and traceback")
            if not result.get("closed"):
                problems.append("failing side's channel not closed")
        peer = [e for e in sc.ctl.log.get(1, []) if e[0] == "exc"]
        if dropped:
            # the initiator's channel object is gone (CHANNEL_LAST_MESSAGE): the peer's receive may already have ended with
            # EOF before the failure travels; the error is then only reported (warned) — but never more than once
            if peer not in ([], [("exc", "RemoteError", True)]):
                problems.append(f"peer of the failing callback observed {peer}")
        elif peer != [("exc", "RemoteError", True)]:
            problems.append(f"peer of the failing callback observed {peer}, expected exactly one RemoteError naming the exception")
        if result.get("sib") != ("sib", 0, b""):
            problems.append("sibling conversation disturbed")
        if not result.get("hasreceiver"):
            problems.append("receiver thread died after a callback failure")
    scen_case(res, "callback-error", params, sc, problems)


def scenario_ids(ctx, res, rng, idx, preempt=0):
    """C18: concurrent creators on both sides, channels travelling over channels, tables back to baseline
    (preempt > 0: line-level pre-emptions inside execnet's code, e.g. between reading and advancing the id counter)"""
    execnet = ctx.execnet
    ncycles = rng.choice([2, 5, 12])
    nthreads = rng.choice([1, 2, 3]) if not preempt else rng.choice([2, 3])
    params = dict(cycles=ncycles, threads=nthreads, preempt=preempt)
    sc = netthreads.Scenario(execnet, rng, preempt=preempt)
    problems = []
    ids_a = []
    ids_b = []
    results = []
    final = {}

    def main(sc, gw, ctl):
        def worker(t):
            for c in range(ncycles):
                tag = "t%dc%d" % (t, c)
                ch = gw.remote_exec(netthreads.BODY2)
                ids_a.append(ch.id)
                kind = rng.choice(["remote-creates", "local-creates", "plain"])
                if kind == "remote-creates":
                    ctl.scripts[ch.id] = [("newchan", [(tag, 0, b""), (tag, 1, b"")], True)]
                    msg = ch.receive(timeout=20.0)
                    sub = msg[1]
                    ids_b.append(sub.id)
                    got = []
                    netthreads.drain(sub, got, None)
                    results.append((tag, [e[1] for e in got if e[0] == "item"]))
                    del sub, msg
                elif kind == "local-creates":
                    ctl.scripts[ch.id] = [("recv",)]
                    mine = gw.newchannel()
                    ids_a.append(mine.id)
                    ch.send(("carry", [{"k": (mine,)}]))  # nested in containers
                    mine.close()
                    del mine
                    results.append((tag, [(tag, 0, b""), (tag, 1, b"")]))
                else:
                    ctl.scripts[ch.id] = [("send", (tag, 0, b"")), ("send", (tag, 1, b""))]
                    got = []
                    netthreads.drain(ch, got, None)
                    results.append((tag, [e[1] for e in got if e[0] == "item"]))
                try:
                    ch.waitclose(timeout=30.0)
                except Exception as e:  # noqa: BLE001
                    problems.append("waitclose: %r" % (e,))
                del ch
        # scripts are looked up by channel id when the body starts: set them before the exec frame is handled is racy,
        # so bodies wait for their script
        threads = [sc.spawn(worker, t, name="creator%d" % t) for t in range(nthreads)]
        if idx % 2 == 0:
            # status queries in flight while channels are created (remote_status uses a channel id of its own)
            def status_poller():
                for _ in range(ncycles):
                    try:
                        st = gw.remote_status()
                        if not isinstance(st.numchannels, int):
                            problems.append("remote_status() returned %r" % (st,))
                    except Exception as e:  # noqa: BLE001
                        if isinstance(e, S.SchedAbort):
                            raise
                        problems.append("remote_status() concurrent with channel creation raised %r" % (e,))
                        return
            threads.append(sc.spawn(status_poller, name="status"))
        sc.join(threads)
        import gc
        gc.collect()
        ctl.newchans.clear()
        ctl.log.clear()
        gc.collect()
        # quiescence: let every closing frame travel
        sc.sc.block_until(lambda: False, 1.0, "quiesce")
        final["A"] = (sorted(gw._channelfactory._channels.keys()), sorted(gw._channelfactory._callbacks.keys()))
        w = sc.pair.worker._channelfactory
        final["B"] = (sorted(w._channels.keys()), sorted(w._callbacks.keys()))
        try:
            final["numchannels"] = gw.remote_status().numchannels
        except Exception as e:  # noqa: BLE001
            final["numchannels"] = repr(e)

    # bodies must find their script even if they start before the creator stored it
    orig_body = netthreads.Ctl2.body

    def body(self, channel):
        self.sc.block_until(lambda: channel.id in self.scripts, 30.0, "script")
        orig_body(self, channel)
    netthreads.Ctl2.body = body
    try:
        sc.run(main)
    finally:
        netthreads.Ctl2.body = orig_body
    res.count(("ids", idx, repr(params)))
    if not sc.error:
        allids = ids_a + ids_b
        if len(set(allids)) != len(allids):
            problems.append(f"channel ids collide: {sorted(allids)}")
        if any(i % 2 != 1 for i in ids_a) or any(i % 2 != 0 for i in ids_b):
            problems.append("wrong id parity")
        for tag, items in results:
            if items != [(tag, 0, b""), (tag, 1, b"")]:
                problems.append(f"conversation {tag}: items did not arrive on the intended channel: {items}")
        for side in "AB":
            if final.get(side) != ([], []):
                problems.append(f"side {side} still holds channel state after all conversations ended: channels {final.get(side)}")
        if final.get("numchannels") not in (0,):
            problems.append(f"remote_status().numchannels = {final.get('numchannels')} after all conversations ended")
    scen_case(res, "ids", params, sc, problems)


def scenario_cut(ctx, res, rng, idx):
    """C04 (protocol level): the B→A stream ends after an arbitrary number of bytes"""
    execnet = ctx.execnet
    nconv = rng.choice([1, 2, 3])
    nitems = [rng.choice([0, 1, 4, 10]) for _ in range(nconv)]
    modes = [rng.choice(["recv", "recv2", "cb", "wait"]) for _ in range(nconv)]
    params = dict(nitems=nitems, modes=modes, cut=None, chunk=rng.choice([None, 5, 64]))
    # first a dry run to learn the stream length, then cut inside it
    sizes = [len(execnet.gateway_base.dumps_internal(("c%d" % k, i, b""))) + 9 for k in range(nconv) for i in range(nitems[k])]
    total = sum(sizes) + 9 * nconv
    cut = rng.randrange(0, total + 1)
    params["cut"] = cut
    sc = netthreads.Scenario(execnet, rng, max_chunk=params["chunk"], cut_b2a_at=cut)
    problems = []
    outs = {}
    cbs = {}
    waits = {}
    after = {}
    endnew = {}
    racing = {"got": 0, "late_ok": 0, "stuck": [], "refused": False}
    END = object()

    def main(sc, gw, ctl):
        chans = []
        try:
            for k in range(nconv):
                ctl.scripts[2 * k + 1] = [("send", ("c%d" % k, i, b"")) for i in range(nitems[k])]
                chans.append(gw.remote_exec(netthreads.BODY2))
        except OSError:
            # the connection was already gone when the conversation was to be started: refusing is the specified behaviour
            after.update(hasreceiver=gw.hasreceiver(), newchannel="OSError", remote_exec="OSError", send="OSError", early=True)
            sc.sc.block_until(lambda: not gw.hasreceiver(), 60.0, "receiver-end")
            after["hasreceiver"] = gw.hasreceiver()
            return
        threads = []
        for k, ch in enumerate(chans):
            if modes[k] in ("recv", "recv2"):
                for j in range(2 if modes[k] == "recv2" else 1):
                    o = outs.setdefault((k, j), [])
                    threads.append(sc.spawn(netthreads.drain, ch, o, None, name="recv%d_%d" % (k, j)))
            elif modes[k] == "cb":
                log = cbs.setdefault(k, [])

                def cb(x, log=log, k=k):
                    if x is END:
                        # "from then on … newchannel raise OSError": asked at the very moment the loss is reported
                        try:
                            gw.newchannel()
                            endnew[k] = "accepted"
                        except OSError:
                            endnew[k] = "OSError"
                        except BaseException as e:  # noqa: BLE001
                            if isinstance(e, S.SchedAbort):
                                raise
                            endnew[k] = "exc " + type(e).__name__
                    log.append("END" if x is END else x)
                ch.setcallback(cb, endmarker=END)
                del cb
            else:
                def waiter(ch=ch, k=k):
                    try:
                        ch.waitclose(timeout=120.0)
                        waits[k] = "ok"
                    except EOFError:
                        waits[k] = "EOFError"
                    except BaseException as e:  # noqa: BLE001
                        if isinstance(e, S.SchedAbort):
                            raise
                        waits[k] = "exc " + type(e).__name__
                threads.append(sc.spawn(waiter, name="wait%d" % k))
        if idx % 3 == 0:
            # a user thread keeps opening channels while the connection goes down: every channel it still gets must be told
            # about the loss (a channel registered after the receiver's close-all sweep would wait for ever)
            def racer():
                for _ in range(40):
                    try:
                        c = gw.newchannel()
                    except OSError:
                        racing["refused"] = True
                        return
                    racing["got"] += 1
                    if not gw.hasreceiver():
                        try:
                            c.waitclose(timeout=5.0)
                            racing["late_ok"] += 1
                        except EOFError:
                            racing["late_ok"] += 1
                        except BaseException as e:  # noqa: BLE001
                            if isinstance(e, S.SchedAbort):
                                raise
                            racing["stuck"].append("%s on channel %d" % (type(e).__name__, c.id))
                        return
                    try:
                        c.close()
                    except OSError:
                        pass   # the write side is gone already: closing fails like every other send
                    sc.sc.yield_point("racer")
            threads.append(sc.spawn(racer, name="racer"))
        sc.join(threads)
        sc.sc.block_until(lambda: not gw.hasreceiver(), 60.0, "receiver-end")
        after["hasreceiver"] = gw.hasreceiver()
        for name, fn in (("newchannel", gw.newchannel), ("remote_exec", lambda: gw.remote_exec("pass")), ("send", lambda: chans[0].send(1))):
            try:
                fn()
                after[name] = "accepted"
            except OSError:
                after[name] = "OSError"
            except BaseException as e:  # noqa: BLE001
                if isinstance(e, S.SchedAbort):
                    raise
                after[name] = "exc " + type(e).__name__

    sc.run(main)
    res.count(("cut", idx, repr(params)))
    if not sc.error and not after.get("early"):
        # frame-exact expectation from the bytes the worker really wrote: a frame counts iff it lies completely
        # before the cut (9-byte header: type, channel id, payload length)
        import struct
        data = bytes(sc.pair.b2a.record)
        pos = 0
        complete_items = {}
        close_seen = {}
        while pos + 9 <= len(data):
            code, cid, ln = struct.unpack("!bii", data[pos:pos + 9])
            end = pos + 9 + ln
            if end > len(data):
                break
            if end <= cut:
                if code == 4:
                    complete_items[cid] = complete_items.get(cid, 0) + 1
                elif code in (5, 6, 7):
                    close_seen[cid] = True
            pos = end
        for (k, j), o in outs.items():
            cid = 2 * k + 1
            items = [e[1] for e in o if e[0] == "item"]
            exp = [("c%d" % k, i, b"") for i in range(nitems[k])]
            want = exp[: complete_items.get(cid, 0)]
            if modes[k] == "recv" and items != want:
                problems.append(f"conversation {k}: obtained {len(items)} items, but exactly {len(want)} frames lay completely before the cut at byte {cut} (nothing partial, nothing lost): {items}")
            if modes[k] == "recv2" and not is_subsequence(items, want):
                problems.append(f"conversation {k}: a receiver saw items that were not completely before the cut / out of order")
            if any(e[0] == "late-item" for e in o):
                problems.append(f"conversation {k}: item after EOF")
            bad = [e for e in o if e[0] == "exc"]
            if bad:
                problems.append(f"conversation {k}: receive raised {bad} (expected EOFError)")
            if len([e for e in o if e[0] == "eof"]) < 4:
                problems.append(f"conversation {k}: EOF not observed (repeatedly) after the connection was lost")
        for k in range(nconv):
            if modes[k] == "recv2":
                cid = 2 * k + 1
                both = sorted([e[1] for j in (0, 1) for e in outs.get((k, j), []) if e[0] == "item"], key=lambda x: x[1])
                want = [("c%d" % k, i, b"") for i in range(nitems[k])][: complete_items.get(cid, 0)]
                if both != want:
                    problems.append(f"conversation {k}: two receivers together got {len(both)} items, {len(want)} frames were complete before the cut")
        for k, log in cbs.items():
            cid = 2 * k + 1
            items = [x for x in log if x != "END"]
            want = [("c%d" % k, i, b"") for i in range(nitems[k])][: complete_items.get(cid, 0)]
            if items != want:
                problems.append(f"conversation {k}: callback got {len(items)} items, exactly {len(want)} frames were complete before the cut")
            if log.count("END") != 1 or log[-1] != "END":
                problems.append(f"conversation {k}: endmarker not delivered exactly once at the end after connection loss: {log[-3:]}")
            if not close_seen.get(cid) and endnew.get(k) not in (None, "OSError"):
                problems.append(f"conversation {k}: newchannel() called from the callback that was just told about the connection loss (its endmarker) gave {endnew.get(k)}, expected OSError")
        for k, w in waits.items():
            cid = 2 * k + 1
            # waitclose returns normally only if the conversation's own close frame arrived completely; otherwise the
            # connection loss must be reported
            # (a conversation that was closed cleanly before the cut may report either: `waitclose` falls back to the
            # gateway's connection error once the loss was noticed — C04's "later waitclose raises EOFError")
            want = ("ok", "EOFError") if close_seen.get(cid) else ("EOFError",)
            if w not in want:
                problems.append(f"conversation {k}: waitclose gave {w}, expected {'/'.join(want)} (close frame {'before' if close_seen.get(cid) else 'not before'} the cut at byte {cut})")
        if racing["stuck"]:
            problems.append("a channel handed out by newchannel() while the connection went down was never told about the loss: " + "; ".join(racing["stuck"]))
        if after.get("hasreceiver"):
            problems.append("gateway still reports a receiver after the connection was lost")
        for name in ("newchannel", "remote_exec", "send"):
            if after.get(name) != "OSError":
                problems.append(f"{name} after connection loss: {after.get(name)} (expected OSError)")
    scen_case(res, "cut", params, sc, problems)


def run_scenarios(ctx, res, fn, n, tag, **kw):
    def worker(indices):
        r = common.Result()
        for i in indices:
            rng = common.rng_for(ctx.seed, f"{tag}:{i}")
            fn(ctx, r, rng, i, **kw)
            r.stat("scenario_" + tag)
        return r

    for part in common.fork_map(n, worker):
        common.merge_results(res, part)


# ---------------------------------------------------------------------------------------------
# (d) process level: the same stream contract over a REAL popen gateway with real OS threads
# ---------------------------------------------------------------------------------------------
REMOTE_STREAM = """
spec = channel.receive()
n_out, echo = spec
for i in range(n_out):
    channel.send(("B", i, b"x" * (400000 if i == 2 else i % 7 * 1000)))
if echo:
    for item in channel:
        if item == "fin":
            break
        channel.send(("echo", item))
"""


def process_level_streams(ctx, res, nconv=4, spec="popen"):
    """several conversations on one real gateway, one real sender and one real receiver thread each"""
    import threading

    execnet = ctx.execnet
    rng = ctx.rng("proc-streams")
    group = execnet.Group()
    problems = []
    try:
        if spec == "socket-installvia":
            group.makegateway("popen//id=sockmaster")
            gw = group.makegateway("socket//installvia=sockmaster")
        else:
            gw = group.makegateway(spec)
        plans = [(rng.choice([0, 5, 40]), rng.choice([0, 3, 25])) for _ in range(nconv)]
        chans = []
        got = [[] for _ in plans]
        for (n_out, n_in) in plans:
            ch = gw.remote_exec(REMOTE_STREAM)
            ch.send((n_out, n_in > 0))
            chans.append(ch)

        def sender(ch, n):
            for i in range(n):
                ch.send(("A", i, b"y" * (300000 if i == 1 else i % 5 * 3000)))
            if n:
                ch.send("fin")

        def receiver(ch, out):
            try:
                while True:
                    out.append(ch.receive(30))
            except EOFError:
                out.append("EOF")
            except Exception as e:  # noqa: BLE001
                out.append(("EXC", repr(e)))

        threads = []
        for ch, (n_out, n_in), out in zip(chans, plans, got):
            threads.append(threading.Thread(target=receiver, args=(ch, out), daemon=True))
            threads.append(threading.Thread(target=sender, args=(ch, n_in), daemon=True))
        for t in threads:
            t.start()
        for t in threads:
            t.join(60)
            if t.is_alive():
                problems.append("a thread hung on the real gateway")
        for k, ((n_out, n_in), out) in enumerate(zip(plans, got)):
            # (one item of several hundred kB per direction: a socket delivers it in many recv() pieces while the next frames
            # are already queued behind it)
            exp = ([("B", i, b"x" * (400000 if i == 2 else i % 7 * 1000)) for i in range(n_out)] +
                   [("echo", ("A", i, b"y" * (300000 if i == 1 else i % 5 * 3000))) for i in range(n_in)] + ["EOF"])
            if out != exp:
                problems.append(f"conversation {k} over a real {spec} gateway: received {len(out) - 1} items, expected {len(exp) - 1} (order/dup/loss/leak)")
        res.count(("proc-streams", spec, repr(plans)))
        res.stat("process_level_runs")
    except Exception as e:  # noqa: BLE001
        problems.append("process-level run failed: %r" % (e,))
    finally:
        group.terminate(timeout=3.0)
    for p in problems:
        res.violations.append(dict(case={"scenario": "process-streams", "spec": spec}, what=p))


def process_level_structured(ctx, res, nthreads=4, nitems=40):
    """C02: several REAL sender threads of one side send large structured items (lists of thousands of ints: serialization takes
    long enough for thread switches inside it) at the same time, each on its own channel; the peer answers with a checksum.
    Every item arrives whole, on its own channel, in order."""
    import threading

    execnet = ctx.execnet
    group = execnet.Group()
    problems = []
    res.count(("proc-structured", nthreads, nitems))
    res.stat("process_level_runs")
    try:
        gw = group.makegateway("popen")
        body = "while True:\n    x = channel.receive()\n    if x is None:\n        break\n    channel.send((x[0], x[1], len(x[2]), sum(x[2])))\n"
        chans = [gw.remote_exec(body) for _ in range(nthreads)]
        got = [[] for _ in range(nthreads)]

        def sender(t):
            for i in range(nitems):
                chans[t].send((t, i, list(range(t * 1000 + i, t * 1000 + i + 5000))))
            chans[t].send(None)

        def receiver(t):
            try:
                for _ in range(nitems):
                    got[t].append(chans[t].receive(30))
            except Exception as e:  # noqa: BLE001
                got[t].append(("EXC", repr(e)))
        ths = [threading.Thread(target=f, args=(t,), daemon=True) for t in range(nthreads) for f in (sender, receiver)]
        for th in ths:
            th.start()
        for th in ths:
            th.join(60)
            if th.is_alive():
                problems.append("a sender/receiver thread hung")
                break
        for t in range(nthreads):
            exp = [(t, i, 5000, sum(range(t * 1000 + i, t * 1000 + i + 5000))) for i in range(nitems)]
            if got[t] != exp:
                bad = next((k for k, (a, b) in enumerate(zip(got[t], exp)) if a != b), len(got[t]))
                problems.append("channel of sender thread %d: %d of %d items intact, first difference at item %d: %r" % (t, bad, nitems, bad, got[t][bad:bad + 1]))
    except Exception as e:  # noqa: BLE001
        problems.append("process-level structured run failed: %r" % (e,))
    finally:
        threading.Thread(target=lambda: group.terminate(timeout=1.0), daemon=True).start()
    for p in problems:
        res.violations.append(dict(case={"scenario": "process-structured", "threads": nthreads, "items": nitems}, what=p))
    if not problems:
        res.traces += 1


def process_level_backlog(ctx, res, sizes=(1000, 1001, 4096, 5000)):
    """C03/C10: the peer sends N items and ends BEFORE this side looks at the channel: `waitclose()` returns (the close is
    ordered behind any backlog), then all N items are receivable in order, then EOFError; with `setcallback` after the
    backlog has built up: all N items, then the endmarker."""
    import threading
    import time

    execnet = ctx.execnet
    gb = execnet.gateway_base
    for n in sizes:
        for mode in ("waitclose-then-receive", "setcallback-late"):
            case = {"scenario": "process-backlog", "items": n, "mode": mode}
            res.count(("proc-backlog", n, mode))
            res.stat("process_level_runs")
            group = execnet.Group()
            problem = None
            try:
                gw = group.makegateway("popen")
                ch = gw.remote_exec("for i in range(%d):\n    channel.send(i)\n" % n)
                probe = gw.remote_exec("channel.send('alive')")   # a sibling conversation behind the backlog
                if mode == "waitclose-then-receive":
                    try:
                        ch.waitclose(20)
                    except gb.TimeoutError:
                        problem = "waitclose() did not return although the peer's body ended behind a backlog of %d unread items" % n
                    if problem is None:
                        items = []
                        try:
                            while True:
                                items.append(ch.receive(10))
                        except EOFError:
                            pass
                        if items != list(range(n)):
                            problem = "backlog of %d items: %d receivable after the close (first difference at %d)" % (
                                n, len(items), next((k for k, (a, b) in enumerate(zip(items, range(n))) if a != b), len(items)))
                else:
                    time.sleep(0.3 if n < 2000 else 0.8)   # let the backlog build up
                    log = []
                    END = object()
                    done = threading.Event()

                    def cb(x):
                        log.append(x)
                        if x is END:
                            done.set()
                    st = threading.Thread(target=lambda: ch.setcallback(cb, endmarker=END), daemon=True)
                    st.start()
                    st.join(20)
                    if st.is_alive():
                        problem = "setcallback() did not return within 20 s with a backlog of %d items" % n
                    elif not done.wait(20) or log[:-1] != list(range(n)):
                        problem = "setcallback after a backlog of %d items: callback got %d items, endmarker %s" % (n, len([x for x in log if x is not END]), done.is_set())
                if problem is None:
                    try:
                        if probe.receive(10) != "alive":
                            problem = "sibling conversation answered wrongly"
                    except Exception as e:  # noqa: BLE001
                        problem = "sibling conversation behind a backlog of %d items: %r" % (n, e)
            except Exception as e:  # noqa: BLE001
                problem = "process-level backlog run failed: %r" % (e,)
            finally:
                threading.Thread(target=lambda g=group: g.terminate(timeout=1.0), daemon=True).start()
            if problem:
                res.violations.append(dict(case=case, what=problem))
                return
            res.traces += 1


def process_level_kill(ctx, res, nruns=3):
    """C04: a REAL worker process is SIGKILLed while it streams items (possibly in the middle of a frame): blocked receivers get
    complete items in order and then EOFError, waitclose raises EOFError, a callback gets its endmarker, nothing blocks; afterwards
    send / newchannel / remote_exec raise OSError and the gateway reports that it is not receiving — each call bounded by a
    watchdog (a call that does not come back within 8 s is a violation)."""
    import os
    import signal
    import threading
    import time

    execnet = ctx.execnet
    rng = ctx.rng("proc-kill")

    def bounded(fn, what, problems, timeout=8.0):
        box = {}

        def run():
            try:
                box["v"] = ("ok", fn())
            except BaseException as e:  # noqa: BLE001
                box["v"] = ("exc", e)
        t = threading.Thread(target=run, daemon=True)
        t.start()
        t.join(timeout)
        if t.is_alive():
            problems.append("%s did not come back within %.0f s after the peer was killed (blocks for ever)" % (what, timeout))
            return ("hang", None)
        return box["v"]

    for run_i in range(nruns):
        problems = []
        group = execnet.Group()
        size = rng.choice([10, 3000, 200000])
        delay = rng.choice([0.0, 0.01, 0.05, 0.2])
        case = {"scenario": "process-kill", "item_size": size, "kill_after": delay, "run": run_i}
        res.count(("proc-kill", size, delay, run_i))
        res.stat("process_level_runs")
        try:
            gw = group.makegateway("popen")
            pid = gw.remote_exec("import os\nchannel.send(os.getpid())").receive(10)
            body = "n = channel.receive()\ni = 0\nwhile True:\n    channel.send((i, b'x' * n))\n    i += 1\n"
            ch_recv = gw.remote_exec(body)
            ch_cb = gw.remote_exec(body)
            ch_wait = gw.remote_exec("channel.receive()")
            got, cb_log, outcome = [], [], {}
            END = object()
            ch_cb.setcallback(lambda x: cb_log.append("END" if x is END else x[0]), endmarker=END)

            def receiver():
                try:
                    while True:
                        got.append(ch_recv.receive(30)[0])
                except EOFError:
                    outcome["recv"] = "EOFError"
                except BaseException as e:  # noqa: BLE001
                    outcome["recv"] = "exc %r" % (e,)

            def waiter():
                try:
                    ch_wait.waitclose(30)
                    outcome["wait"] = "returned"
                except EOFError:
                    outcome["wait"] = "EOFError"
                except BaseException as e:  # noqa: BLE001
                    outcome["wait"] = "exc %r" % (e,)
            ts = [threading.Thread(target=receiver, daemon=True), threading.Thread(target=waiter, daemon=True)]
            for t in ts:
                t.start()
            ch_recv.send(size)
            ch_cb.send(size)
            time.sleep(delay)
            os.kill(pid, signal.SIGKILL)
            for t in ts:
                t.join(15)
                if t.is_alive():
                    problems.append("a receiver / waitclose caller is still blocked 15 s after the peer was killed")
            if outcome.get("recv") != "EOFError" and "recv" in outcome:
                problems.append("blocked receive ended with %s instead of EOFError" % outcome["recv"])
            if outcome.get("wait") not in ("EOFError", None):
                problems.append("waitclose ended with %s instead of EOFError" % outcome["wait"])
            if got != list(range(len(got))):
                problems.append("items obtained before the loss are not a prefix in order: %r" % (got[:10],))
            t_end = time.time() + 10
            while "END" not in cb_log and time.time() < t_end:
                time.sleep(0.02)
            if cb_log.count("END") != 1 or cb_log[-1] != "END" or cb_log[:-1] != list(range(len(cb_log) - 1)):
                problems.append("callback log after the loss: %d items, END count %d" % (len(cb_log), cb_log.count("END")))
            if not problems:
                for what, fn in (("send()", lambda: ch_recv.send(1)), ("newchannel()", gw.newchannel), ("remote_exec()", lambda: gw.remote_exec("pass")),
                                 ("receive() again", lambda: ch_recv.receive(5)), ("repr(gateway)", lambda: repr(gw))):
                    r = bounded(fn, what, problems)
                    if r[0] == "hang":
                        break
                    if what in ("send()", "newchannel()", "remote_exec()") and not (r[0] == "exc" and isinstance(r[1], OSError)):
                        problems.append("%s after the connection was lost: %r (expected OSError)" % (what, r))
                    if what == "receive() again" and not (r[0] == "exc" and isinstance(r[1], EOFError)):
                        problems.append("receive() after the loss: %r (expected EOFError again)" % (r,))
                if gw.hasreceiver():
                    problems.append("gateway still reports a receiver after its peer was killed")
        except Exception as e:  # noqa: BLE001
            problems.append("process-level kill run failed: %r" % (e,))
        finally:
            threading.Thread(target=lambda: group.terminate(timeout=1.0), daemon=True).start()
        for p in problems:
            res.violations.append(dict(case=case, what=p))
        if problems:
            return
        res.traces += 1


def process_level_multichannel(ctx, res, ngw=2):
    """C10: MultiChannel.make_receive_queue over several REAL gateways — per member channel: every item once,
    in order, then exactly one endmarker; the endmarker may be any value the caller chooses (None, 0, "", a tuple …)"""
    rng = ctx.rng("proc-multichannel")
    ends = [None, rng.choice(["<end>", 0, "", (), -1, False])]
    if ctx.thorough:
        ends += ["<end>", 0, "", (), -1, False]
    for k, end in enumerate(ends):
        _process_level_multichannel(ctx, res, ngw, end, common.rng_for(ctx.seed, "proc-multichannel:%d" % k))


def _process_level_multichannel(ctx, res, ngw, END, rng):
    execnet = ctx.execnet
    group = execnet.Group()
    problems = []
    try:
        for _ in range(ngw):
            group.makegateway("popen")
        counts = [rng.choice([0, 1, 7, 30]) for _ in range(ngw)]
        mch = group.remote_exec("n = channel.receive()\nfor i in range(n):\n    channel.send((n, i))\n")
        for ch, n in zip(mch, counts):
            ch.send(n)
        q = mch.make_receive_queue(endmarker=END)
        per = {ch: [] for ch in mch}
        ends = 0
        while ends < ngw:
            ch, obj = q.get(timeout=10)
            per[ch].append(obj)
            if type(obj) is type(END) and obj == END:
                ends += 1
        import queue as _q
        try:
            extra = q.get(timeout=0.3)
            problems.append("an event arrived after every member channel delivered its endmarker: %r" % (extra[1],))
        except _q.Empty:
            pass
        for ch, n in zip(mch, counts):
            exp = [(n, i) for i in range(n)] + [END]
            if per[ch] != exp:
                problems.append(f"member channel with {n} items: queue projection {per[ch][:5]}… != items in order then one endmarker")
            try:
                ch.receive(0.1)
                problems.append("receive() accepted on a MultiChannel member after make_receive_queue")
            except OSError:
                pass
        res.count(("proc-multichannel", repr(counts), repr(END)))
        res.stat("process_level_runs")
    except Exception as e:  # noqa: BLE001
        problems.append("process-level MultiChannel run (endmarker=%r) failed: %r" % (END, e))
    finally:
        group.terminate(timeout=3.0)
    for p in problems:
        res.violations.append(dict(case={"scenario": "process-multichannel", "endmarker": repr(END)}, what=p))
