/-
Helper lemmas for C20 (XSpec part): `//`-splitting vs joining, first-`=` splitting, and the loop of
`XSpec.__init__` over a list of well-shaped components.
-/
import ExecnetVerif.Model.XSpec
namespace ExecnetVerif.XSpec

/-! ### split / join -/

theorem splitSS_ne_nil (s : Str) : splitSS s ≠ [] := by
  induction s using splitSS.induct with
  | case1 => simp [splitSS]
  | case2 c => simp [splitSS]
  | case3 c d rest h ih => simp [splitSS, h]
  | case4 c d rest h ih =>
    simp only [splitSS, h, if_false]
    cases splitSS (d :: rest) <;> simp [consHead]

theorem joinSS_consHead (c : Char) (l : List Str) (h : l ≠ []) :
    joinSS (consHead c l) = c :: joinSS l := by
  match l, h with
  | [p], _ => rfl
  | p :: q :: r, _ => rfl

/-- joining the components of any string gives the string back -/
theorem joinSS_splitSS (s : Str) : joinSS (splitSS s) = s := by
  induction s using splitSS.induct with
  | case1 => rfl
  | case2 c => rfl
  | case3 c d rest h ih =>
    obtain ⟨rfl, rfl⟩ := h
    simp only [splitSS, and_self, if_true]
    cases hs : splitSS rest with
    | nil => exact absurd hs (splitSS_ne_nil rest)
    | cons a b => rw [hs] at ih; simp [joinSS, ih]
  | case4 c d rest h ih =>
    simp only [splitSS, h, if_false]
    rw [joinSS_consHead _ _ (splitSS_ne_nil _), ih]

theorem splitSS_single (p : Str) (h : hasSS p = false) : splitSS p = [p] := by
  induction p using splitSS.induct with
  | case1 => rfl
  | case2 c => rfl
  | case3 c d rest hc ih =>
    obtain ⟨rfl, rfl⟩ := hc
    simp [hasSS] at h
  | case4 c d rest hc ih =>
    simp only [hasSS, Bool.or_eq_false_iff] at h
    simp only [splitSS, hc, if_false, ih h.2, consHead]

theorem endsSlash_cons_cons (c d : Char) (r : Str) : endsSlash (c :: d :: r) = endsSlash (d :: r) := by
  simp [endsSlash, List.getLast?_cons_cons]

/-- a component without "//" that does not end in '/' is split off exactly -/
theorem splitSS_append_sep (p rest : Str) (h1 : hasSS p = false) (h2 : endsSlash p = false) :
    splitSS (p ++ '/' :: '/' :: rest) = p :: splitSS rest := by
  induction p using splitSS.induct with
  | case1 => simp [splitSS]
  | case2 c =>
    have hc : c ≠ '/' := by
      intro hc; subst hc; simp [endsSlash] at h2
    simp [splitSS, hc, consHead]
  | case3 c d r hc ih =>
    obtain ⟨rfl, rfl⟩ := hc
    simp [hasSS] at h1
  | case4 c d r hc ih =>
    simp only [hasSS, Bool.or_eq_false_iff] at h1
    rw [endsSlash_cons_cons] at h2
    have := ih h1.2 h2
    simp only [List.cons_append] at this ⊢
    simp only [splitSS, hc, if_false, this, consHead]

theorem splitSS_joinSS : ∀ (ps : List Str), ps ≠ [] → (∀ p ∈ ps, hasSS p = false) →
    noInnerTrailingSlash ps = true → splitSS (joinSS ps) = ps
  | [], h, _, _ => absurd rfl h
  | [p], _, h1, _ => by simpa [joinSS] using splitSS_single p (h1 p (by simp))
  | p :: q :: r, _, h1, h2 => by
    simp only [noInnerTrailingSlash, Bool.and_eq_true, Bool.not_eq_true'] at h2
    simp only [joinSS]
    rw [splitSS_append_sep p _ (h1 p (by simp)) h2.1]
    rw [splitSS_joinSS (q :: r) (by simp) (fun x hx => h1 x (by simp [hx])) h2.2]

/-! ### first '=' -/

theorem splitEq_key (k : Str) (h : k.contains '=' = false) : splitEq k = (k, .true) := by
  induction k with
  | nil => rfl
  | cons c r ih =>
    simp only [List.contains_cons, Bool.or_eq_false_iff, beq_eq_false_iff_ne, ne_eq] at h
    have hc : c ≠ '=' := fun e => h.1 e.symm
    simp [splitEq, hc, ih h.2]

theorem splitEq_keyval (k v : Str) (h : k.contains '=' = false) :
    splitEq (k ++ '=' :: v) = (k, .str v) := by
  induction k with
  | nil => simp [splitEq]
  | cons c r ih =>
    simp only [List.contains_cons, Bool.or_eq_false_iff, beq_eq_false_iff_ne, ne_eq] at h
    have hc : c ≠ '=' := fun e => h.1 e.symm
    simp [splitEq, hc, ih h.2]

theorem splitEq_piece (kv : Str × Option Str) (h : kv.1.contains '=' = false) :
    splitEq (piece kv) = (kv.1, toVal kv.2) := by
  obtain ⟨k, v⟩ := kv
  cases v with
  | none => exact splitEq_key k h
  | some v => exact splitEq_keyval k v h

/-- the inverse direction: a component is its key, or key '=' value -/
def unsplit : Str × Val → Str
  | (k, .true) => k
  | (k, .str v) => k ++ '=' :: v

theorem unsplit_splitEq (p : Str) : unsplit (splitEq p) = p := by
  induction p with
  | nil => rfl
  | cons c r ih =>
    by_cases hc : c = '='
    · simp [splitEq, hc, unsplit]
    · simp only [splitEq, hc, if_false]
      cases hv : (splitEq r).2 with
      | true =>
        have : splitEq r = ((splitEq r).1, .true) := by rw [← hv]
        rw [this] at ih; simpa [unsplit] using ih
      | str v =>
        have : splitEq r = ((splitEq r).1, .str v) := by rw [← hv]
        rw [this] at ih; simpa [unsplit] using ih

/-! ### components without "//" -/

theorem hasSS_keyval (k v : Str) (hk : hasSS k = false) (hv : hasSS v = false) :
    hasSS (k ++ '=' :: v) = false := by
  induction k using hasSS.induct with
  | case1 =>
    cases v with
    | nil => rfl
    | cons d r => simpa [hasSS] using hv
  | case2 c =>
    have : hasSS ('=' :: v) = false := by
      cases v with
      | nil => rfl
      | cons d r => simpa [hasSS] using hv
    simp [hasSS, this]
  | case3 c d r ih =>
    simp only [hasSS, Bool.or_eq_false_iff] at hk
    have := ih hk.2
    simp only [List.cons_append] at this ⊢
    simp [hasSS, hk.1, this]

theorem hasSS_piece (kv : Str × Option Str) (h : (keyOk kv.1 && valOk kv.2) = true) :
    hasSS (piece kv) = false := by
  obtain ⟨k, v⟩ := kv
  simp only [keyOk, Bool.and_eq_true, Bool.not_eq_true', bne_iff_ne, ne_eq] at h
  cases v with
  | none => exact h.1.1.2
  | some v =>
    have hv : hasSS v = false := by simpa [valOk] using h.2
    exact hasSS_keyval k v h.1.1.2 hv

end ExecnetVerif.XSpec

namespace ExecnetVerif.XSpec

/-! ### the loop of `XSpec.__init__` -/

/-- every key processed so far, env: keys with their prefix -/
def seen (o : Obj) : List Str := o.attrs.map (·.1) ++ o.env.map (fun e => envPrefix ++ e.1)

def plainOf (kvs : List (Str × Option Str)) : List (Str × Val) :=
  (kvs.filter (fun kv => !isEnvKey kv.1)).map (fun kv => (kv.1, toVal kv.2))

def envOf (kvs : List (Str × Option Str)) : List (Str × Val) :=
  (kvs.filter (fun kv => isEnvKey kv.1)).map (fun kv => (kv.1.drop 4, toVal kv.2))

theorem isEnvKey_eq (k : Str) (h : isEnvKey k = true) : k = envPrefix ++ k.drop 4 := by
  simp only [isEnvKey, beq_iff_eq] at h
  rw [← h, List.take_append_drop]

theorem isEnvKey_prefix (n : Str) : isEnvKey (envPrefix ++ n) = true := rfl

theorem drop_prefix (n : Str) : (envPrefix ++ n).drop 4 = n := rfl

theorem keyOk_cons (k : Str) (h : keyOk k = true) :
    ∃ c r, k = c :: r ∧ c ≠ '_' ∧ k.contains '=' = false ∧ hasSS k = false := by
  simp only [keyOk, Bool.and_eq_true, Bool.not_eq_true', bne_iff_ne, ne_eq] at h
  obtain ⟨⟨⟨h1, h2⟩, h3⟩, h4⟩ := h
  cases k with
  | nil => simp at h1
  | cons c r =>
    refine ⟨c, r, rfl, ?_, h2, h3⟩
    intro e; subst e; simp at h4

theorem dup_iff (o : Obj) (k : Str) (c : Char) (r : Str) (hk : k = c :: r) (hc : c ≠ '_') :
    (k ∈ dictKeys o ∨ (isEnvKey k = true ∧ k.drop 4 ∈ o.env.map (·.1))) ↔
      (k = envName ∨ k ∈ seen o) := by
  have hspec : k ≠ specName := by
    rw [hk]; intro e; simp only [specName, List.cons.injEq] at e; exact hc e.1
  constructor
  · rintro (h | ⟨h1, h2⟩)
    · simp only [dictKeys, List.mem_cons] at h
      rcases h with h | h | h
      · exact absurd h hspec
      · exact Or.inl h
      · exact Or.inr (by simp only [seen, List.mem_append]; exact Or.inl h)
    · right
      simp only [seen, List.mem_append]
      right
      rw [isEnvKey_eq k h1]
      simp only [List.mem_map] at h2 ⊢
      obtain ⟨e, he, hd⟩ := h2
      exact ⟨e, he, by rw [hd]⟩
  · rintro (h | h)
    · left; simp [dictKeys, h]
    · simp only [seen, List.mem_append] at h
      rcases h with h | h
      · left; simp only [dictKeys, List.mem_cons]; exact Or.inr (Or.inr h)
      · right
        simp only [List.mem_map] at h
        obtain ⟨e, he, hd⟩ := h
        subst hd
        exact ⟨rfl, by simp only [List.mem_map]; exact ⟨e, he, rfl⟩⟩

theorem stepPiece_piece (o : Obj) (kv : Str × Option Str) (hk : keyOk kv.1 = true) :
    stepPiece o (piece kv) =
      if kv.1 = envName ∨ kv.1 ∈ seen o then .error .valueError
      else if isEnvKey kv.1 = true then
        .ok { o with env := o.env ++ [(kv.1.drop 4, toVal kv.2)] }
      else .ok { o with attrs := o.attrs ++ [(kv.1, toVal kv.2)] } := by
  obtain ⟨c, r, hkc, hc, heq, _⟩ := keyOk_cons kv.1 hk
  unfold stepPiece
  simp only [splitEq_piece kv heq]
  have hd := dup_iff o kv.1 c r hkc hc
  by_cases hdup : kv.1 = envName ∨ kv.1 ∈ seen o
  · have := hd.2 hdup
    rw [hkc] at this ⊢
    simp only [hc, if_false, this, if_true]
    rw [← hkc, if_pos hdup]
  · have : ¬ (kv.1 ∈ dictKeys o ∨ (isEnvKey kv.1 = true ∧ kv.1.drop 4 ∈ o.env.map (·.1))) :=
      fun h => hdup (hd.1 h)
    rw [if_neg hdup]
    rw [hkc] at this ⊢
    simp only [hc, if_false, this]

theorem mem_seen_env (o : Obj) (k : Str) (v : Val) (x : Str) (hk : isEnvKey k = true) :
    x ∈ seen { o with env := o.env ++ [(k.drop 4, v)] } ↔ x ∈ seen o ∨ x = k := by
  have : envPrefix ++ k.drop 4 = k := (isEnvKey_eq k hk).symm
  simp only [seen, List.map_append, List.mem_append, List.map_cons, List.map_nil, List.mem_singleton,
    this, or_assoc]

theorem mem_seen_attr (o : Obj) (k : Str) (v : Val) (x : Str) :
    x ∈ seen { o with attrs := o.attrs ++ [(k, v)] } ↔ x ∈ seen o ∨ x = k := by
  simp only [seen, List.map_append, List.mem_append, List.map_cons, List.map_nil, List.mem_singleton,
    or_right_comm]

/-- success: well-shaped, pairwise distinct keys none of which was seen before are all stored -/
theorem loop_ok : ∀ (kvs : List (Str × Option Str)) (o : Obj),
    (∀ kv ∈ kvs, keyOk kv.1 = true) → (kvs.map (·.1)).Nodup → envName ∉ kvs.map (·.1) →
    (∀ kv ∈ kvs, kv.1 ∉ seen o) →
    loop o (kvs.map piece) =
      .ok { o with attrs := o.attrs ++ plainOf kvs, env := o.env ++ envOf kvs } := by
  intro kvs
  induction kvs with
  | nil => intro o _ _ _ _; simp [loop, plainOf, envOf]
  | cons kv t ih =>
    intro o hk hnd henv hseen
    simp only [List.map_cons, List.nodup_cons] at hnd
    simp only [List.map_cons, List.mem_cons, not_or] at henv
    have hkv := hk kv (by simp)
    have hnot : ¬ (kv.1 = envName ∨ kv.1 ∈ seen o) := by
      rintro (h | h)
      · exact henv.1 h.symm
      · exact hseen kv (by simp) h
    simp only [List.map_cons, loop, stepPiece_piece o kv hkv, if_neg hnot]
    by_cases he : isEnvKey kv.1 = true
    · simp only [he, if_true]
      rw [ih _ (fun x hx => hk x (by simp [hx])) hnd.2 henv.2]
      · simp [plainOf, envOf, he]
      · intro x hx hmem
        rw [mem_seen_env o kv.1 _ _ he] at hmem
        rcases hmem with h | h
        · exact hseen x (by simp [hx]) h
        · exact hnd.1 (by rw [← h]; exact List.mem_map.2 ⟨x, hx, rfl⟩)
    · have he' : isEnvKey kv.1 = false := by simpa using he
      simp only [he', Bool.false_eq_true, if_false]
      rw [ih _ (fun x hx => hk x (by simp [hx])) hnd.2 henv.2]
      · simp [plainOf, envOf, he']
      · intro x hx hmem
        rw [mem_seen_attr] at hmem
        rcases hmem with h | h
        · exact hseen x (by simp [hx]) h
        · exact hnd.1 (by rw [← h]; exact List.mem_map.2 ⟨x, hx, rfl⟩)

/-- failure: a repeated key (plain or env:), the key `env`, or a key seen before is rejected with
ValueError — no other error comes first when every key is well-shaped -/
theorem loop_dup : ∀ (kvs : List (Str × Option Str)) (o : Obj),
    (∀ kv ∈ kvs, keyOk kv.1 = true) →
    (¬ (kvs.map (·.1)).Nodup ∨ ∃ kv ∈ kvs, kv.1 = envName ∨ kv.1 ∈ seen o) →
    loop o (kvs.map piece) = .error .valueError := by
  intro kvs
  induction kvs with
  | nil => intro o _ h; simp at h
  | cons kv t ih =>
    intro o hk h
    have hkv := hk kv (by simp)
    simp only [List.map_cons, loop, stepPiece_piece o kv hkv]
    by_cases hdup : kv.1 = envName ∨ kv.1 ∈ seen o
    · simp [if_pos hdup]
    · rw [if_neg hdup]
      -- what the tail must satisfy, in terms of "old seen or the new key"
      have tailcond : ¬ (t.map (·.1)).Nodup ∨
          ∃ x ∈ t, x.1 = envName ∨ (x.1 ∈ seen o ∨ x.1 = kv.1) := by
        rcases h with h | ⟨x, hx, hx2⟩
        · simp only [List.map_cons, List.nodup_cons] at h
          by_cases hm : kv.1 ∈ t.map (·.1)
          · obtain ⟨x, hx, hxe⟩ := List.mem_map.1 hm
            exact Or.inr ⟨x, hx, Or.inr (Or.inr hxe)⟩
          · exact Or.inl (fun hn => h ⟨hm, hn⟩)
        · simp only [List.mem_cons] at hx
          rcases hx with rfl | hx
          · exact absurd hx2 hdup
          · rcases hx2 with h | h
            · exact Or.inr ⟨x, hx, Or.inl h⟩
            · exact Or.inr ⟨x, hx, Or.inr (Or.inl h)⟩
      by_cases he : isEnvKey kv.1 = true
      · simp only [he, if_true]
        apply ih _ (fun x hx => hk x (by simp [hx]))
        rcases tailcond with h | ⟨x, hx, hx2⟩
        · exact Or.inl h
        · exact Or.inr ⟨x, hx, by rw [mem_seen_env o kv.1 _ _ he]; exact hx2⟩
      · have he' : isEnvKey kv.1 = false := by simpa using he
        simp only [he', Bool.false_eq_true, if_false]
        apply ih _ (fun x hx => hk x (by simp [hx]))
        rcases tailcond with h | ⟨x, hx, hx2⟩
        · exact Or.inl h
        · exact Or.inr ⟨x, hx, by rw [mem_seen_attr]; exact hx2⟩

theorem okShape_parts (kvs : List (Str × Option Str)) (h : okShape kvs = true) :
    kvs ≠ [] ∧ (∀ kv ∈ kvs, (keyOk kv.1 && valOk kv.2) = true) ∧
      noInnerTrailingSlash (kvs.map piece) = true := by
  simp only [okShape, Bool.and_eq_true, Bool.not_eq_true', List.all_eq_true] at h
  refine ⟨?_, ?_, h.2⟩
  · intro e; subst e; simp at h
  · intro kv hkv
    simpa using h.1.2 kv hkv

/-- the components of a printed well-shaped list are recovered exactly -/
theorem splitSS_print (kvs : List (Str × Option Str)) (h : okShape kvs = true) :
    splitSS (print kvs) = kvs.map piece := by
  obtain ⟨hne, hall, hts⟩ := okShape_parts kvs h
  apply splitSS_joinSS _ (by simpa using hne) _ hts
  intro p hp
  obtain ⟨kv, hkv, rfl⟩ := List.mem_map.1 hp
  exact hasSS_piece kv (hall kv hkv)

end ExecnetVerif.XSpec

namespace ExecnetVerif.XSpec

/-! ### what an accepted string was parsed into (no hypothesis on the string) -/

/-- the (key, value) items of a string in order: components split at their first '=' -/
def itemsOf (s : Str) : List (Str × Val) := (splitSS s).map splitEq

/-- printing items back: `key` / `key=value` joined by "//" -/
def printItems (items : List (Str × Val)) : Str := joinSS (items.map unsplit)

def plainItems (items : List (Str × Val)) : List (Str × Val) :=
  items.filter (fun kv => !isEnvKey kv.1)

def envItems (items : List (Str × Val)) : List (Str × Val) :=
  (items.filter (fun kv => isEnvKey kv.1)).map (fun kv => (kv.1.drop 4, kv.2))

theorem printItems_itemsOf (s : Str) : printItems (itemsOf s) = s := by
  simp only [printItems, itemsOf, List.map_map]
  have : (unsplit ∘ splitEq) = id := by funext p; simp [unsplit_splitEq]
  rw [this, List.map_id, joinSS_splitSS]

theorem stepPiece_ok (o o' : Obj) (p : Str) (h : stepPiece o p = .ok o') :
    o'.spec = o.spec ∧
      ((isEnvKey (splitEq p).1 = true ∧ o'.attrs = o.attrs ∧
          o'.env = o.env ++ [((splitEq p).1.drop 4, (splitEq p).2)]) ∨
       (isEnvKey (splitEq p).1 = false ∧ o'.attrs = o.attrs ++ [splitEq p] ∧ o'.env = o.env)) := by
  unfold stepPiece at h
  simp only at h
  split at h
  · cases h
  · rename_i c r hk
    split at h
    · cases h
    · split at h
      · cases h
      · split at h
        · rename_i he
          cases h
          exact ⟨rfl, Or.inl ⟨he, rfl, rfl⟩⟩
        · rename_i he
          cases h
          exact ⟨rfl, Or.inr ⟨by simpa using he, rfl, rfl⟩⟩

theorem loop_ok_inv : ∀ (ps : List Str) (o x : Obj), loop o ps = .ok x →
    x.spec = o.spec ∧ x.attrs = o.attrs ++ plainItems (ps.map splitEq) ∧
      x.env = o.env ++ envItems (ps.map splitEq) := by
  intro ps
  induction ps with
  | nil =>
    intro o x h
    simp only [loop, Except.ok.injEq] at h
    subst h; simp [plainItems, envItems]
  | cons p t ih =>
    intro o x h
    simp only [loop] at h
    cases hs : stepPiece o p with
    | error e => rw [hs] at h; cases h
    | ok o' =>
      rw [hs] at h
      obtain ⟨h1, h2, h3⟩ := ih o' x h
      obtain ⟨g1, g2⟩ := stepPiece_ok o o' p hs
      refine ⟨h1.trans g1, ?_, ?_⟩
      · rcases g2 with ⟨he, ga, ge⟩ | ⟨he, ga, ge⟩
        · rw [h2, ga]; simp [plainItems, he]
        · rw [h2, ga]; simp [plainItems, he]
      · rcases g2 with ⟨he, ga, ge⟩ | ⟨he, ga, ge⟩
        · rw [h3, ge]; simp [envItems, he]
        · rw [h3, ge]; simp [envItems, he]

/-! ### attribute lookup on the expected object -/

theorem lookup_map_of_mem : ∀ (kvs : List (Str × Option Str)) (k : Str) (v : Option Str),
    (kvs.map (·.1)).Nodup → (k, v) ∈ kvs →
    lookup k (kvs.map (fun kv => (kv.1, toVal kv.2))) = some (toVal v) := by
  intro kvs
  induction kvs with
  | nil => intro k v _ h; simp at h
  | cons kv t ih =>
    intro k v hnd hm
    simp only [List.map_cons, List.nodup_cons] at hnd
    simp only [List.mem_cons] at hm
    rcases hm with rfl | hm
    · simp [lookup]
    · have : kv.1 ≠ k := by
        rintro rfl
        exact hnd.1 (List.mem_map.2 ⟨(kv.1, v), hm, rfl⟩)
      simp [lookup, this, ih k v hnd.2 hm]

theorem lookup_none_of_not_mem : ∀ (l : List (Str × Val)) (k : Str), k ∉ l.map (·.1) →
    lookup k l = none := by
  intro l
  induction l with
  | nil => intro k _; rfl
  | cons kv t ih =>
    intro k h
    simp only [List.map_cons, List.mem_cons, not_or] at h
    obtain ⟨a, b⟩ := kv
    have : a ≠ k := fun e => h.1 e.symm
    simp [lookup, this, ih k h.2]

end ExecnetVerif.XSpec
