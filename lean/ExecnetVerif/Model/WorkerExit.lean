/-
L5 `WorkerExit` — the worker's exit ladder as a timed transition system (C11).

Transcribed from `gateway_base.py`:
  `BaseGateway._thread_receiver` (epilogue after the receive loop ended),
  `ChannelFactory._finished_receiving`, `WorkerGateway._terminate_execution`,
  `WorkerGateway.serve`, `WorkerGateway.executetask`, `Reply.run`,
  `WorkerPool.integrate_as_primary_thread / trigger_shutdown / waitall / _perform_spawn`.

Threads of the worker process: the *receiver* thread (program counter `Pc`), the *main* thread
(`Main`: primary loop of the execution pool, a task, `join`, returned), optionally one non-main pool
thread running a task that never finishes (`poolBusy`).  Time is a `Nat` in tenths of a second.
The two `waitall` time-outs are parameters (`Ladder`, `none` = wait without bound), instantiated in
`Props/C11.lean` from the regenerated constants.

What each main-thread activity does on EOFError / KeyboardInterrupt (from the code):
* blocked in `channel.receive()`: `_finished_receiving` enqueues ENDMARKER → `receive` raises EOFError →
  `_executetask`'s `except BaseException` ignores it because receiving has finished (it has: the EOFError comes from
  `_finished_receiving`) → the task finishes normally (before `trigger_shutdown`);
* `time.sleep` / computing: EOF has no effect; SIGINT raises KeyboardInterrupt inside the body →
  `executetask`'s `except KeyboardInterrupt: channel.close(..); raise` → `Reply.run` catches BaseException
  and stores it → `_perform_spawn` removes the reply → the pool is idle, the primary loop sees
  `_shuttingdown` and leaves;
* a body that catches KeyboardInterrupt and goes on: nothing changes, only `os._exit(1)` ends it;
* main thread already in `serve()`'s `self.join()` (a task on a non-main pool thread keeps the pool
  busy): KeyboardInterrupt is raised in `join`, `serve`'s `except KeyboardInterrupt` swallows it,
  `serve` returns and the interpreter exits (pool threads are `_thread` threads, not joined at exit).
-/
namespace ExecnetVerif.WorkerExit

/-- what the worker is doing when the connection ends (the property's quantifier) -/
inductive Activity
  | idle
  | blockedInReceive
  /-- the main-thread task sleeps `d` more tenths of a second, then returns -/
  | sleeping (d : Nat)
  | busyInterruptible
  | swallowsKeyboardInterrupt
  /-- main thread idle in the primary loop; extra threads exist: `inPool = false` — daemon threads
  started by an already finished body (unknown to the pool); `inPool = true` — a second `remote_exec`
  body on a non-main pool thread that never finishes (signals never reach it) -/
  | extraDaemonThreads (inPool : Bool)
  deriving Repr, DecidableEq

/-- task running on the main thread -/
inductive Task
  | recv
  | sleepUntil (t : Nat)
  | busy
  | swallow
  deriving Repr, DecidableEq

inductive Main
  | primaryWait
  | inTask (k : Task)
  | joining
  | returned
  deriving Repr, DecidableEq

/-- program counter of the receiver thread after its loop ended -/
inductive Pc
  | eof            -- about to call `_channelfactory._finished_receiving()`
  | finished       -- about to call `_execpool.trigger_shutdown()`
  | wait5          -- about to call `_execpool.waitall(T5)`
  | sigint         -- about to `os.kill(os.getpid(), 2)`
  | wait10         -- about to call `_execpool.waitall(T10)`
  | hardExit       -- about to call `os._exit(1)`
  | closing        -- `close_read`, `close_write`, `_receivepool.trigger_shutdown()`
  deriving Repr, DecidableEq

inductive Rung
  | clean | sigint | hardExit
  deriving Repr, DecidableEq

structure Exit where
  time : Nat
  status : Nat
  rung : Rung
  deriving Repr, DecidableEq

/-- the two `waitall` time-outs of `_terminate_execution` (`none` = no bound) and the time the interpreter
needs from `serve()` returning to the process being gone -/
structure Ladder where
  t5 : Option Nat
  t10 : Option Nat
  fin : Nat
  deriving Repr, DecidableEq

structure St where
  now : Nat
  pc : Pc
  main : Main
  poolBusy : Bool
  sigintAt : Option Nat
  gone : Option Exit
  deriving Repr, DecidableEq

def initMain : Activity → Nat → Main
  | .idle, _ => .primaryWait
  | .blockedInReceive, _ => .inTask .recv
  | .sleeping d, t0 => .inTask (.sleepUntil (t0 + d))
  | .busyInterruptible, _ => .inTask .busy
  | .swallowsKeyboardInterrupt, _ => .inTask .swallow
  | .extraDaemonThreads _, _ => .primaryWait

def initPoolBusy : Activity → Bool
  | .extraDaemonThreads b => b
  | _ => false

/-- state at the moment the receiver loop ends (EOF or GATEWAY_TERMINATE read at `t0`) -/
def init (a : Activity) (t0 : Nat) : St :=
  { now := t0, pc := .eof, main := initMain a t0, poolBusy := initPoolBusy a, sigintAt := none, gone := none }

/-- the pool's `_running` set is non-empty -/
def running (s : St) : Bool :=
  s.poolBusy || (match s.main with | .inTask _ => true | _ => false)

/-- absolute time at which the running tasks finish by themselves (`none` = never) -/
def selfFinish (s : St) : Option Nat :=
  if s.poolBusy then none else
  match s.main with
  | .inTask (.sleepUntil t) => some t
  | .inTask _ => none
  | _ => some s.now

def rungOf (s : St) : Rung := if s.sigintAt.isSome then .sigint else .clean

/-- `waitall(timeout)` called at `s.now`; `next` = pc when it returned True, `esc` = pc when it timed out.
Result `none`: blocked without bound (no successor state). A task that finished leaves the main thread in
`join` (`_shuttingdown` is set). -/
def waitall (s : St) (timeout : Option Nat) (next esc : Pc) : Option St :=
  if !running s then some { s with pc := next } else
  match selfFinish s, timeout with
  | some f, some T =>
    if f ≤ s.now + T then some { s with now := max s.now f, main := .joining, pc := next }
    else some { s with now := s.now + T, pc := esc }
  | some f, none => some { s with now := max s.now f, main := .joining, pc := next }
  | none, some T => some { s with now := s.now + T, pc := esc }
  | none, none => none

/-- KeyboardInterrupt raised in the main thread -/
def interruptMain (L : Ladder) (s : St) : St :=
  match s.main with
  | .inTask .swallow => s
  | .inTask _ => { s with main := .joining }
  | .primaryWait | .joining =>
    { s with main := .returned, gone := some ⟨s.now + L.fin, 0, .sigint⟩ }
  | .returned => s

/-- one step of the receiver thread (with the main-thread reactions it causes); `none` iff the process is
gone or the receiver is blocked without bound -/
def step (L : Ladder) (s : St) : Option St :=
  if s.gone.isSome then none else
  match s.pc with
  | .eof =>
    -- `_finished_receiving`: channel waits are unblocked with EOFError; `_shuttingdown` is still false,
    -- so the primary loop goes back to waiting
    some { s with pc := .finished,
                  main := (match s.main with | .inTask .recv => .primaryWait | m => m) }
  | .finished =>
    -- `trigger_shutdown`: a waiting primary thread is woken with no task and leaves the loop
    some { s with pc := .wait5,
                  main := (match s.main with | .primaryWait => .joining | m => m) }
  | .wait5 => waitall s L.t5 .closing .sigint
  | .sigint => some (interruptMain L { s with pc := .wait10, sigintAt := some s.now })
  | .wait10 => waitall s L.t10 .closing .hardExit
  | .hardExit => some { s with gone := some ⟨s.now, 1, .hardExit⟩ }
  | .closing =>
    -- receiver closes the io and ends; `join()` returns; `serve()` returns; interpreter exits
    some { s with main := .returned, gone := some ⟨s.now + L.fin, 0, rungOf s⟩ }

def iter (L : Ladder) : Nat → St → St
  | 0, s => s
  | n + 1, s => match step L s with
    | some s' => iter L n s'
    | none => s

/-- the ladder has 7 program points; 8 steps always suffice -/
def fuel : Nat := 8

def run (L : Ladder) (a : Activity) (t0 : Nat) : St := iter L fuel (init a t0)

/-- exit time of a finished run (`none`: the process never exits) -/
def exitTime? (s : St) : Option Nat := s.gone.map (·.time)

/-- A worker reached through forwarding gateways (`popen//via=…`), nearest to the initiator first: a
forwarder runs `serve_proxy_io` on its main thread, blocked in a pipe read from its sub-process.  EOF of
its own connection does not end that read; what ends it is SIGINT (`busyInterruptible`) or — `d` ticks
later — a frame written by the sub-process, whose forwarding fails because the master connection is gone
(`sleeping d`).  The proxied worker's stdin is closed only when the forwarder's task is over / its
process gone. -/
def runVia (L : Ladder) : List Activity → Activity → Nat → Option St
  | [], a, t0 => some (run L a t0)
  | f :: fs, a, t0 =>
    match (run L f t0).gone with
    | some e => runVia L fs a e.time
    | none => none

end ExecnetVerif.WorkerExit
