/-
C14 — main_thread_only executes in the main thread and never cries deadlock falsely.
Property theorems only.  Two models are involved:
* `Model/Pool.lean` (the WorkerPool of C09) for "every body runs on the primary (= main) thread, one at a time";
* `Model/ExecGate.lean` for the gate in front of the pool (`_executetask_complete`, the 1 s wait, the deadlock
  reply) — order, rejection of overlapping submissions, and no false deadlock under the assumption `Timely`.
All theorems are about every reachable state, i.e. every interleaving of the initiator, the worker's receiver
thread and the worker's main thread, for histories of any length and any outcomes
(return / raise / SystemExit / KeyboardInterrupt; a blocked body is a body whose `mFinish` step is not taken).
-/
import ExecnetVerif.Proofs.GateSteps
import ExecnetVerif.Proofs.PoolMto
import ExecnetVerif.Generated.Tables
import ExecnetVerif.Model.ExecChoice
namespace ExecnetVerif
open Gate

/-- the receiver's wait in `_local_schedulexec` is the 1 s (10 tenths) the model's time-out stands for -/
theorem C14_gate_wait_pinned : Generated.gateWaitDeci = 10 := by decide

/-- **C14 (main thread).** In a `main_thread_only` pool with an integrated primary thread (the worker's main
thread) no worker thread is ever started: every accepted task is handed to the primary thread, and only the
primary thread can begin, run and finish its body. -/
theorem C14_main_thread {c : Pool.Config} {s : Pool.State} (hc : c.old = false) (hp : c.primary = true)
    (hm : c.mto = true) (h : Pool.Reachable c s) :
    (∀ t, t ∈ s.accepted → s.prim t = true ∧ s.phase t ≠ .created) ∧
    (∀ t a, t ∈ s.accepted → Pool.canExec s a t = true → a = .primary) := by
  have inv := Pool.inv_reachable hc h
  have ap := Pool.allPrim_reachable hc hp hm h
  refine ⟨fun t ht => ?_, fun t a ht hx => ?_⟩
  · have h1 := ap t ((inv.acc t).1 ht)
    exact ⟨h1, fun hcr => by have := inv.workOf t hcr; simp [h1] at this⟩
  · have h1 := ap t ((inv.acc t).1 ht)
    cases a with
    | primary => rfl
    | user i => simp [Pool.canExec] at hx
    | worker u => simp [Pool.canExec, h1] at hx

/-- **C14 (one at a time).** In such a pool two different tasks are never between the begin of their body and
their removal from `_running` at the same time (both would have to be in the primary thread's hands). -/
theorem C14_one_at_a_time {c : Pool.Config} {s : Pool.State} (hc : c.old = false) (hp : c.primary = true)
    (hm : c.mto = true) (h : Pool.Reachable c s) (t u : Pool.TaskId)
    (ht : Pool.primExec (s.phase t) = true) (hu : Pool.primExec (s.phase u) = true) : t = u := by
  have inv := Pool.inv_reachable hc h
  have ap := Pool.allPrim_reachable hc hp hm h
  have h1 := (inv.primRun t).2 ⟨ap t (by intro h0; simp [h0, Pool.primExec] at ht), ht⟩
  have h2 := (inv.primRun u).2 ⟨ap u (by intro h0; simp [h0, Pool.primExec] at hu), hu⟩
  rw [h1] at h2
  cases h2; rfl

/-- the same two facts at the level of the gate model: bodies are begun by the main thread's `mStart` only
(there is no other step that extends `started`), and at most one exec is between body begin and `complete.set()` -/
theorem C14_one_at_a_time_gate {c : Config} {s : State} (hc : c.old = false) (h : Reachable c s) (j k : Nat)
    (hj : s.ph j = .running ∨ (∃ o, s.ph j = .bodyDone o) ∨ (∃ o, s.ph j = .closed o))
    (hk : s.ph k = .running ∨ (∃ o, s.ph k = .bodyDone o) ∨ (∃ o, s.ph k = .closed o)) : j = k := by
  have inv := ginv_reachable hc h
  have hmj : ∃ o, s.m = .running j ∨ s.m = .bodyDone j o ∨ s.m = .closedSt j o := by
    rcases hj with hj | ⟨o, hj⟩ | ⟨o, hj⟩
    · exact ⟨.ret, Or.inl ((inv.phRun j).1 hj)⟩
    · exact ⟨o, Or.inr (Or.inl ((inv.phDone j o).1 hj))⟩
    · exact ⟨o, Or.inr (Or.inr ((inv.phClosed j o).1 hj))⟩
  have hmk : ∃ o, s.m = .running k ∨ s.m = .bodyDone k o ∨ s.m = .closedSt k o := by
    rcases hk with hk | ⟨o, hk⟩ | ⟨o, hk⟩
    · exact ⟨.ret, Or.inl ((inv.phRun k).1 hk)⟩
    · exact ⟨o, Or.inr (Or.inl ((inv.phDone k o).1 hk))⟩
    · exact ⟨o, Or.inr (Or.inr ((inv.phClosed k o).1 hk))⟩
  obtain ⟨o1, h1⟩ := hmj
  obtain ⟨o2, h2⟩ := hmk
  rcases h1 with h1 | h1 | h1 <;> rcases h2 with h2 | h2 | h2 <;> rw [h1] at h2 <;> cases h2 <;> rfl

/-- **C14 (order).** Bodies begin in submission order: the list of begun execs is strictly increasing in the
submission index, it contains exactly the execs that got past the gate and were begun, no begun exec was refused,
and every submitted exec is either begun, refused with the deadlock text, or still on its way
(on the wire, at the gate, or queued) — nothing is dropped or duplicated. -/
theorem C14_order {c : Config} {s : State} (hc : c.old = false) (h : Reachable c s) :
    s.started.Pairwise (· < ·) ∧
    (∀ k, k ∈ s.started ↔ begun (s.ph k) = true) ∧
    (∀ k, k < s.submitted → k ∈ s.started ∨ s.ph k = .rejected ∨ s.ph k = .sent ∨ s.ph k = .atGate ∨ s.ph k = .queued) ∧
    (∀ a b, a < b → b ∈ s.started → a ∈ s.started ∨ s.ph a = .rejected) := by
  have inv := ginv_reachable hc h
  refine ⟨inv.staSorted, inv.staIff, fun k hk => ?_, fun a b hab hb => ?_⟩
  · have hne : s.ph k ≠ .unsent := fun hu => by have := (inv.phUnsent k).1 hu; omega
    cases hp : s.ph k <;> simp_all [(inv.staIff k), begun]
  · have hbb := (inv.staIff b).1 hb
    have h2 := inv.mono2 a b hab (begun_pastGate hbb)
    have h3 := inv.mono3 a b hab hbb
    have hne : s.ph a ≠ .unsent := fun hu => by
      have h1 := (inv.phUnsent a).1 hu
      have h4 : s.ph b ≠ .unsent := fun hu' => by simp [hu', begun] at hbb
      have : ¬ s.submitted ≤ b := fun hle => h4 ((inv.phUnsent b).2 hle)
      omega
    cases hp : s.ph a <;> simp_all [(inv.staIff a), begun]

/-- **C14 (overlapping submissions are refused, the running body is not disturbed).** While the main thread is
busy with exec `k` (from the begin of its body to `complete.set()`) the receiver cannot pass the gate for a later
exec `j`: `wait()` cannot return True, the only step the receiver has is the expiry of the 1 s wait, and that
step closes channel `j` with the deadlock text and changes nothing else — not the main thread, not the list of
begun bodies, not the phase of any other exec. -/
theorem C14_overlap_rejected {c : Config} {s : State} (hc : c.old = false) (h : Reachable c s) (j : Nat)
    (hr : s.r = .waiting j) (hm : s.m ≠ .idle) :
    step c s .rWake = none ∧ step c s .rTake = none ∧ step c s .rClear = none ∧ step c s .rSpawn = none ∧
    (∀ s', step c s .rTimeout = some s' →
      s'.ph j = .rejected ∧ s'.m = s.m ∧ s'.started = s.started ∧ s'.queue = s.queue ∧ s'.complete = s.complete ∧
      ∀ i, i ≠ j → s'.ph i = s.ph i) := by
  have inv := ginv_reachable hc h
  have hcf := inv.mBusyC hm
  refine ⟨by simp [step, hr, hcf], by simp [step, hr], by simp [step, hr], by simp [step, hr], ?_⟩
  intro s' hs
  simp only [step, hr] at hs
  split at hs
  · cases hs
    refine ⟨by simp [upd], rfl, rfl, rfl, rfl, fun i hi => by simp [upd, hi]⟩
  · cases hs

/-- **C14 (no false deadlock).** Under `Timely` an exec that was submitted after the initiator had seen every
earlier channel closed is never answered with the deadlock error — whatever the outcomes of the earlier bodies
(return, raise, SystemExit, KeyboardInterrupt). Together with `C14_progress` (some thread can always move while
the exec is on its way) this means its body runs. -/
theorem C14_no_false_deadlock {c : Config} {s : State} (hc : c.old = false) (ht : c.timely = true)
    (h : Reachable c s) (k : Nat) (hseq : s.seqOk k = true) :
    s.ph k ≠ .rejected ∧ (∀ j, j < k → s.closeObs j = true ∧ isClosed (s.ph j) = true) := by
  have inv := ginv_reachable hc h
  exact ⟨inv.nfd ht k hseq, fun j hj => ⟨inv.seqC k hseq j hj, inv.obs j (inv.seqC k hseq j hj)⟩⟩

/-- **The gate keeps the receiver thread reading.**  In the code `spawn` of a main_thread_only pool *waits* for the task
that occupies the primary thread (`_try_send_to_primary_thread`: `self._primary_thread_task.waitfinish()`); called by the
receiver thread that would stop all message handling — the worker would not even notice the end of its connection (C11).
Whenever the receiver has passed the gate and is about to spawn, the main thread is idle and nothing is queued, so that wait
is never entered. -/
theorem C14_spawn_never_blocks_receiver {c : Config} {s : State} (hc : c.old = false) (h : Reachable c s) (k : Nat)
    (hr : s.r = .cleared k) : s.m = .idle ∧ s.queue = [] :=
  ((ginv_reachable hc h).rClearedI k hr).2

/-- the ghost flag `seqOk` is what it claims to be: set at submission iff every earlier channel had been
observed closed, and the initiator can observe a channel closed only after the worker closed it -/
theorem C14_seq_flag {c : Config} {s s' : State} :
    (step c s .submit = some s' → (s'.seqOk s.submitted = true ↔ ∀ j, j < s.submitted → s.closeObs j = true)) ∧
    (∀ k, step c s (.observe k) = some s' → isClosed (s.ph k) = true) := by
  constructor
  · intro hs
    simp only [step] at hs
    cases hs
    simp [upd, List.all_eq_true]
  · intro k hs
    simp only [step] at hs
    split at hs
    · assumption
    · cases hs

/-- **C14 (progress).** While some exec is on the wire, at the gate, queued, or its body has ended but the
epilogue (`close`, `complete.set()`) is not finished, a step other than the time-out expiry and other than a
body taking its time is enabled; a queued exec's body can begin at once. -/
theorem C14_progress {c : Config} {s : State} (hc : c.old = false) (h : Reachable c s) (k : Nat)
    (hk : s.ph k = .sent ∨ s.ph k = .atGate ∨ s.ph k = .queued ∨ (∃ o, s.ph k = .bodyDone o) ∨ (∃ o, s.ph k = .closed o)) :
    ∃ a, a ≠ .rTimeout ∧ a ≠ .submit ∧ (∀ j, a ≠ .observe j) ∧ (step c s a).isSome = true := by
  have inv := ginv_reachable hc h
  -- the main thread or the queue can move whenever `complete` is not set and the receiver is not about to spawn
  have busy : s.complete = false → (∀ j, s.r ≠ .cleared j) →
      ∃ a, a ≠ .rTimeout ∧ a ≠ .submit ∧ (∀ j, a ≠ .observe j) ∧ (step c s a).isSome = true := by
    intro hcf hnc
    cases hm : s.m with
    | running q => exact ⟨.mFinish .ret, by simp, by simp, by simp, by simp [step, hm]⟩
    | bodyDone q o => exact ⟨.mClose, by simp, by simp, by simp, by simp [step, hm]⟩
    | closedSt q o => exact ⟨.mSet, by simp, by simp, by simp, by simp only [step, hm]; split <;> simp⟩
    | idle =>
      cases hq : s.queue with
      | nil => obtain ⟨j, hj⟩ := inv.cFalse hcf hm hq; exact absurd hj (hnc j)
      | cons q rest => exact ⟨.mStart, by simp, by simp, by simp, by simp [step, hm, hq]⟩
  have recv : ∃ a, a ≠ .rTimeout ∧ a ≠ .submit ∧ (∀ j, a ≠ .observe j) ∧ (step c s a).isSome = true ∨ s.r = .idle := by
    cases hr : s.r with
    | idle => exact ⟨.rTake, Or.inr rfl⟩
    | woke j => exact ⟨.rClear, Or.inl ⟨by simp, by simp, by simp, by simp [step, hr]⟩⟩
    | cleared j => exact ⟨.rSpawn, Or.inl ⟨by simp, by simp, by simp, by simp [step, hr]⟩⟩
    | waiting j =>
      cases hcp : s.complete with
      | true => exact ⟨.rWake, Or.inl ⟨by simp, by simp, by simp, by simp [step, hr, hcp]⟩⟩
      | false =>
        obtain ⟨a, ha⟩ := busy hcp (by simp [hr])
        exact ⟨a, Or.inl ha⟩
  rcases hk with hk | hk | hk | ⟨o, hk⟩ | ⟨o, hk⟩
  · obtain ⟨a, ha | hidle⟩ := recv
    · exact ⟨a, ha⟩
    · have hmem := (inv.phSent k).1 hk
      cases hq : s.rq with
      | nil => simp [hq] at hmem
      | cons q rest => exact ⟨.rTake, by simp, by simp, by simp, by simp [step, hidle, hq]⟩
  · obtain ⟨a, ha | hidle⟩ := recv
    · exact ⟨a, ha⟩
    · have := (inv.phGate k).1 hk; simp [hidle] at this
  · have hq : s.queue ≠ [] := by
      intro h0; have := (inv.phQ k).1 hk; simp [h0] at this
    have h1 := inv.qC hq
    cases hq' : s.queue with
    | nil => exact absurd hq' hq
    | cons q rest => exact ⟨.mStart, by simp, by simp, by simp, by simp [step, h1.2, hq']⟩
  · exact ⟨.mClose, by simp, by simp, by simp, by simp [step, (inv.phDone k o).1 hk]⟩
  · exact ⟨.mSet, by simp, by simp, by simp, by simp only [step, (inv.phClosed k o).1 hk]; split <;> simp⟩

/-! ### The pinned tree's poisoned gate (documented witness) and non-vacuity -/

def oldGate : Config := { timely := true, old := true }
def newGate : Config := { timely := true, old := false }

/-- exec 0 raises; the initiator sees channel 0 closed and only then submits exec 1 -/
def poisonSchedule : List Action :=
  [.submit, .rTake, .rWake, .rClear, .rSpawn, .mStart, .mFinish .raise, .mClose, .mSet, .observe 0,
   .submit, .rTake, .rTimeout]

/-- **D11, the pinned tree.** With the old `executetask` (event set on the success path only) the schedule above
is executable even under `Timely`: exec 1 was submitted sequentially (`seqOk 1`), the main thread is idle, and
yet exec 1 is refused with the deadlock text — and `complete` stays unset, so every later exec is refused too. -/
theorem C14_pinned_counterexample :
    ∃ s, runSteps oldGate init poisonSchedule = some s ∧ s.seqOk 1 = true ∧ s.ph 1 = .rejected ∧
      s.ph 0 = .finished .raise ∧ s.m = .idle ∧ s.complete = false ∧ s.queue = [] ∧ s.r = .idle :=
  ⟨_, rfl, rfl, rfl, rfl, rfl, rfl, rfl, rfl⟩

/-- the same history under the fixed `executetask`: the time-out step is not even enabled (`complete` is set),
exec 1 passes the gate and its body begins (non-vacuity witness for the theorems above: a reachable state with a
failed exec, a sequentially submitted successor, and both begun in order) -/
theorem C14_fixed_witness :
    runSteps newGate init poisonSchedule = none ∧
    ∃ s, runSteps newGate init (poisonSchedule.take 12 ++ [.rWake, .rClear, .rSpawn, .mStart]) = some s ∧
      s.seqOk 1 = true ∧ s.started = [0, 1] ∧ s.ph 0 = .finished .raise ∧ s.ph 1 = .running :=
  ⟨rfl, _, rfl, rfl, rfl, rfl, rfl⟩

/-- the fixed gate WITHOUT the timing assumption -/
def untimelyGate : Config := { timely := false, old := false }

/-- **`Timely` cannot be dropped (known finding C14-teardown-exceeds-grace).**  The channel of a body is closed before the
main thread has left `executetask` (the body's namespace is torn down, then the `finally` sets `complete`), and the
receiver waits for `complete` for one second only.  If that epilogue takes longer than the second — a finaliser in the
body's namespace that runs for 1.5 s is enough on the real worker — a `remote_exec` issued after the previous channel
closed is refused with the deadlock text although nothing is running: exec 1 is submitted sequentially (`seqOk 1`), the
main thread stands between `close` and `set`, the time-out fires. -/
theorem C14_untimely_counterexample :
    ∃ s, runSteps untimelyGate init
        [.submit, .rTake, .rWake, .rClear, .rSpawn, .mStart, .mFinish .ret, .mClose, .observe 0, .submit, .rTake, .rTimeout]
        = some s ∧ s.seqOk 1 = true ∧ s.ph 1 = .rejected ∧ s.ph 0 = .closed .ret ∧ s.m = .closedSt 0 .ret :=
  ⟨_, rfl, rfl, rfl, rfl, rfl⟩

/-- non-vacuity of `C14_overlap_rejected`: exec 1 submitted while body 0 runs -/
example : ∃ s, runSteps newGate init [.submit, .rTake, .rWake, .rClear, .rSpawn, .mStart, .submit, .rTake] = some s ∧
    s.r = .waiting 1 ∧ s.m = .running 0 ∧ s.seqOk 1 = false ∧ (step newGate s .rTimeout).isSome = true :=
  ⟨_, rfl, rfl, rfl, rfl, rfl⟩

/-! ### which workers are `main_thread_only` workers (`Model/ExecChoice.lean`) -/

/-- where `makegateway` takes the model of a spec that names none (the group's REMOTE default) and what `set_execmodel`
stores, read off `Group.makegateway` / `Group.set_execmodel` by the translator -/
theorem C14_execmodel_source_pinned :
    ExecChoice.codeSrc = .remoteDefault ∧
    Generated.setExecmodelSteps = [(0, "if self._gateways"), (1, "raise ValueError"), (0, "if remote_execmodel is None"),
      (1, "remote_execmodel = execmodel"), (0, "self._execmodel = get_execmodel(execmodel)"),
      (0, "self._remote_execmodel = get_execmodel(remote_execmodel)")] := by
  decide

/-- **C14 (who is a main_thread_only worker).** For every configuration `set_execmodel(e, r)` and every spec: the worker runs
with the model the spec names; a spec that names none gets `r`, and `e` when `r` was not given.  In particular the local model
never decides when a remote model was given. -/
theorem C14_worker_model (e : ExecChoice.Backend) (r spec : Option ExecChoice.Backend) :
    ExecChoice.workerModel ExecChoice.codeSrc (ExecChoice.setExecmodel e r) spec =
      some (match spec, r with
            | some b, _ => b
            | none, some b => b
            | none, none => e) := by
  rw [C14_execmodel_source_pinned.1]
  cases spec <;> cases r <;> rfl

/-- a group configured with `set_execmodel(local, "main_thread_only")` starts `main_thread_only` workers for every spec that
does not ask for something else, whatever the local model is — these are the workers `C14_main_thread` … speak about -/
theorem C14_configured_by_group (e : ExecChoice.Backend) :
    ExecChoice.workerModel ExecChoice.codeSrc (ExecChoice.setExecmodel e (some .mainThreadOnly)) none = some .mainThreadOnly := by
  rw [C14_execmodel_source_pinned.1]; rfl

/-- taking the default from the LOCAL model instead (seeded change C14-8): `set_execmodel("thread", "main_thread_only")`
silently starts a `thread` worker -/
theorem C14_local_default_counterexample :
    ExecChoice.workerModel .localDefault (ExecChoice.setExecmodel .thread (some .mainThreadOnly)) none = some .thread := by
  decide

end ExecnetVerif
