"""Correspondence of the finer receive model (Model/NetFine.lean) with the real `Channel.receive`.

`receive()` = `x = itemqueue.get()` … `itemqueue.put(x)` (for the ENDMARKER) … raise: two steps with no lock in between
(`Generated.criticalSections`: "Channel.receive get -", "putback -").  The op programs of netexec get two more operations:

  rget S id   a receiver thread calls ch.receive() and is let run until it has returned (item / block / OSError) or stands
              right before the put-back of the ENDMARKER (-> "ok": the ENDMARKER is in its hand)
  rfin S id   the oldest receiver holding the ENDMARKER of (S,id) goes on: puts it back and raises (EOFError / RemoteError)

The channel's queue object is wrapped (GatedQueue) so that the put-back of a fine receiver waits for its `rfin`; every
other use of the queue passes through.  The same program goes to `fine.run` of the Lean driver (fstep/frun); outputs and
final state digest are compared.  Operations that violate `respectsHands` (setcallback / drop of a channel whose
ENDMARKER is in a hand) are generated as well: the fine model claims to describe the code there too (D22).
"""
from __future__ import annotations

from . import common, netprops
from . import sched as S


class GatedQueue:
    """delegates to the channel's real queue; the put-back of the ENDMARKER by a fine receiver waits for its `rfin`"""

    def __init__(self, real, prog, endmarker):
        self._real = real
        self._prog = prog
        self._end = endmarker

    def get(self, *a, **kw):
        return self._real.get(*a, **kw)

    def put(self, x, *a, **kw):
        rec = self._prog.fine_current()
        if x is self._end and rec is not None and not rec.get("released"):
            rec["hand"] = True
            self._prog.sc.block_until(lambda: rec.get("go"), None, "fine-putback")
            rec["released"] = True
        return self._real.put(x, *a, **kw)

    def __getattr__(self, name):
        return getattr(self._real, name)


class FineProgram(netprops.Program):
    def run_random(self):
        self.fine_recs = {}     # logical thread -> record of a fine receiver
        self.hands = {}         # (side, id) -> [records holding the ENDMARKER, oldest first]
        self.nfine = 0
        return super().run_random()

    def fine_current(self):
        cur = self.sc.current
        return self.fine_recs.get(id(cur)) if cur is not None else None

    def do1(self, op):
        t = op.split()
        if t[0] == "rget":
            return self.do_rget(t[1], int(t[2]))
        if t[0] == "rfin":
            return self.do_rfin(t[1], int(t[2]))
        return super().do1(op)

    def do_rget(self, side, cid):
        ch = self.get_handle(side, cid)
        if ch is None:
            return "noten"
        gb = self.execnet.gateway_base
        q = ch._items
        if q is not None and not isinstance(q, GatedQueue):
            ch._items = GatedQueue(q, self, gb.ENDMARKER)
        rec = {"side": side, "cid": cid}
        prog = self
        holder = [ch]   # the thread takes the reference over and gives it up when receive() has returned

        def body():
            prog.fine_recs[id(prog.sc.current)] = rec
            c = holder.pop()
            try:
                item = c.receive(timeout=0.01)
                rec["out"] = "item " + prog.render_item(side, item)
                del item
            except BaseException as e:  # noqa: BLE001
                if isinstance(e, S.SchedAbort):
                    raise
                rec["out"] = prog.exc_out(e)
            finally:
                del c
                rec["done"] = True

        self.nfine += 1
        self.sc.spawn(body, name="fine%d" % self.nfine)
        del ch
        self.sc.block_until(lambda: rec.get("done") or rec.get("hand"), 30.0, "rget")
        if rec.get("done"):
            return rec["out"]
        if rec.get("hand"):
            self.hands.setdefault((side, cid), []).append(rec)
            return "ok"
        return "stuck"

    def do_rfin(self, side, cid):
        lst = self.hands.get((side, cid))
        if not lst:
            return "noten"
        rec = lst.pop(0)
        rec["go"] = True
        self.sc.block_until(lambda: rec.get("done"), 30.0, "rfin")
        return rec.get("out", "stuck")

    def nonempty(self, side):
        out = []
        for cid in self.handles(side):
            ch = self.get_handle(side, cid)
            q = getattr(ch, "_items", None)
            if q is not None and len(getattr(q, "items", ())) > 0:
                out.append(cid)
            del ch
        return out

    def next_ops(self):
        r = self.rng
        c = r.random()
        open_ = sorted(k for k, v in self.hands.items() if v)
        open_ = [k for k in open_ if self.get_handle(*k) is not None]
        if open_ and c < 0.45:
            # something aimed at a channel whose ENDMARKER is in a hand right now
            side, cid = r.choice(open_)
            peer = "B" if side == "A" else "A"
            pick = r.random()
            if pick < 0.25:
                return ["rget %s %d" % (side, cid)]
            if pick < 0.40:
                return ["recv %s %d" % (side, cid)]
            if pick < 0.55:
                return ["setcb %s %d %d" % (side, cid, r.randint(0, 1))]
            if pick < 0.65:
                return ["deliver " + side]
            if pick < 0.72:
                return ["wait %s %d" % (side, cid)]
            if pick < 0.80:
                return ["isclosed %s %d" % (side, cid)]
            if pick < 0.86 and self.get_handle(peer, cid) is not None:
                return ["send %s %d %d" % (peer, cid, self.newval())]
            return ["rfin %s %d" % (side, cid)]
        if c < 0.22:
            side = r.choice("AB")
            ids = self.nonempty(side) if r.random() < 0.75 else self.handles(side)
            if ids:
                return ["rget %s %d" % (side, r.choice(ids))]
        elif c < 0.30:
            if open_ and r.random() < 0.85:
                k = r.choice(sorted(open_))
                return ["rfin %s %d" % k]
            side = r.choice("AB")
            ids = self.handles(side)
            if ids:
                return ["rfin %s %d" % (side, r.choice(ids))]
        ops = super().next_ops()
        # a body whose channel's ENDMARKER is in a hand is not finished through the op interface (its receiver thread
        # references the channel object: the model's `execFinish` drops the worker-side handle)
        return ops

    def check_alias(self):
        super().check_alias()
        # an id re-created (by a transferred channel) while a receiver of the OLD object holds its ENDMARKER: the model
        # identifies objects by id (`respectsHands`, deliver clause) — such a program is not compared
        for (side, cid), recs in self.hands.items():
            if recs and self.get_handle(side, cid) is None:
                self.tainted = True

    def can_drop(self, side, cid):
        # a receiver standing in receive() references the channel object: it is not the last reference
        if self.hands.get((side, cid)):
            return False
        return super().can_drop(side, cid)

    def make_digest(self):
        # every receiver still holding an ENDMARKER goes on now, so that the raw state is compared
        for key in sorted(k for k, v in self.hands.items() if v):
            while self.hands[key]:
                op = "rfin %s %d" % key
                self.ops.append(op)
                self.outs.append(self.do(op))
        return super().make_digest()


def fine_level(ctx, res, prop, nprog):
    execnet = ctx.execnet

    def worker(indices):
        r = common.Result()
        runs = []
        for i in indices:
            prng = common.rng_for(ctx.seed, f"{prop}:fine:{i}")
            rp = FineProgram(execnet, prng, nops=prng.choice([8, 15, 30, 45]), profile={"cut": prng.random() < 0.5})
            ops, outs, dig = rp.run_random()
            r.count(("fine",) + tuple(ops), nontrivial=any(o.startswith("rget") for o in ops))
            for op, out in zip(ops, outs):
                if op.startswith(("rget", "rfin")):
                    r.stat("fine_%s_%s" % (op.split()[0], out.split()[0]))
            if rp.error:
                r.violations.append(dict(case={"ops": " ; ".join(ops)}, what="real gateway pair failed under the fine op program: " + rp.error))
                continue
            if getattr(rp, "tainted", False):
                r.stat("fine_excluded_id_recreated_in_hand")
                continue
            runs.append((i, ops, outs, dig))
        return r, runs

    runs = []
    for part, rr in common.fork_map(nprog, worker):
        common.merge_results(res, part)
        runs += rr
    runs.sort(key=lambda t: t[0])
    model = ctx.driver.ask(["fine.run " + " ; ".join(ops) for _i, ops, _o, _d in runs])
    for (_i, ops, outs, dig), m in zip(runs, model):
        impl = " ; ".join(outs) + " | " + (dig or "?") + " | hands=0"
        if impl != m:
            mo = m.split(" | ")[0].split(" ; ")
            first = next((i for i, (a, b) in enumerate(zip(outs, mo)) if a != b), None)
            res.mismatches.append(dict(op="fine.run", ops=" ; ".join(ops)[:1500], first_diff=first, impl=impl[-600:], model=m[-600:]))
        else:
            res.traces += 1
