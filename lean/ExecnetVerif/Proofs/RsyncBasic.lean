/-
Helper definitions and lemmas for C17: association-list facts, path updates, the structural
"skeleton" of a synced tree with pluggable leaves, and the generic pass lemma (a list of
leaf-updates collected in source pre-order, applied by path, acts leaf-wise on the skeleton).
-/
import ExecnetVerif.Model.Rsync
namespace ExecnetVerif.Rsync
open ExecnetVerif.Path

/-! ### association lists -/

theorem lookup_of_not_mem {n : Name} : ∀ {es : Entries}, n ∉ names es → lookup n es = .absent
  | [], _ => rfl
  | (m, t) :: r, h => by
    simp only [names, List.map_cons, List.mem_cons, not_or] at h
    have hne : m ≠ n := fun e => h.1 e.symm
    simp only [lookup, hne, if_false]
    exact lookup_of_not_mem (by simpa [names] using h.2)

theorem lookup_of_mem_nodup {n : Name} {s : Tree} : ∀ {es : Entries}, (names es).Nodup → (n, s) ∈ es →
    lookup n es = s
  | [], _, h => by simp at h
  | (m, t) :: r, hnd, h => by
    simp only [names, List.map_cons, List.nodup_cons] at hnd
    simp only [List.mem_cons, Prod.mk.injEq] at h
    cases h with
    | inl h => obtain ⟨rfl, rfl⟩ := h; simp [lookup]
    | inr h =>
      have hmem : n ∈ r.map Prod.fst := List.mem_map.mpr ⟨(n, s), h, rfl⟩
      have hne : m ≠ n := fun e => hnd.1 (e ▸ hmem)
      simp only [lookup, hne, if_false]
      exact lookup_of_mem_nodup hnd.2 h

theorem lookup_append_left {n : Name} : ∀ {a b : Entries}, n ∈ names a → lookup n (a ++ b) = lookup n a
  | [], _, h => by simp [names] at h
  | (m, t) :: r, b, h => by
    by_cases hm : m = n
    · simp [lookup, hm]
    · simp only [names, List.map_cons, List.mem_cons] at h
      have h' : n ∈ names r := by
        cases h with
        | inl h => exact absurd h.symm hm
        | inr h => exact h
      simp only [List.cons_append, lookup, hm, if_false]
      exact lookup_append_left h'

theorem lookup_append_right {n : Name} : ∀ {a b : Entries}, n ∉ names a → lookup n (a ++ b) = lookup n b
  | [], _, _ => rfl
  | (m, t) :: r, b, h => by
    simp only [names, List.map_cons, List.mem_cons, not_or] at h
    have hne : m ≠ n := fun e => h.1 e.symm
    simp only [List.cons_append, lookup, hne, if_false]
    exact lookup_append_right (by simpa [names] using h.2)

/-- the prior entries a directory message does not list (kept without `delete`) -/
def others (delete : Bool) (ns : List Name) (tes : Entries) : Entries :=
  if delete then [] else tes.filter (fun e => decide (e.1 ∉ ns))

theorem lookup_filter_notin {n : Name} {ns : List Name} (h : n ∉ ns) : ∀ (tes : Entries),
    lookup n (tes.filter (fun e => decide (e.1 ∉ ns))) = lookup n tes
  | [] => rfl
  | (m, t) :: r => by
    have ih := lookup_filter_notin h r
    by_cases hm : m = n
    · subst hm; simp [List.filter, h, lookup]
    · by_cases hin : m ∈ ns
      · simp only [List.filter, hin, not_true_eq_false, decide_false, lookup, hm, if_false]; exact ih
      · simp only [List.filter, hin, not_false_eq_true, decide_true, lookup, hm, if_false]; exact ih

theorem names_filter_notin {ns : List Name} (tes : Entries) :
    ∀ n ∈ names (tes.filter (fun e => decide (e.1 ∉ ns))), n ∉ ns := by
  intro n hn
  simp only [names, List.mem_map, List.mem_filter, decide_eq_true_eq] at hn
  obtain ⟨e, ⟨_, he⟩, rfl⟩ := hn
  exact he

/-! ### path updates -/

theorem updEntry_skip {n : Name} {g : Tree → Tree} {t : Tree} {R : Entries} : ∀ {P : Entries}, n ∉ names P →
    updEntry n g (P ++ (n, t) :: R) = P ++ (n, g t) :: R
  | [], _ => by simp [updEntry]
  | (m, x) :: P, h => by
    simp only [names, List.map_cons, List.mem_cons, not_or] at h
    have hne : m ≠ n := fun e => h.1 e.symm
    simp only [List.cons_append, updEntry, hne, if_false]
    rw [updEntry_skip (by simpa [names] using h.2)]

/-- a leaf update: where (relative path) and what -/
abbrev Up := List Name × (Tree → Tree)

def Up.pre (n : Name) (u : Up) : Up := (n :: u.1, u.2)

/-- apply updates in order -/
def run (us : List Up) (t : Tree) : Tree := us.foldl (fun t u => updPath u.1 u.2 t) t

@[simp] theorem run_nil (t : Tree) : run [] t = t := rfl

theorem run_cons (u : Up) (us : List Up) (t : Tree) : run (u :: us) t = run us (updPath u.1 u.2 t) := rfl

theorem run_append (a b : List Up) (t : Tree) : run (a ++ b) t = run b (run a t) := by
  simp [run, List.foldl_append]

theorem run_pre {n : Name} {m : Nat} {P R : Entries} (hn : n ∉ names P) : ∀ (us : List Up) (t : Tree),
    run (us.map (Up.pre n)) (.dir m (P ++ (n, t) :: R)) = .dir m (P ++ (n, run us t) :: R)
  | [], t => rfl
  | u :: us, t => by
    simp only [List.map_cons, run_cons, Up.pre, updPath]
    rw [updEntry_skip hn, run_pre hn us]

/-! ### pre-order collection over source × target, skeleton -/

mutual
/-- collect per-leaf items in source pre-order, prefixing the entry name on the way up -/
def collect {α : Type} (pre : Name → α → α) (leaf : Tree → Tree → List α) : Tree → Tree → List α
  | .dir _ es, tgt => collectL pre leaf es (entriesOf tgt)
  | .file b m t, tgt => leaf (.file b m t) tgt
  | .link tg, tgt => leaf (.link tg) tgt
  | .absent, tgt => leaf .absent tgt
def collectL {α : Type} (pre : Name → α → α) (leaf : Tree → Tree → List α) : List (Name × Tree) → Entries → List α
  | [], _ => []
  | (n, s) :: r, tes => (collect pre leaf s (lookup n tes)).map (pre n) ++ collectL pre leaf r tes
end

mutual
/-- the synced tree with the leaves (files, links) given by `lf src-leaf prior-entry` -/
def skel (lf : Tree → Tree → Tree) (del : Bool) : Tree → Tree → Tree
  | .dir m es, tgt => .dir (m ||| 0o700)
      (skelL lf del es (entriesOf tgt) ++ others del (es.map Prod.fst) (entriesOf tgt))
  | .file b m t, tgt => lf (.file b m t) tgt
  | .link tg, tgt => lf (.link tg) tgt
  | .absent, tgt => lf .absent tgt
def skelL (lf : Tree → Tree → Tree) (del : Bool) : List (Name × Tree) → Entries → Entries
  | [], _ => []
  | (n, s) :: r, tes => (n, skel lf del s (lookup n tes)) :: skelL lf del r tes
end

theorem names_skelL (lf : Tree → Tree → Tree) (del : Bool) (tes : Entries) : ∀ (es : List (Name × Tree)),
    names (skelL lf del es tes) = es.map Prod.fst
  | [] => rfl
  | (n, s) :: r => by simp [skelL, names, ← names_skelL lf del tes r]

theorem wfTreeL_mem : ∀ {es : List (Name × Tree)}, wfTreeL es → ∀ e ∈ es, wfTree e.2
  | [], _, e, h => by simp at h
  | (n, t) :: r, hw, e, h => by
    simp only [wfTreeL] at hw
    simp only [List.mem_cons] at h
    cases h with
    | inl h => subst h; exact hw.1
    | inr h => exact wfTreeL_mem hw.2 e h

/-- list step of the pass lemma -/
theorem pass_list (lu : Tree → Tree → List Up) (lfA : Tree → Tree → Tree) (del : Bool) (m : Nat) (tes O : Entries) :
    ∀ (r : List (Name × Tree)) (P : Entries), (r.map Prod.fst).Nodup → (∀ n ∈ r.map Prod.fst, n ∉ names P) →
    (∀ e ∈ r, ∀ tgt, run (collect Up.pre lu e.2 tgt) (skel lfA del e.2 tgt) =
        skel (fun s t => run (lu s t) (lfA s t)) del e.2 tgt) →
    run (collectL Up.pre lu r tes) (.dir m (P ++ skelL lfA del r tes ++ O)) =
      .dir m (P ++ skelL (fun s t => run (lu s t) (lfA s t)) del r tes ++ O)
  | [], P, _, _, _ => by simp [collectL, skelL]
  | (n, s) :: r, P, hnd, hP, ih => by
    simp only [List.map_cons, List.nodup_cons] at hnd
    have hnP : n ∉ names P := hP n (by simp)
    simp only [collectL, skelL, run_append, List.append_assoc, List.cons_append]
    rw [run_pre hnP, ih (n, s) (by simp)]
    have := pass_list lu lfA del m tes O r (P ++ [(n, skel (fun s t => run (lu s t) (lfA s t)) del s (lookup n tes))])
      hnd.2
      (by
        intro k hk
        simp only [names, List.map_append, List.map_cons, List.map_nil, List.mem_append, List.mem_singleton, not_or]
        refine ⟨hP k (by simp [hk]), ?_⟩
        intro e; subst e; exact hnd.1 hk)
      (fun e he => ih e (by simp [he]))
    simpa [List.append_assoc] using this

/-- **pass lemma**: updates collected leaf-wise over the source, applied by path to a skeleton, give the
skeleton whose leaves have been updated -/
theorem pass (lu : Tree → Tree → List Up) (lfA : Tree → Tree → Tree) (del : Bool) (src : Tree) :
    wfTree src → ∀ tgt, run (collect Up.pre lu src tgt) (skel lfA del src tgt) =
      skel (fun s t => run (lu s t) (lfA s t)) del src tgt := by
  refine Tree.rec
    (motive_1 := fun src => wfTree src → ∀ tgt, run (collect Up.pre lu src tgt) (skel lfA del src tgt) =
      skel (fun s t => run (lu s t) (lfA s t)) del src tgt)
    (motive_2 := fun es => ∀ e ∈ es, wfTree e.2 → ∀ tgt, run (collect Up.pre lu e.2 tgt) (skel lfA del e.2 tgt) =
      skel (fun s t => run (lu s t) (lfA s t)) del e.2 tgt)
    (motive_3 := fun e => wfTree e.2 → ∀ tgt, run (collect Up.pre lu e.2 tgt) (skel lfA del e.2 tgt) =
      skel (fun s t => run (lu s t) (lfA s t)) del e.2 tgt)
    ?_ ?_ ?_ ?_ ?_ ?_ ?_ src
  · intro b m t _ tgt; simp [collect, skel]
  · intro m es ih hw tgt
    simp only [wfTree] at hw
    simp only [collect, skel]
    have := pass_list lu lfA del (m ||| 0o700) (entriesOf tgt) (others del (es.map Prod.fst) (entriesOf tgt)) es []
      hw.1 (by simp [names]) (fun e he tgt => ih e he (wfTreeL_mem hw.2 e he) tgt)
    simpa using this
  · intro tg _ tgt; simp [collect, skel]
  · intro hw; simp [wfTree] at hw
  · intro e he; simp at he
  · intro head tail ihh iht e he
    simp only [List.mem_cons] at he
    cases he with
    | inl h => subst h; exact ihh
    | inr h => exact iht e h
  · intro n t ih; exact ih

end ExecnetVerif.Rsync
