/-
Frame locality ("isolation"): handling a frame only touches the channel the frame is about and the
channels carried inside a DATA item; while the connection is up, nothing that happens on one channel
(a failing callback, a remote error) brings it down.  C07 (isolation), C18 (channels travel inside items).

The one exception (as in the code): a callback that fails when the IO has already been closed cannot
write its CLOSE_ERROR; the OSError escapes the handler and ends the receiver thread
(`C07_failing_callback_io_closed`).  Hence the hypotheses `x.ioOpen = true` below.
-/
import ExecnetVerif.Proofs.Net.ClosePlumbing
namespace ExecnetVerif.Net
open CP

/-- the channel id a frame is about -/
def Frame.target : Frame → Option Nat
  | .data id _ => some id
  | .close id => some id
  | .closeErr id _ => some id
  | .lastMsg id => some id
  | .exec id => some id
  | .terminate => none

/-- the channel ids carried inside a DATA item -/
def Frame.carried : Frame → List Nat
  | .data _ v => v.chans
  | _ => []

/-- C07: while the IO is open, handling a frame for channel `id` leaves every other channel (that is not
carried inside the item) exactly as it was -/
theorem C07_isolation (fails : Item → Bool) (x : SideSt) (w : Bool) (f : Frame) (id : Nat) :
    x.ioOpen = true → f.target = some id → ∀ j, j ≠ id → j ∉ f.carried →
      (handle fails x w f).chans j = x.chans j ∧ (handle fails x w f).cbs j = x.cbs j ∧
      (handle fails x w f).cbLog j = x.cbLog j ∧ (handle fails x w f).got j = x.got j ∧
      (handle fails x w f).kept j = x.kept j := by
  intro hio ht j hj hc
  cases f with
  | data i v =>
    simp only [Frame.target, Option.some.injEq] at ht; subst ht
    simp only [Frame.carried] at hc
    apply handle_data_cases fails x w i v
      (fun y => y.chans j = x.chans j ∧ y.cbs j = x.cbs j ∧ y.cbLog j = x.cbLog j ∧ y.got j = x.got j ∧
        y.kept j = x.kept j)
    · intro w' _ _ _
      refine ⟨?_, ?_, ?_, ?_, ?_⟩
      · rw [localClose_chans_ne _ _ _ _ hj, failOut_chans, cbAccept_chans,
          registerAll_chans_not_mem _ _ hc]; rfl
      · rw [localClose_cbs_ne _ _ _ _ hj]; simp
      · rw [localClose_cbLog_ne _ _ _ _ hj]; simp [cbAccept, upd_ne, hj, dataPre]
      · simp [cbAccept, upd_ne, hj, dataPre]
      · simp [cbAccept, upd_ne, hj, dataPre]
    · intro w' _ _ hio'
      rw [hio] at hio'; cases hio'
    · intro w' _ _
      refine ⟨?_, ?_, ?_, ?_, ?_⟩
      · rw [cbAccept_chans, registerAll_chans_not_mem _ _ hc]; rfl
      · simp
      · simp [cbAccept, upd_ne, hj, dataPre]
      · simp [cbAccept, upd_ne, hj, dataPre]
      · simp [cbAccept, upd_ne, hj, dataPre]
    · intro q _ _ _
      refine ⟨?_, ?_, ?_, ?_, ?_⟩
      · rw [qAccept_chans_ne _ _ _ hj, registerAll_chans_not_mem _ _ hc]; rfl
      · simp
      · simp
      · simp
      · simp [qAccept, upd_ne, hj, dataPre]
    · intro _ _
      exact ⟨rfl, rfl, rfl, rfl, rfl⟩
  | close i =>
    simp only [Frame.target, Option.some.injEq] at ht; subst ht
    simp only [handle]
    refine ⟨?_, ?_, ?_, ?_, ?_⟩
    · rw [localClose_chans_ne _ _ _ _ hj]
    · rw [localClose_cbs_ne _ _ _ _ hj]
    · rw [localClose_cbLog_ne _ _ _ _ hj]
    · simp
    · simp
  | closeErr i e =>
    simp only [Frame.target, Option.some.injEq] at ht; subst ht
    simp only [handle]
    refine ⟨?_, ?_, ?_, ?_, ?_⟩
    · rw [localClose_chans_ne _ _ _ _ hj]
    · rw [localClose_cbs_ne _ _ _ _ hj]
    · rw [localClose_cbLog_ne _ _ _ _ hj]
    · simp
    · simp
  | lastMsg i =>
    simp only [Frame.target, Option.some.injEq] at ht; subst ht
    simp only [handle]
    refine ⟨?_, ?_, ?_, ?_, ?_⟩
    · rw [localClose_chans_ne _ _ _ _ hj]
    · rw [localClose_cbs_ne _ _ _ _ hj]
    · rw [localClose_cbLog_ne _ _ _ _ hj]
    · simp
    · simp
  | exec i =>
    simp only [Frame.target, Option.some.injEq] at ht; subst ht
    simp only [handle]
    split
    · refine ⟨?_, rfl, rfl, rfl, rfl⟩
      simp [upd_ne, hj, createAt_chans_ne]
    · exact ⟨rfl, rfl, rfl, rfl, rfl⟩
  | terminate => simp [Frame.target] at ht

/-- C07: while the IO is open, no frame except GATEWAY_TERMINATE changes the state of the connection -/
theorem C07_connection_stays (fails : Item → Bool) (x : SideSt) (w : Bool) (f : Frame) :
    f ≠ .terminate → x.ioOpen = true →
      (handle fails x w f).finished = x.finished ∧ (handle fails x w f).ioOpen = x.ioOpen ∧
      (handle fails x w f).gwerr = x.gwerr :=
  fun hf hio =>
    have he := endsReceiver_false_of_ioOpen fails x hf hio
    ⟨handle_finished fails x w f he, handle_ioOpen fails x w f he, handle_gwerr fails x w f⟩

/-- the one exception: a callback that fails after the IO was closed cannot write its CLOSE_ERROR; the
receiver thread ends (without a remembered connection error) and nothing is written -/
theorem C07_failing_callback_io_closed (fails : Item → Bool) (x : SideSt) (wk : Bool) (id : Nat) (v : Item)
    (w : Bool) : x.cbs id = some w → fails v = true → x.ioOpen = false →
      (handle fails x wk (.data id v)).finished = true ∧
      (handle fails x wk (.data id v)).out = x.out ∧
      (handle fails x wk (.data id v)).gwerr = x.gwerr := by
  intro hcb hf hio
  rw [handle_data_cb fails x wk v hcb]
  simp [hf, hio]

/-- C07: a failing callback closes its own channel with a CLOSE_ERROR to the peer — nothing else -/
theorem C07_failing_callback (fails : Item → Bool) (x : SideSt) (wk : Bool) (id : Nat) (v : Item) (w : Bool) :
    x.cbs id = some w → fails v = true → x.ioOpen = true →
      (handle fails x wk (.data id v)).out = x.out ++ [.closeErr id v.val] ∧
      (handle fails x wk (.data id v)).cbs id = none ∧
      ((handle fails x wk (.data id v)).chans id).registered = false ∧
      ((x.chans id).registered = true →
        ((handle fails x wk (.data id v)).chans id).closed = true ∧
        ((handle fails x wk (.data id v)).chans id).rclosed = true ∧
        ((handle fails x wk (.data id v)).chans id).rerrs = (x.chans id).rerrs ++ [v.val]) := by
  intro hcb hf hio
  rw [handle_data_cb fails x wk v hcb]
  simp only [hf, hio, if_true]
  refine ⟨?_, ?_, ?_, ?_⟩
  · simp [failOut_out]
  · simp
  · rw [localClose_chans_same]; split <;> rfl
  · intro hr
    have h1 : (failOut (cbAccept x id v) id v.val).chans id = x.chans id := by
      rw [failOut_chans, cbAccept_chans]
      exact registerAll_chans_registered (dataPre x id v) v.chans hr
    rw [localClose_chans_same, h1]
    simp [hr]

/-! ### C18: channels travel inside items -/

/-- after `registerAll x ids` every carried id has a live, registered channel object -/
theorem registerAll_registered (x : SideSt) (ids : List Nat)
    (hx : ∀ j, (x.chans j).registered = true → (x.chans j).created = true ∧ (x.chans j).alive = true) :
    (∀ j, ((registerAll x ids).chans j).registered = true →
      ((registerAll x ids).chans j).created = true ∧ ((registerAll x ids).chans j).alive = true) ∧
    ∀ c ∈ ids, ((registerAll x ids).chans c).created = true ∧ ((registerAll x ids).chans c).alive = true ∧
      ((registerAll x ids).chans c).registered = true := by
  induction ids generalizing x with
  | nil => exact ⟨hx, fun c hc => by simp at hc⟩
  | cons i t ih =>
    have hx' : ∀ j, ((createAt x i).chans j).registered = true →
        ((createAt x i).chans j).created = true ∧ ((createAt x i).chans j).alive = true := by
      intro j
      by_cases hj : j = i
      · subst hj
        simp only [createAt_chans, upd_same, createChan]
        split
        · exact hx j
        · intro _; exact ⟨rfl, rfl⟩
      · rw [createAt_chans_ne x i hj]; exact hx j
    have hi : ((createAt x i).chans i).registered = true := by
      simp only [createAt_chans, upd_same, createChan]
      split
      · assumption
      · rfl
    obtain ⟨ih1, ih2⟩ := ih (createAt x i) hx'
    refine ⟨ih1, fun c hc => ?_⟩
    rw [registerAll_cons]
    rcases List.mem_cons.1 hc with rfl | hc
    · have hreg : ((registerAll (createAt x c) t).chans c).registered = true := by
        rw [registerAll_chans_registered _ _ hi]; exact hi
      exact ⟨(ih1 c hreg).1, (ih1 c hreg).2, hreg⟩
    · exact ih2 c hc

/-- C18: when a DATA frame is accepted (by a callback, or into the queue of the registered channel
object), every channel id carried inside the item has a live, registered channel object afterwards —
except that the carrying channel itself, if it travels inside its own item, is closed again when the
callback fails.  `hio`: the callback does not fail after the IO was closed (that ends the receiver thread,
whose epilogue unregisters every channel object; `x.ioOpen = true` suffices) -/
theorem C18_travel (fails : Item → Bool) (x : SideSt) (wk : Bool) (id : Nat) (v : Item)
    (hx : ∀ j, (x.chans j).registered = true → (x.chans j).created = true ∧ (x.chans j).alive = true)
    (hacc : x.cbs id ≠ none ∨ ((x.chans id).registered = true ∧ (x.chans id).queue ≠ none))
    (hio : x.cbs id ≠ none → fails v = true → x.ioOpen = true) :
    ∀ c ∈ v.chans,
      ((handle fails x wk (.data id v)).chans c).created = true ∧
      ((handle fails x wk (.data id v)).chans c).alive = true ∧
      (((handle fails x wk (.data id v)).chans c).registered = true ∨
        (c = id ∧ x.cbs id ≠ none ∧ fails v = true ∧
          ((handle fails x wk (.data id v)).chans c).closed = true)) := by
  intro c hc
  have hreg := (registerAll_registered (dataPre x id v) v.chans hx).2 c hc
  apply handle_data_cases fails x wk id v
    (fun y => (y.chans c).created = true ∧ (y.chans c).alive = true ∧
      ((y.chans c).registered = true ∨ (c = id ∧ x.cbs id ≠ none ∧ fails v = true ∧ (y.chans c).closed = true)))
  · intro w' hcb hf _
    by_cases hci : c = id
    · subst hci
      have h1 : (failOut (cbAccept x c v) c v.val).chans c = (registerAll (dataPre x c v) v.chans).chans c := by
        rw [failOut_chans, cbAccept_chans]
      rw [localClose_chans_same, h1]
      simp [hreg.2.2, hreg.1, hreg.2.1, hcb, hf]
    · rw [localClose_chans_ne _ _ _ _ hci, failOut_chans, cbAccept_chans]
      exact ⟨hreg.1, hreg.2.1, Or.inl hreg.2.2⟩
  · intro w' hcb hf hio'
    rw [hio (by simp [hcb]) hf] at hio'; cases hio'
  · intro w' _ _
    rw [cbAccept_chans]
    exact ⟨hreg.1, hreg.2.1, Or.inl hreg.2.2⟩
  · intro q _ _ _
    by_cases hci : c = id
    · subst hci
      simp only [qAccept, upd_same]
      exact ⟨hreg.1, hreg.2.1, Or.inl hreg.2.2⟩
    · rw [qAccept_chans_ne _ _ _ hci]
      exact ⟨hreg.1, hreg.2.1, Or.inl hreg.2.2⟩
  · intro hcb hn
    rcases hacc with h | ⟨hr, hq⟩
    · exact absurd hcb h
    · cases hqq : (x.chans id).queue with
      | none => exact absurd hqq hq
      | some q => exact absurd ⟨hr, q, hqq⟩ hn

end ExecnetVerif.Net
