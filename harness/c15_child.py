"""C15 cross-check child: run with `python -S -E` (stdlib only, nothing of execnet importable).

stdin: one JSON job  {"stdlib": [...], "sequences": [{"name", "inMain", "injected": [...], "channel": bool,
                      "units": [{"name", "text", "pruned", "future", "run": bool, "call": str|None}]}]}
stdout: one JSON result: per unit the imports its own code issued (recorded by an import hook that refuses
everything outside the standard library), how execution ended, the names its namespace holds afterwards,
and — independently of any `ast` walking — what the *compiler* says: IMPORT_NAME instructions of every
nested code object and the global names the bytecode reads.
"""
import builtins
import dis
import json
import sys
import types


class StubStop(BaseException):
    pass


class Stub:
    """stands for `channel`, `clientsock`, …: anything done with it ends the run of the unit"""

    def __init__(self, what):
        object.__setattr__(self, "_what", what)
        object.__setattr__(self, "sent", [])

    def send(self, item):
        self.sent.append(repr(item)[:80])

    def __getattr__(self, name):
        raise StubStop("%s.%s" % (self._what, name))


def code_objects(co, qual=""):
    yield co
    for c in co.co_consts:
        if isinstance(c, types.CodeType):
            yield from code_objects(c)


def compiler_view(text, future):
    """(imports, global reads) of the compiled text, from bytecode only"""
    flags = 0
    if future:
        import __future__

        flags = __future__.annotations.compiler_flag
    co = compile(text, "<scan>", "exec", flags=flags, dont_inherit=True)
    imports = []
    reads = set()
    module_stores = set()
    for c in code_objects(co):
        is_module = c is co
        is_func = bool(c.co_flags & 0x2) and not is_module  # CO_NEWLOCALS: function-like scopes
        local_stores = set()
        pending = []
        ins = list(dis.get_instructions(c))
        for k, i in enumerate(ins):
            if i.opname == "IMPORT_NAME":
                fromlist = ins[k - 1].argval if k and ins[k - 1].opname == "LOAD_CONST" else None
                level = ins[k - 2].argval if k > 1 and ins[k - 2].opname == "LOAD_CONST" else 0
                imports.append([("." * (level or 0)) + i.argval, sorted(fromlist) if fromlist else [], c.co_qualname if hasattr(c, "co_qualname") else c.co_name])
            elif i.opname in ("STORE_NAME", "DELETE_NAME"):
                local_stores.add(i.argval)
            elif i.opname in ("STORE_GLOBAL",):
                module_stores.add(i.argval)
            elif i.opname in ("LOAD_GLOBAL",):
                reads.add(i.argval)
            elif i.opname in ("LOAD_NAME", "LOAD_FROM_DICT_OR_GLOBALS"):
                pending.append(i.argval)
        if is_module:
            module_stores |= local_stores
            reads.update(pending)
        else:
            # class body: a name read before/without being stored there falls through to the globals;
            # `__name__` is read implicitly to set __module__
            for n in pending:
                if n not in local_stores and n != "__name__":
                    reads.add(n)
    return imports, sorted(reads - module_stores - {"__annotations__"})


def main():
    import os

    job = json.load(sys.stdin)
    # the executed texts may print: keep the result channel apart
    result_out = os.fdopen(os.dup(1), "w")
    devnull = os.open(os.devnull, os.O_WRONLY)
    os.dup2(devnull, 1)
    sys.stdout = open(os.devnull, "w")
    stdlib = set(job["stdlib"])
    real_import = builtins.__import__
    state = {"unit": None, "tag": None, "records": None}

    def hook(name, globals=None, locals=None, fromlist=(), level=0):
        fr = sys._getframe(1)
        if state["tag"] is not None and fr.f_code.co_filename == state["tag"]:
            root = name.split(".")[0]
            if root == "__future__":
                return real_import(name, globals, locals, fromlist, level)
            ok = level == 0 and (root in stdlib or root == "__main__")
            state["records"].append([("." * level) + name, sorted(fromlist or ()), fr.f_code.co_name == "<module>", ok])
            if not ok:
                raise ImportError("refused by the stdlib-only hook: " + name)
        return real_import(name, globals, locals, fromlist, level)

    builtins.__import__ = hook
    out = []
    pipe_main = None  # `__main__` of a pipe-bootstrapped worker: the first "exec" sequence
    try:
        for seq in job["sequences"]:
            if seq["inMain"]:
                mod = types.ModuleType("__main__")
                sys.modules["__main__"] = mod
                if seq["name"] == "exec" and pipe_main is None:
                    pipe_main = mod
                ns = mod.__dict__
                ns["__builtins__"] = builtins
            else:
                if pipe_main is not None:
                    sys.modules["__main__"] = pipe_main
                ns = {}
            for nm in seq["injected"]:
                if nm == "__name__":
                    ns["__name__"] = seq.get("modeName") or ns.get("__name__", "__main__")
                elif nm.startswith("__") and nm in ns:
                    pass
                elif nm.startswith("__"):
                    ns[nm] = None
                else:
                    ns[nm] = Stub(nm)
            for u in seq["units"]:
                res = {"sequence": seq["name"], "unit": u["name"]}
                try:
                    res["compiler_imports"], _ = compiler_view(u["text"], u["future"])
                    _, res["compiler_free"] = compiler_view(u["pruned"], u["future"])
                except SyntaxError as e:
                    res["status"] = "syntax-error: %s" % e
                    out.append(res)
                    continue
                if u.get("run"):
                    tag = "<unit:%s>" % u["name"]
                    state["tag"], state["records"] = tag, []
                    argv = sys.argv
                    try:
                        flags = 0
                        if u["future"]:
                            import __future__

                            flags = __future__.annotations.compiler_flag
                        co = compile(u["text"] + "\n", tag, "exec", flags=flags, dont_inherit=True)
                        sys.argv = [tag, "127.0.0.1:0"]
                        exec(co, ns)
                        if u.get("call"):
                            ns[u["call"]](ns["channel"])
                        res["status"] = "ok"
                    except StubStop as e:
                        res["status"] = "stub:" + str(e)
                    except BaseException as e:  # noqa: BLE001 - reported to the parent
                        res["status"] = "%s: %s" % (type(e).__name__, str(e)[:200])
                    finally:
                        sys.argv = argv
                        state["tag"] = None
                    res["imports"] = state["records"]
                    res["namespace"] = sorted(k for k in ns)
                out.append(res)
    finally:
        builtins.__import__ = real_import
    json.dump(out, result_out)
    result_out.flush()


if __name__ == "__main__":
    # the stand-alone socket server must stop instead of waiting for a connection
    import socket

    def _accept(self):
        raise SystemExit("accept")

    socket.socket.accept = _accept
    main()
