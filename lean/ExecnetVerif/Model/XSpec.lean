/-
L8 — `execnet.xspec.XSpec` as it is after the `fix:` commit for D16 (env: keys take part in the
duplicate check).  Transcribed statement by statement from `XSpec.__init__`, `__getattr__`,
`__str__`, `__eq__`, `__ne__`, `__hash__`; strings are lists of Unicode scalar values.
No Mathlib import: this file is linked into the native driver.
-/
namespace ExecnetVerif.XSpec

abbrev Str := List Char

/-- the exception classes `XSpec(...)` / `getattr` can raise -/
inductive Err
  | indexError      -- `key[0]` / `name[0]` on an empty string
  | attributeError  -- key / name starting with '_'
  | valueError      -- duplicate key
  deriving DecidableEq, Repr

/-- attribute value: `True` for a bare key, the text after the first '=' otherwise -/
inductive Val
  | true
  | str (s : Str)
  deriving DecidableEq, Repr

/-- prepend a character to the first component -/
def consHead (c : Char) : List Str → List Str
  | [] => [[c]]
  | h :: t => (c :: h) :: t

/-- `string.split("//")`: leftmost, non-overlapping; never returns the empty list -/
def splitSS : Str → List Str
  | [] => [[]]
  | [c] => [[c]]
  | c :: d :: rest =>
    if c = '/' ∧ d = '/' then [] :: splitSS rest else consHead c (splitSS (d :: rest))

/-- `"//".join(components)` -/
def joinSS : List Str → Str
  | [] => []
  | [p] => p
  | p :: q :: r => p ++ '/' :: '/' :: joinSS (q :: r)

/-- `i = keyvalue.find("="); key, value = (keyvalue, True) if i == -1 else (keyvalue[:i], keyvalue[i+1:])` -/
def splitEq : Str → Str × Val
  | [] => ([], .true)
  | c :: r => if c = '=' then ([], .str r) else (c :: (splitEq r).1, (splitEq r).2)

/-- the parsed object: `_spec`, the instance `__dict__` without `_spec`/`env` (insertion order),
and the `env` dict (insertion order) -/
structure Obj where
  spec : Str
  attrs : List (Str × Val)
  env : List (Str × Val)
  deriving DecidableEq, Repr

def envPrefix : Str := ['e', 'n', 'v', ':']
def envName : Str := ['e', 'n', 'v']
def specName : Str := ['_', 's', 'p', 'e', 'c']

/-- `key.startswith("env:")` -/
def isEnvKey (k : Str) : Bool := k.take 4 == envPrefix

/-- keys of `self.__dict__` -/
def dictKeys (o : Obj) : List Str := specName :: envName :: o.attrs.map (·.1)

instance decEqResult : DecidableEq (Except Err Obj)
  | .ok a, .ok b => if h : a = b then isTrue (by rw [h]) else isFalse (fun e => h (Except.ok.inj e))
  | .error a, .error b =>
    if h : a = b then isTrue (by rw [h]) else isFalse (fun e => h (Except.error.inj e))
  | .ok _, .error _ => isFalse (fun e => by cases e)
  | .error _, .ok _ => isFalse (fun e => by cases e)

/-- one iteration of the loop in `XSpec.__init__` -/
def stepPiece (o : Obj) (piece : Str) : Except Err Obj :=
  let kv := splitEq piece
  match kv.1 with
  | [] => .error .indexError
  | c :: _ =>
    if c = '_' then .error .attributeError
    else if kv.1 ∈ dictKeys o ∨ (isEnvKey kv.1 = true ∧ kv.1.drop 4 ∈ o.env.map (·.1)) then
      .error .valueError
    else if isEnvKey kv.1 then .ok { o with env := o.env ++ [(kv.1.drop 4, kv.2)] }
    else .ok { o with attrs := o.attrs ++ [(kv.1, kv.2)] }

def loop : Obj → List Str → Except Err Obj
  | o, [] => .ok o
  | o, p :: ps =>
    match stepPiece o p with
    | .error e => .error e
    | .ok o' => loop o' ps

/-- `XSpec(string)` -/
def parse (s : Str) : Except Err Obj :=
  loop { spec := s, attrs := [], env := [] } (splitSS s)

/-- what `getattr(xspec, name)` evaluates to -/
inductive AttrVal
  | none                           -- class-level default / `__getattr__`
  | val (v : Val)                  -- an attribute set by the spec
  | env (e : List (Str × Val))     -- the `env` dict
  | text (s : Str)                 -- `_spec`
  deriving DecidableEq, Repr

def lookup (name : Str) : List (Str × Val) → Option Val
  | [] => .none
  | (k, v) :: r => if k = name then some v else lookup name r

/-- `getattr(xspec, name)`: instance dict first, then the class (every class-level default is
`None`, pinned by `C20_defaults_pinned`), then `__getattr__`.  Names of the class machinery
(`__class__`, `_samefilesystem`, …) are outside the model. -/
def getattr (o : Obj) (name : Str) : Except Err AttrVal :=
  match lookup name o.attrs with
  | some v => .ok (.val v)
  | .none =>
    if name = envName then .ok (.env o.env)
    else if name = specName then .ok (.text o.spec)
    else match name with
      | [] => .error .indexError
      | c :: _ => if c = '_' then .error .attributeError else .ok .none

/-- `str(xspec)` -/
def Obj.str (o : Obj) : Str := o.spec
/-- `a == b` for two XSpec objects: `self._spec == other._spec` -/
def pyEq (a b : Obj) : Bool := a.spec == b.spec
/-- `a != b` -/
def pyNe (a b : Obj) : Bool := a.spec != b.spec
/-- `hash(xspec) = hash(self._spec)` for the interpreter's string hash `h` -/
def pyHash (h : Str → Nat) (o : Obj) : Nat := h o.spec

/-! ### the printing side: key/value lists -/

/-- one component: `key` or `key=value` -/
def piece : Str × Option Str → Str
  | (k, .none) => k
  | (k, some v) => k ++ '=' :: v

/-- the specification string made of the given keys and values -/
def print (kvs : List (Str × Option Str)) : Str := joinSS (kvs.map piece)

def toVal : Option Str → Val
  | .none => .true
  | some v => .str v

/-- the object the property asks for: exactly those attributes, env: keys collected in env -/
def attrsOf (kvs : List (Str × Option Str)) : Obj :=
  { spec := print kvs
    attrs := (kvs.filter (fun kv => !isEnvKey kv.1)).map (fun kv => (kv.1, toVal kv.2))
    env := (kvs.filter (fun kv => isEnvKey kv.1)).map (fun kv => (kv.1.drop 4, toVal kv.2)) }

/-- contains "//" -/
def hasSS : Str → Bool
  | [] => false
  | [_] => false
  | c :: d :: r => (c == '/' && d == '/') || hasSS (d :: r)

def endsSlash (s : Str) : Bool := s.getLast? == some '/'

/-- the property's conditions on one key: non-empty, no '=', no "//", not starting with '_' -/
def keyOk (k : Str) : Bool := !k.isEmpty && !k.contains '=' && !hasSS k && k.head? != some '_'

/-- the property's condition on one value: no "//" -/
def valOk : Option Str → Bool
  | .none => true
  | some v => !hasSS v

/-- forced by the proof (known finding D17a): no component but the last one ends in '/' -/
def noInnerTrailingSlash : List Str → Bool
  | [] => true
  | [_] => true
  | p :: q :: r => !endsSlash p && noInnerTrailingSlash (q :: r)

/-- shape conditions: at least one component (forced: `XSpec("")` raises IndexError), every key and
value as in the property, and the forced trailing-slash condition -/
def okShape (kvs : List (Str × Option Str)) : Bool :=
  !kvs.isEmpty && kvs.all (fun kv => keyOk kv.1 && valOk kv.2) && noInnerTrailingSlash (kvs.map piece)

/-- all hypotheses of `C20_parse`: the shape, unique keys, and (forced, known finding D17b) no
plain key `env` -/
def okKeys (kvs : List (Str × Option Str)) : Prop :=
  okShape kvs = true ∧ (kvs.map (·.1)).Nodup ∧ envName ∉ kvs.map (·.1)

instance (kvs : List (Str × Option Str)) : Decidable (okKeys kvs) := by
  unfold okKeys; infer_instance

end ExecnetVerif.XSpec
