"""C14 — main_thread_only executes in the main thread and never cries deadlock falsely (DESIGN.md §4 C14).

A real `Gateway` and a real `WorkerGateway.serve()` (execmodel `main_thread_only`) run in ONE process, joined by
two in-memory pipes, every lock/event/thread under the deterministic scheduler (`sched.GatewayPair`).  A *history*
is a list of remote_exec calls  {"o": ret|raise|sysexit|kbd|block, "next": seq|overlap}:
  o     how the body ends (block: it waits for a message from the initiator, then returns)
  next  seq: before the next remote_exec the initiator waits until every open channel has closed;
        overlap: the next remote_exec is issued immediately.
Schedules use `timeouts="when_stuck"`: the receiver's 1 s wait expires only when nothing else can run — this
realises the assumption `Timely` of the theorems.  Replay of a failing case = history + `Scheduler.trace`.

Logical events (compared with the Lean model through `gate.accepts`):
  sub:k   st:k   en:k:<outcome>   obs:k:ok|err|dead
"""
from __future__ import annotations

import json
import os
import time

from . import common
from . import sched as S
from .c09 import dfs_schedules

DEADLOCK_TEXT = "concurrent remote_exec would cause deadlock for main_thread_only execmodel"
BODY_SRC = "from harness import c14 as _H\n_H.CUR.body(channel, %d)\n"
CUR = None  # the run in progress (bodies executed by the in-process worker call back into it)


class Run:
    def __init__(self, hist, sched):
        self.hist = hist
        self.sched = sched
        self.log = []
        self.problems = []
        self.deadlock = None

    def ev(self, *a):
        self.log.append(a)

    def body(self, channel, k):
        o = self.hist[k]["o"]
        cur = self.sched.current
        import threading

        self.ev("st", k, cur.name if cur is not None else "?", threading.current_thread().name)
        if o == "block":
            channel.receive()
        self.ev("en", k, "ret" if o == "block" else o)
        if o == "raise":
            raise ValueError("boom %d" % k)
        if o == "sysexit":
            raise SystemExit(3)
        if o == "kbd":
            raise KeyboardInterrupt()


def execute(execnet, hist, choices=None, rng=None, current_first=False, preempt=0, preempt_prob=0.0, max_steps=60000):
    global CUR
    gb = execnet.gateway_base
    sc = S.Scheduler(rng=rng, choices=choices, timeouts="when_stuck", max_steps=max_steps, current_first=current_first,
                     preempt_lines=preempt, preempt_prob=preempt_prob,
                     src_prefix=os.path.dirname(os.path.abspath(gb.__file__)))
    run = Run(hist, sc)
    pair = S.GatewayPair(execnet, sc, backend="main_thread_only")
    CUR = run

    def observe(ch, j):
        try:
            ch.waitclose()
        except gb.RemoteError as e:
            run.ev("obs", j, "dead" if DEADLOCK_TEXT in str(e) else "err", str(e)[:120])
        except BaseException as e:  # noqa: BLE001
            run.problems.append("waitclose of exec %d raised %r" % (j, e))
            run.ev("obs", j, "err", repr(e)[:120])
        else:
            run.ev("obs", j, "ok", "")

    def main():
        gw = pair.start()
        chans = {}
        open_ = []
        last = len(hist) - 1
        for k, it in enumerate(hist):
            run.ev("sub", k)
            chans[k] = gw.remote_exec(BODY_SRC % k)
            open_.append(k)
            if it["next"] == "seq" or k == last:
                for j in reversed(open_):
                    if hist[j]["o"] == "block":
                        run.ev("go", j)
                        try:
                            chans[j].send("go")
                        except OSError:
                            pass  # refused exec: its channel is already closed
                    observe(chans[j], j)
                open_ = []
        gw.exit()

    try:
        sc.run(main, wall_timeout=60.0)
    except S.Deadlock as e:
        run.deadlock = str(e)
    finally:
        pair.restore()
        CUR = None
    run.trace = list(sc.trace)
    run.trace_n = list(sc.trace_n)
    run.trace_p = list(sc.trace_p)
    run.line_events = sc.line_events
    run.now = sc.now
    for t in sc.threads:
        if t.exc is not None:
            run.problems.append("thread %s died with %r" % (t.name, t.exc))
    if pair.os_proxy.events:
        run.problems.append("worker resorted to %r while terminating" % (pair.os_proxy.events[:3],))
    if run.deadlock is None and not pair.worker_done:
        run.problems.append("WorkerGateway.serve() did not return")
    judge(run)
    return run


def judge(run):
    """the model-free oracle of the property text (schedules realise `Timely`)"""
    hist, log, P = run.hist, run.log, run.problems
    if run.deadlock is not None:
        P.append("hang: " + run.deadlock.replace("\n", " | ")[:400])
        return
    pos = {}
    for n, e in enumerate(log):
        pos.setdefault((e[0], e[1]), []).append(n)
    # 1. thread identity
    for e in log:
        if e[0] == "st" and (e[2] != "worker-main" or e[3] != "L-worker-main"):
            P.append("body %d ran on thread %s/%s, not on the worker's main thread" % (e[1], e[2], e[3]))
    # 2. one at a time, 3. submission order
    running = None
    order = []
    for e in log:
        if e[0] == "st":
            if running is not None:
                P.append("body %d began while body %d was running" % (e[1], running))
            running = e[1]
            order.append(e[1])
        elif e[0] == "en":
            if running != e[1]:
                P.append("body %d ended while body %r was the running one" % (e[1], running))
            running = None
    if order != sorted(order) or len(set(order)) != len(order):
        P.append("bodies began in order %s, not in submission order" % order)
    # 4. per exec
    for k, it in enumerate(hist):
        subs, sts, ens, obss = pos.get(("sub", k), []), pos.get(("st", k), []), pos.get(("en", k), []), pos.get(("obs", k), [])
        if len(subs) != 1 or len(obss) != 1 or len(sts) > 1 or len(ens) != len(sts):
            P.append("exec %d: %d submissions, %d starts, %d ends, %d close observations" % (k, len(subs), len(sts), len(ens), len(obss)))
            continue
        kind = log[obss[0]][2]
        want = "ok" if it["o"] in ("ret", "block") else "err"
        sequential = all(pos.get(("obs", j)) and pos[("obs", j)][0] < subs[0] for j in range(k))
        if kind == "dead":
            if sts:
                P.append("exec %d got the deadlock error although its body ran" % k)
            if sequential:
                P.append("exec %d was issued after every earlier channel had closed (outcomes %s) and got the deadlock error"
                         % (k, [h["o"] for h in hist[:k]]))
        else:
            if not sts:
                P.append("exec %d closed with %s but its body never ran" % (k, kind))
            elif kind != want:
                P.append("exec %d (%s) closed with %s (%s), expected %s" % (k, it["o"], kind, log[obss[0]][3], want))
        # issued while an earlier body was running and stayed blocked until after this channel closed -> must be refused
        for i in range(k):
            if hist[i]["o"] == "block" and pos.get(("st", i)) and pos[("st", i)][0] < subs[0]:
                go = pos.get(("go", i), [10 ** 9])[0]
                if go > obss[0] and kind != "dead":
                    P.append("exec %d was issued while body %d was blocked, yet was not refused (%s)" % (k, i, kind))


def model_line(run, old=False):
    toks = ["gate.accepts", "T=1", "O=%d" % int(old), ";"]
    for e in run.log:
        if e[0] in ("sub", "st"):
            toks.append("%s:%d" % (e[0], e[1]))
        elif e[0] in ("en", "obs"):
            toks.append("%s:%d:%s" % (e[0], e[1], e[2]))
    return " ".join(toks)


# ---------------------------------------------------------------------------------------
OUTCOMES = ["ret", "raise", "sysexit", "kbd", "block"]


def gen_history(rng, maxlen=5):
    n = rng.randint(1, maxlen)
    hist = []
    for k in range(n):
        o = rng.choice(["ret", "ret", "raise", "raise", "sysexit", "kbd", "block"])
        hist.append({"o": o, "next": rng.choice(["seq", "seq", "overlap"])})
    return hist


def all_histories(maxlen):
    """every history of outcomes (incl. block) x submission modes up to the given length"""
    import itertools

    for n in range(1, maxlen + 1):
        for outs in itertools.product(OUTCOMES, repeat=n):
            for modes in itertools.product(["seq", "overlap"], repeat=n - 1):
                yield [{"o": o, "next": (modes[i] if i < n - 1 else "seq")} for i, o in enumerate(outs)]


# D11 corpus: a failing body followed by another remote_exec (sequential) — the second one is refused forever
CORPUS = [
    [{"o": "raise", "next": "seq"}, {"o": "ret", "next": "seq"}],
    [{"o": "sysexit", "next": "seq"}, {"o": "ret", "next": "seq"}, {"o": "ret", "next": "seq"}],
    [{"o": "kbd", "next": "seq"}, {"o": "raise", "next": "seq"}, {"o": "ret", "next": "seq"}],
    [{"o": "block", "next": "overlap"}, {"o": "ret", "next": "seq"}, {"o": "ret", "next": "seq"}],
    [{"o": "ret", "next": "overlap"}, {"o": "block", "next": "overlap"}, {"o": "raise", "next": "seq"}, {"o": "ret", "next": "seq"}],
]

RULE = ("real Gateway + WorkerGateway.serve() (main_thread_only) in one process under the deterministic scheduler with "
        "time-outs firing only when nothing else can run (= Timely): frozen D11 corpus, every history of outcomes "
        "{return, raise, SystemExit, KeyboardInterrupt, blocked} x {sequential, overlapping} up to length 2 (quick) / 3 (thorough), "
        "random histories of length 1-5, each under random schedules; pre-emption-bounded exhaustive DFS of the corpus "
        "histories; oracle on thread identity, order, one-at-a-time, deadlock text only for overlapping submissions, next "
        "exec after a closed channel always runs; every trace checked with gate.accepts; plus a real "
        "popen//execmodel=main_thread_only gateway. distinct = distinct (history, choice list); non-trivial = history "
        "with >= 2 execs")


class Collector:
    def __init__(self, res):
        self.res = res
        self.lines = {}

    def add(self, hist, run, case):
        res = self.res
        res.count((json.dumps(hist), tuple(run.trace)), nontrivial=len(hist) >= 2)
        res.stat("schedules")
        res.stat("history_len_%d" % len(hist))
        for e in run.log:
            if e[0] == "obs":
                res.stat("obs_" + e[2])
            elif e[0] == "en":
                res.stat("outcome_" + e[2])
        if run.problems:
            res.violations.append({"case": case, "what": "; ".join(run.problems)[:1500], "finding": None,
                                   "log": [list(e) for e in run.log][:200]})
            return
        self.lines.setdefault(model_line(run), case)

    def check_model(self, ctx, limit):
        res = self.res
        items = sorted(self.lines.items())
        if len(items) > limit:
            items = ctx.rng("model-sample").sample(items, limit)
        outs = ctx.driver.ask([l for l, _ in items])
        for (line, case), ans in zip(items, outs):
            if ans.startswith("accept"):
                res.traces += 1
            elif ans.startswith("unknown"):
                res.stat("model_search_budget_exhausted")
            else:
                res.mismatches.append({"op": "gate.accepts", "model": ans, "line": line, "case": case})


def _case(hist, run, **kw):
    c = {"history": hist, "choices": list(run.trace)}
    c.update(kw)
    return c


def _dfs_worker(args):
    hist, max_preempt, budget_s, line_cap = args
    execnet = common.import_execnet()
    deadline = time.monotonic() + budget_s
    n = 0
    bad = []
    lines = {}
    for run in dfs_schedules(lambda p: execute(execnet, hist, choices=p, current_first=True), max_preempt=max_preempt, deadline=deadline):
        n += 1
        if run.problems:
            if len(bad) < 3:
                bad.append({"case": _case(hist, run, current_first=True), "what": "; ".join(run.problems)[:1500],
                            "log": [list(e) for e in run.log][:200]})
        elif len(lines) < line_cap:
            lines.setdefault(model_line(run), _case(hist, run, current_first=True))
    return {"history": hist, "n": n, "complete": bool(dfs_schedules.complete), "bad": bad, "lines": lines, "max_preempt": max_preempt}


def _random_worker(args):
    import random

    seed_tag, hists, per, budget_s, line_cap = args
    execnet = common.import_execnet()
    deadline = time.monotonic() + budget_s
    n = 0
    bad = []
    lines = {}
    for k, hist in enumerate(hists):
        for j in range(per):
            sseed = "%s:%d:%d" % (seed_tag, k, j)
            run = execute(execnet, hist, rng=random.Random(sseed))
            n += 1
            case = _case(hist, run, rng_seed=sseed)
            if run.problems:
                if len(bad) < 3:
                    bad.append({"case": case, "what": "; ".join(run.problems)[:1500], "log": [list(e) for e in run.log][:200]})
            elif len(lines) < line_cap:
                lines.setdefault(model_line(run), case)
        if time.monotonic() > deadline:
            break
    return {"n": n, "bad": bad, "lines": lines}


# ---------------------------------------------------------------------------------------
# process level
# ---------------------------------------------------------------------------------------
PROC_BODY = {
    "ret": "import threading\nchannel.send(threading.current_thread() is threading.main_thread())\n",
    "raise": "import threading\nchannel.send(threading.current_thread() is threading.main_thread())\nraise ValueError('boom')\n",
    "sysexit": "import threading\nchannel.send(threading.current_thread() is threading.main_thread())\nraise SystemExit(3)\n",
    "kbd": "import threading\nchannel.send(threading.current_thread() is threading.main_thread())\nraise KeyboardInterrupt()\n",
    "block": "import threading\nchannel.send(threading.current_thread() is threading.main_thread())\nchannel.send(channel.receive())\n",
}


def process_level(ctx, res, histories, with_overlap=True, how="spec"):
    """how = "spec": the worker's model is named in the spec; "group": it is the group's remote default
    (`set_execmodel("thread", "main_thread_only")`) and the spec says nothing"""
    execnet = ctx.execnet
    gb = execnet.gateway_base
    group = execnet.Group()
    try:
        if how == "group":
            group.set_execmodel("thread", "main_thread_only")
            gw = group.makegateway("popen")
        else:
            gw = group.makegateway("popen//execmodel=main_thread_only")
        res.stat("process_level_configured_by_" + how)
        for outs in histories:
            case = {"process_level": outs, "configured_by": how}
            res.count(("process", how, tuple(outs)))
            res.stat("process_level_execs", len(outs))
            for k, o in enumerate(outs):
                t0 = time.monotonic()
                ch = gw.remote_exec(PROC_BODY[o])
                what = None
                try:
                    on_main = ch.receive(10)
                    if on_main is not True:
                        what = "body %d (%s) of %s did not run on the worker's main thread" % (k, o, outs)
                    try:
                        ch.waitclose(10)
                        closed = "ok"
                    except gb.RemoteError as e:
                        closed = "dead" if DEADLOCK_TEXT in str(e) else "err"
                    if closed != ("ok" if o == "ret" else "err") and what is None:
                        what = "exec %d (%s) of %s closed with %s" % (k, o, outs, closed)
                except gb.RemoteError as e:
                    what = "exec %d (%s) of %s issued after the previous channel had closed failed after %.2f s: %s" % (
                        k, o, outs, time.monotonic() - t0, str(e)[:100])
                except BaseException as e:  # noqa: BLE001
                    what = "exec %d (%s) of %s: %r" % (k, o, outs, e)
                if what:
                    res.violations.append({"case": case, "what": what, "finding": None})
                    return
        if with_overlap:
            res.count(("process", how, "overlap"))
            res.stat("process_level_overlap")
            case = {"process_level": "overlap", "configured_by": how}
            ch1 = gw.remote_exec(PROC_BODY["block"])
            on_main = ch1.receive(10)
            ch2 = gw.remote_exec(PROC_BODY["ret"])
            try:
                ch2.receive(10)
                res.violations.append({"case": case, "finding": None, "what": "a remote_exec issued while an earlier body was blocked was executed"})
                return
            except gb.RemoteError as e:
                if DEADLOCK_TEXT not in str(e):
                    res.violations.append({"case": case, "finding": None, "what": "overlapping remote_exec failed with %s" % str(e)[:100]})
                    return
            ch1.send("undisturbed")
            back = ch1.receive(10)
            ch1.waitclose(10)
            ch3 = gw.remote_exec(PROC_BODY["ret"])
            ok3 = ch3.receive(10)
            if on_main is not True or back != "undisturbed" or ok3 is not True:
                res.violations.append({"case": case, "finding": None,
                                       "what": "blocked body disturbed by the refused one: %r %r %r" % (on_main, back, ok3)})
    except BaseException as e:  # noqa: BLE001
        res.violations.append({"case": {"process_level": "error"}, "finding": None, "what": "process-level run failed: %r" % (e,)})
    finally:
        group.terminate(timeout=2.0)


SLOW_TEARDOWN = ("import threading\n"
                 "ns = {}\n"   # the class lives in its own namespace: the body's namespace is in no reference cycle and frees `keep` at once
                 "exec('import time\\nclass Slow:\\n    def __del__(self):\\n        time.sleep(1.6)\\n', ns)\n"
                 "keep = ns['Slow']()\n"
                 "del ns\n"
                 "channel.send(threading.current_thread() is threading.main_thread())\n")


def slow_teardown_probe(ctx, res):
    """known finding C14-teardown-exceeds-grace (C14_untimely_counterexample on the real worker): the channel of a body is
    closed before its namespace is torn down and before `_executetask_complete` is set; a finaliser in the namespace that
    runs longer than the receiver's 1 s wait makes the next, sequentially issued remote_exec fail with the deadlock text"""
    execnet = ctx.execnet
    gb = execnet.gateway_base
    group = execnet.Group()
    case = {"process_level": "slow-teardown", "finaliser_seconds": 1.6}
    res.count(("process", "slow-teardown"))
    res.stat("process_level_slow_teardown")
    try:
        gw = group.makegateway("popen//execmodel=main_thread_only")
        ch = gw.remote_exec(SLOW_TEARDOWN)
        ch.receive(10)
        ch.waitclose(10)
        t0 = time.monotonic()
        ch2 = gw.remote_exec(PROC_BODY["ret"])
        try:
            ok = ch2.receive(10)
            if ok is not True:
                res.violations.append({"case": case, "finding": None, "what": "body after a slow tear-down did not run on the main thread"})
        except gb.RemoteError as e:
            dt = time.monotonic() - t0
            if DEADLOCK_TEXT in str(e):
                res.violations.append({"case": case, "finding": "C14-teardown-exceeds-grace",
                                       "what": "remote_exec issued after the previous channel had closed was refused with the deadlock text after "
                                               "%.2f s: the previous body's namespace was still being torn down (finaliser of 1.6 s)" % dt})
            else:
                res.violations.append({"case": case, "finding": None, "what": "remote_exec after a slow tear-down failed: %s" % str(e)[:120]})
    except BaseException as e:  # noqa: BLE001
        res.violations.append({"case": case, "finding": None, "what": "slow-teardown probe failed: %r" % (e,)})
    finally:
        group.terminate(timeout=3.0)


def execmodel_choice_correspondence(ctx, res):
    """which model a new worker runs with: every set_execmodel(local, remote) x spec over {thread, main_thread_only} on real
    popen gateways (the worker is asked for its model) against `exc.choice` (Model/ExecChoice.lean)"""
    execnet = ctx.execnet
    models = ["thread", "main_thread_only"]
    combos = [(e, r, sp) for e in models for r in [None] + models for sp in [None] + models]
    got = []
    for e, r, sp in combos:
        case = {"process_level": "execmodel-choice", "local": e, "remote": r, "spec": sp}
        res.count(("process", "choice", e, r, sp), nontrivial=True)
        res.stat("execmodel_choice_gateways")
        group = execnet.Group()
        try:
            if r is None:
                group.set_execmodel(e)
            else:
                group.set_execmodel(e, r)
            gw = group.makegateway("popen" + ("//execmodel=%s" % sp if sp else ""))
            ch = gw.remote_exec("import threading\nchannel.send((channel.gateway.execmodel.backend, threading.current_thread() is threading.main_thread()))")
            backend, on_main = ch.receive(10)
            got.append((case, backend, on_main))
        except BaseException as ex:  # noqa: BLE001
            res.violations.append({"case": case, "finding": None, "what": "gateway for this configuration failed: %r" % (ex,)})
            return
        finally:
            try:
                group.terminate(timeout=2.0)
            except Exception:  # noqa: BLE001
                pass
    outs = ctx.driver.ask(["exc.choice %s %s %s" % (c["local"], c["remote"] or "-", c["spec"] or "-") for c, _b, _m in got])
    for (case, backend, on_main), want in zip(got, outs):
        asked = case["spec"] or case["remote"] or case["local"]
        if backend != asked:
            res.violations.append({"case": case, "finding": None,
                                   "what": "the worker runs with execmodel %r, configured was %r (spec, else the group's remote model, else its local one)" % (backend, asked)})
        elif backend == "main_thread_only" and on_main is not True:
            res.violations.append({"case": case, "finding": None, "what": "a main_thread_only worker ran the body outside its main thread"})
        elif backend != want:
            res.mismatches.append({"op": "exc.choice", "case": case, "impl": backend, "model": want})
        else:
            res.traces += 1


PROC_HISTORIES = [["raise", "ret"], ["ret", "ret", "raise", "sysexit", "ret"], ["kbd", "ret"], ["sysexit", "raise", "ret"]]


# ---------------------------------------------------------------------------------------
def run(ctx):
    import random

    res = common.Result()
    res.rule = RULE
    res.assumptions = ["Timely: the receiver's 1 s wait (Generated.gateWaitDeci = 10) does not expire while the main thread is between "
                       "the end of a body and _executetask_complete.set(); the harness realises it with virtual time "
                       "(time-outs fire only when no thread can run); on the real popen gateway it holds by a margin of ~1 s and is "
                       "violated by a body whose tear-down exceeds the second (known finding C14-teardown-exceeds-grace, probed on every run)",
                       "C14_main_thread / C14_one_at_a_time are theorems about the WorkerPool model of C09 (same correspondence)"]
    execnet = ctx.execnet
    col = Collector(res)
    t_start = time.monotonic()
    # corpus first
    for hist in CORPUS:
        for j in range(ctx.budget(10, 100, 40)):
            sseed = "%d:C14:corpus:%d" % (ctx.seed, j)
            run_ = execute(execnet, hist, rng=random.Random(sseed))
            col.add(hist, run_, _case(hist, run_, rng_seed=sseed, origin="corpus"))
    if res.violations:
        return res
    process_level(ctx, res, PROC_HISTORIES if ctx.thorough else PROC_HISTORIES[:2], with_overlap=True)
    if res.violations:
        return res
    process_level(ctx, res, PROC_HISTORIES if ctx.thorough else PROC_HISTORIES[:1], with_overlap=True, how="group")
    if res.violations:
        return res
    execmodel_choice_correspondence(ctx, res)
    if res.violations:
        return res
    if not ctx.thorough:
        # every history up to length 2, a few schedules each
        hists = list(all_histories(2))
        for k, hist in enumerate(hists):
            for j in range(ctx.budget(6, 0, 20)):
                sseed = "%d:C14:all2:%d:%d" % (ctx.seed, k, j)
                run_ = execute(execnet, hist, rng=random.Random(sseed))
                col.add(hist, run_, _case(hist, run_, rng_seed=sseed))
            if len(res.violations) > 5:
                return res
        res.extra["histories_enumerated"] = {"max_len": 2, "count": len(hists)}
        rng = ctx.rng("histories")
        for k in range(ctx.budget(60, 0, 250)):
            hist = gen_history(rng)
            res.sample(hist)
            for j in range(ctx.budget(8, 0, 20)):
                sseed = "%d:C14:gen:%d:%d" % (ctx.seed, k, j)
                run_ = execute(execnet, hist, rng=random.Random(sseed))
                col.add(hist, run_, _case(hist, run_, rng_seed=sseed))
            if len(res.violations) > 5:
                return res
        if res.violations:
            return res
        hist = CORPUS[0]
        deadline = time.monotonic() + ctx.budget(10, 0, 40)
        n = 0
        for run_ in dfs_schedules(lambda p: execute(execnet, hist, choices=p, current_first=True), max_preempt=1, deadline=deadline):
            col.add(hist, run_, _case(hist, run_, current_first=True))
            n += 1
        res.stat("dfs_schedules", n)
        res.extra["dfs"] = [{"history": 0, "max_preempt": 1, "schedules": n, "complete": bool(dfs_schedules.complete)}]
        res.exhaustive = bool(dfs_schedules.complete)
    else:
        thorough_parallel(ctx, res, col)
    col.check_model(ctx, ctx.budget(800, 8000, 2000))
    # the timing assumption on the real worker (known finding when the tear-down exceeds the gate's wait)
    slow_teardown_probe(ctx, res)
    res.extra["wall_explore_s"] = round(time.monotonic() - t_start, 1)
    return res


def thorough_parallel(ctx, res, col):
    import concurrent.futures
    import multiprocessing

    budget = 400.0
    rng = ctx.rng("histories")
    all3 = list(all_histories(3))
    res.extra["histories_enumerated"] = {"max_len": 3, "count": len(all3)}
    jobs = [("dfs", (CORPUS[0], 2, budget, 400)), ("dfs", (CORPUS[1], 1, budget, 400)), ("dfs", (CORPUS[2], 1, budget, 400)),
            ("dfs", (CORPUS[3], 1, budget, 400)), ("dfs", (CORPUS[4], 1, budget, 400))]
    chunks = [all3[i::5] for i in range(5)]
    for w, ch in enumerate(chunks):
        jobs.append(("rand", ("%d:C14:all3:%d" % (ctx.seed, w), ch, 25, budget, 800)))
    for w in range(5):
        hists = [gen_history(rng) for _ in range(500)]
        for h in hists[:2]:
            res.sample(h)
        jobs.append(("rand", ("%d:C14:gen:%d" % (ctx.seed, w), hists, 30, budget, 800)))
    mp = multiprocessing.get_context("spawn")
    dfs_report = []
    all_complete = True
    with concurrent.futures.ProcessPoolExecutor(max_workers=15, mp_context=mp) as ex:
        futs = [(kind, ex.submit(_dfs_worker if kind == "dfs" else _random_worker, args)) for kind, args in jobs]
        for kind, f in futs:
            r = f.result(timeout=budget + 240)
            res.evaluations += r["n"]
            res.stat("schedules", r["n"])
            for b in r["bad"]:
                res.violations.append({"case": b["case"], "what": b["what"], "finding": None, "log": b["log"]})
            for line, case in r["lines"].items():
                col.lines.setdefault(line, case)
                res.hashes.add(line)
            if kind == "dfs":
                res.stat("dfs_schedules", r["n"])
                dfs_report.append({"history": CORPUS.index(r["history"]), "max_preempt": r["max_preempt"], "schedules": r["n"], "complete": r["complete"]})
                all_complete = all_complete and r["complete"]
    res.extra["dfs"] = dfs_report
    res.exhaustive = all_complete


def search(ctx, prev):
    return run(ctx)


def replay(ctx, payload):
    import random

    res = common.Result()
    res.rule = RULE
    case = payload["case"]
    if case.get("process_level") == "execmodel-choice":
        execmodel_choice_correspondence(ctx, res)
        return res
    if "process_level" in case:
        process_level(ctx, res, PROC_HISTORIES, with_overlap=True, how=case.get("configured_by", "spec"))
        return res
    hist = case["history"]
    col = Collector(res)
    if case.get("rng_seed") is not None:
        run_ = execute(ctx.execnet, hist, rng=random.Random(case["rng_seed"]))
    else:
        run_ = execute(ctx.execnet, hist, choices=list(case["choices"]), current_first=bool(case.get("current_first")))
    col.add(hist, run_, case)
    print("replayed schedule: %d scheduling choices, log: %s" % (len(run_.trace), " ".join(":".join(map(str, e[:3])) for e in run_.log)))
    for p in run_.problems:
        print("  oracle:", p)
    col.check_model(ctx, 10)
    return res
