/-
Every step of the fixed protocol preserves `Inv`; hence `Inv` holds in every reachable state.
-/
import ExecnetVerif.Proofs.PoolInvUser
import ExecnetVerif.Proofs.PoolInvTask
import ExecnetVerif.Proofs.PoolInvPrim
namespace ExecnetVerif.Pool

theorem inv_userStep {c : Config} {s s' : State} {i : Uid} {act : Action} (hc : c.old = false) (h : Inv c s)
    (hs : userStep c s i act = some s') : Inv c s' := by
  cases act
  case spawnAcq t => exact inv_spawnAcq hc h hs
  case spawnCheck  => exact inv_spawnCheck hc h hs
  case spawnWaitfin  => exact inv_spawnWaitfin hc h hs
  case spawnRelease  => exact inv_spawnRelease hc h hs
  case spawnReturn  => exact inv_spawnReturn hc h hs
  case refusedReturn  => exact inv_refusedReturn hc h hs
  case shutAcq  => exact inv_shutAcq hc h hs
  case shutDo  => exact inv_shutDo hc h hs
  case shutReturn  => exact inv_shutReturn hc h hs
  case waAcq b => exact inv_waAcq hc h hs
  case waCheck  => exact inv_waCheck hc h hs
  case waWake  => exact inv_waWake hc h hs
  case waTimeout  => exact inv_waTimeout hc h hs
  case waReturn  => exact inv_waReturn hc h hs
  case getCall t b => exact inv_getCall hc h hs
  case getOk  => exact inv_getOk hc h hs
  case getTimeout  => exact inv_getTimeout hc h hs
  case getReturn  => exact inv_getReturn hc h hs
  all_goals (simp [userStep] at hs)

theorem inv_taskStep {c : Config} {s s' : State} {a : Agent} {act : Action} (h : Inv c s)
    (hs : taskStep s a act = some s') : Inv c s' := by
  cases act
  case tBegin t => exact inv_tBegin h hs
  case tEnd t => exact inv_tEnd h hs
  case tSetReady t => exact inv_tSetReady h hs
  case tRemAcq t => exact inv_tRemAcq h hs
  case tRemove t => exact inv_tRemove h hs
  all_goals (simp [taskStep] at hs)

theorem inv_primStep {c : Config} {s s' : State} {act : Action} (hc : c.old = false) (h : Inv c s)
    (hs : primStep c s act = some s') : Inv c s' := by
  cases act
  case pWait => exact inv_pWait hc h hs
  case pRead => exact inv_pRead hc h hs
  case pChkAcq => exact inv_pChkAcq hc h hs
  case pCheck => exact inv_pCheck hc h hs
  case pLeave => exact inv_pLeave hc h hs
  all_goals (simp [primStep] at hs)

theorem inv_step {c : Config} {s s' : State} {a : Agent × Action} (hc : c.old = false) (h : Inv c s)
    (hs : step c s a = some s') : Inv c s' := by
  obtain ⟨ag, act⟩ := a
  cases ag with
  | user i => exact inv_userStep hc h hs
  | worker t => exact inv_taskStep h hs
  | primary =>
    simp only [step] at hs
    split at hs
    · exact inv_primStep hc h hs
    · exact inv_taskStep h hs

theorem inv_reachable {c : Config} {s : State} (hc : c.old = false) (h : Reachable c s) : Inv c s := by
  induction h with
  | init => exact inv_init c
  | step _ hs ih => exact inv_step hc ih hs

end ExecnetVerif.Pool
