/-
Generic plumbing lemmas for the L3 `Net` model: `Side`, `State.side`/`State.set`, `upd`, `dataOf`,
`createChan`, and "frame lemmas" saying which fields of a `SideSt` every helper (`createAt`,
`registerAll`, `noLongerOpened`, `localClose`, `doClose`, `chanClose`, `epilogue`, `handle`) leaves
unchanged, plus exact characterisations of the most used changed fields.
All unchanged-field lemmas are `@[simp]` and named `<helper>_<field>`.
-/
import ExecnetVerif.Proofs.Net.Defs
namespace ExecnetVerif.Net

/-! ### `Side` -/

@[simp] theorem Side.peer_A : Side.A.peer = Side.B := rfl
@[simp] theorem Side.peer_B : Side.B.peer = Side.A := rfl
@[simp] theorem Side.peer_peer (s : Side) : s.peer.peer = s := by cases s <;> rfl
@[simp] theorem Side.peer_ne (s : Side) : s.peer ≠ s := by cases s <;> decide
@[simp] theorem Side.ne_peer (s : Side) : s ≠ s.peer := by cases s <;> decide
theorem Side.eq_or_eq_peer (s t : Side) : t = s ∨ t = s.peer := by cases s <;> cases t <;> simp
/-- `rcases Side.self_or_peer s t with rfl | rfl` replaces `t` by `s` resp. `s.peer` -/
theorem Side.self_or_peer (s t : Side) : s = t ∨ s.peer = t := by cases s <;> cases t <;> simp
theorem Side.eq_peer_of_ne {s t : Side} (h : t ≠ s) : t = s.peer := by
  cases s <;> cases t <;> simp_all
theorem Side.peer_eq_iff (s t : Side) : s.peer = t ↔ s = t.peer := by cases s <;> cases t <;> simp
@[simp] theorem Side.peer_inj (s t : Side) : s.peer = t.peer ↔ s = t := by cases s <;> cases t <;> simp
@[simp] theorem Side.beq_B_A : (Side.A == Side.B) = false := rfl
@[simp] theorem Side.beq_B_B : (Side.B == Side.B) = true := rfl

/-! ### `State.side` / `State.set` -/

@[simp] theorem State.side_A (st : State) : st.side .A = st.a := rfl
@[simp] theorem State.side_B (st : State) : st.side .B = st.b := rfl
@[simp] theorem State.set_A_a (st : State) (x : SideSt) : (st.set .A x).a = x := rfl
@[simp] theorem State.set_A_b (st : State) (x : SideSt) : (st.set .A x).b = st.b := rfl
@[simp] theorem State.set_B_a (st : State) (x : SideSt) : (st.set .B x).a = st.a := rfl
@[simp] theorem State.set_B_b (st : State) (x : SideSt) : (st.set .B x).b = x := rfl
@[simp] theorem State.side_set_same (st : State) (s : Side) (x : SideSt) : (st.set s x).side s = x := by
  cases s <;> rfl
@[simp] theorem State.side_set_peer (st : State) (s : Side) (x : SideSt) :
    (st.set s x).side s.peer = st.side s.peer := by cases s <;> rfl
@[simp] theorem State.side_peer_set (st : State) (s : Side) (x : SideSt) :
    (st.set s.peer x).side s = st.side s := by cases s <;> rfl
theorem State.side_set_of_ne (st : State) {s t : Side} (x : SideSt) (h : t ≠ s) :
    (st.set s x).side t = st.side t := by cases s <;> cases t <;> simp_all
theorem State.side_set (st : State) (s t : Side) (x : SideSt) :
    (st.set s x).side t = if t = s then x else st.side t := by cases s <;> cases t <;> simp
@[simp] theorem State.set_set_same (st : State) (s : Side) (x y : SideSt) :
    (st.set s x).set s y = st.set s y := by cases s <;> rfl
@[simp] theorem State.set_side_self (st : State) (s : Side) : st.set s (st.side s) = st := by
  cases s <;> rfl
theorem State.ext_side {st st' : State} (h : ∀ s, st.side s = st'.side s) : st = st' := by
  cases st; cases st'; have ha := h .A; have hb := h .B; simp only [State.side] at ha hb; simp [ha, hb]

/-! ### `upd` -/

@[simp] theorem upd_same {α : Type} (f : Nat → α) (k : Nat) (v : α) : upd f k v k = v := by simp [upd]
theorem upd_ne {α : Type} (f : Nat → α) {i k : Nat} (v : α) (h : i ≠ k) : upd f k v i = f i := by
  simp [upd, h]
theorem upd_apply {α : Type} (f : Nat → α) (k : Nat) (v : α) (i : Nat) :
    upd f k v i = if i = k then v else f i := rfl
@[simp] theorem upd_eq_self {α : Type} (f : Nat → α) (k : Nat) : upd f k (f k) = f := by
  funext i; simp only [upd]; split <;> simp_all

/-! ### `dataOf` -/

@[simp] theorem dataOf_nil (id : Nat) : dataOf id [] = [] := rfl
@[simp] theorem dataOf_cons_data (id i : Nat) (v : Item) (l : List Frame) :
    dataOf id (.data i v :: l) = if i = id then v :: dataOf id l else dataOf id l := rfl
@[simp] theorem dataOf_cons_close (id i : Nat) (l : List Frame) : dataOf id (.close i :: l) = dataOf id l := rfl
@[simp] theorem dataOf_cons_closeErr (id i e : Nat) (l : List Frame) :
    dataOf id (.closeErr i e :: l) = dataOf id l := rfl
@[simp] theorem dataOf_cons_lastMsg (id i : Nat) (l : List Frame) : dataOf id (.lastMsg i :: l) = dataOf id l := rfl
@[simp] theorem dataOf_cons_exec (id i : Nat) (l : List Frame) : dataOf id (.exec i :: l) = dataOf id l := rfl
@[simp] theorem dataOf_cons_terminate (id : Nat) (l : List Frame) : dataOf id (.terminate :: l) = dataOf id l := rfl

/-- a frame that is not a DATA frame -/
def Frame.isData : Frame → Bool
  | .data _ _ => true
  | _ => false

theorem dataOf_cons_of_not_isData (id : Nat) {f : Frame} (l : List Frame) (h : f.isData = false) :
    dataOf id (f :: l) = dataOf id l := by cases f <;> simp_all [Frame.isData]

@[simp] theorem dataOf_append (id : Nat) (l1 l2 : List Frame) :
    dataOf id (l1 ++ l2) = dataOf id l1 ++ dataOf id l2 := by
  induction l1 with
  | nil => rfl
  | cons f t ih => cases f <;> simp [ih]; split <;> simp

theorem dataOf_append_data (id i : Nat) (v : Item) (l : List Frame) :
    dataOf id (l ++ [.data i v]) = if i = id then dataOf id l ++ [v] else dataOf id l := by
  simp; split <;> simp
theorem dataOf_append_of_not_isData (id : Nat) {f : Frame} (l : List Frame) (h : f.isData = false) :
    dataOf id (l ++ [f]) = dataOf id l := by simp [dataOf_cons_of_not_isData id [] h]
@[simp] theorem closeFrame_isData (id : Nat) (err : Option Nat) : (closeFrame id err).isData = false := by
  cases err <;> rfl
@[simp] theorem dataOf_closeFrame (k id : Nat) (err : Option Nat) : dataOf k [closeFrame id err] = [] := by
  cases err <;> rfl

/-! ### `createChan` -/

theorem createChan_of_registered {c : Chan} (h : c.registered = true) : createChan c = c := by
  simp [createChan, h]
theorem createChan_of_not_registered {c : Chan} (h : c.registered = false) :
    createChan c = { created := true, registered := true, alive := true } := by simp [createChan, h]
@[simp] theorem createChan_registered (c : Chan) : (createChan c).registered = true := by
  unfold createChan; split <;> simp_all
@[simp] theorem createChan_idem (c : Chan) : createChan (createChan c) = createChan c :=
  createChan_of_registered (createChan_registered c)
theorem createChan_created_mono {c : Chan} (h : c.created = true) : (createChan c).created = true := by
  unfold createChan; split <;> simp_all
theorem createChan_alive_mono {c : Chan} (h : c.alive = true) : (createChan c).alive = true := by
  unfold createChan; split <;> simp_all
theorem createChan_created (c : Chan) : (createChan c).created = (c.created || !c.registered) := by
  unfold createChan; split <;> simp_all
theorem createChan_alive (c : Chan) : (createChan c).alive = (c.alive || !c.registered) := by
  unfold createChan; split <;> simp_all

/-! ### `registerAll` unfolding -/

@[simp] theorem registerAll_nil (x : SideSt) : registerAll x [] = x := rfl
@[simp] theorem registerAll_cons (x : SideSt) (k : Nat) (ids : List Nat) :
    registerAll x (k :: ids) = registerAll (createAt x k) ids := rfl
theorem registerAll_append (x : SideSt) (l1 l2 : List Nat) :
    registerAll x (l1 ++ l2) = registerAll (registerAll x l1) l2 := by simp [registerAll]

/-! ### `createAt`: changes `chans`, `broken` -/

@[simp] theorem createAt_cbs (x : SideSt) (id : Nat) : (createAt x id).cbs = x.cbs := rfl
@[simp] theorem createAt_count (x : SideSt) (id : Nat) : (createAt x id).count = x.count := rfl
@[simp] theorem createAt_finished (x : SideSt) (id : Nat) : (createAt x id).finished = x.finished := rfl
@[simp] theorem createAt_gwerr (x : SideSt) (id : Nat) : (createAt x id).gwerr = x.gwerr := rfl
@[simp] theorem createAt_ioOpen (x : SideSt) (id : Nat) : (createAt x id).ioOpen = x.ioOpen := rfl
@[simp] theorem createAt_out (x : SideSt) (id : Nat) : (createAt x id).out = x.out := rfl
@[simp] theorem createAt_sent (x : SideSt) (id : Nat) : (createAt x id).sent = x.sent := rfl
@[simp] theorem createAt_got (x : SideSt) (id : Nat) : (createAt x id).got = x.got := rfl
@[simp] theorem createAt_kept (x : SideSt) (id : Nat) : (createAt x id).kept = x.kept := rfl
@[simp] theorem createAt_delivered (x : SideSt) (id : Nat) : (createAt x id).delivered = x.delivered := rfl
@[simp] theorem createAt_cbLog (x : SideSt) (id : Nat) : (createAt x id).cbLog = x.cbLog := rfl
@[simp] theorem createAt_dropped (x : SideSt) (id : Nat) : (createAt x id).dropped = x.dropped := rfl
@[simp] theorem createAt_cbWants (x : SideSt) (id : Nat) : (createAt x id).cbWants = x.cbWants := rfl
@[simp] theorem createAt_ended (x : SideSt) (id : Nat) : (createAt x id).ended = x.ended := rfl
@[simp] theorem createAt_closeSeen (x : SideSt) (id : Nat) : (createAt x id).closeSeen = x.closeSeen := rfl
@[simp] theorem createAt_closeSent (x : SideSt) (id : Nat) : (createAt x id).closeSent = x.closeSent := rfl

/-! ### `registerAll`: changes `chans`, `broken` -/

@[simp] theorem registerAll_cbs (x : SideSt) (ids : List Nat) : (registerAll x ids).cbs = x.cbs := by
  induction ids generalizing x with
  | nil => rfl
  | cons k t ih => rw [registerAll_cons, ih]; rfl
@[simp] theorem registerAll_count (x : SideSt) (ids : List Nat) : (registerAll x ids).count = x.count := by
  induction ids generalizing x with
  | nil => rfl
  | cons k t ih => rw [registerAll_cons, ih]; rfl
@[simp] theorem registerAll_finished (x : SideSt) (ids : List Nat) : (registerAll x ids).finished = x.finished := by
  induction ids generalizing x with
  | nil => rfl
  | cons k t ih => rw [registerAll_cons, ih]; rfl
@[simp] theorem registerAll_gwerr (x : SideSt) (ids : List Nat) : (registerAll x ids).gwerr = x.gwerr := by
  induction ids generalizing x with
  | nil => rfl
  | cons k t ih => rw [registerAll_cons, ih]; rfl
@[simp] theorem registerAll_ioOpen (x : SideSt) (ids : List Nat) : (registerAll x ids).ioOpen = x.ioOpen := by
  induction ids generalizing x with
  | nil => rfl
  | cons k t ih => rw [registerAll_cons, ih]; rfl
@[simp] theorem registerAll_out (x : SideSt) (ids : List Nat) : (registerAll x ids).out = x.out := by
  induction ids generalizing x with
  | nil => rfl
  | cons k t ih => rw [registerAll_cons, ih]; rfl
@[simp] theorem registerAll_sent (x : SideSt) (ids : List Nat) : (registerAll x ids).sent = x.sent := by
  induction ids generalizing x with
  | nil => rfl
  | cons k t ih => rw [registerAll_cons, ih]; rfl
@[simp] theorem registerAll_got (x : SideSt) (ids : List Nat) : (registerAll x ids).got = x.got := by
  induction ids generalizing x with
  | nil => rfl
  | cons k t ih => rw [registerAll_cons, ih]; rfl
@[simp] theorem registerAll_kept (x : SideSt) (ids : List Nat) : (registerAll x ids).kept = x.kept := by
  induction ids generalizing x with
  | nil => rfl
  | cons k t ih => rw [registerAll_cons, ih]; rfl
@[simp] theorem registerAll_delivered (x : SideSt) (ids : List Nat) : (registerAll x ids).delivered = x.delivered := by
  induction ids generalizing x with
  | nil => rfl
  | cons k t ih => rw [registerAll_cons, ih]; rfl
@[simp] theorem registerAll_cbLog (x : SideSt) (ids : List Nat) : (registerAll x ids).cbLog = x.cbLog := by
  induction ids generalizing x with
  | nil => rfl
  | cons k t ih => rw [registerAll_cons, ih]; rfl
@[simp] theorem registerAll_dropped (x : SideSt) (ids : List Nat) : (registerAll x ids).dropped = x.dropped := by
  induction ids generalizing x with
  | nil => rfl
  | cons k t ih => rw [registerAll_cons, ih]; rfl
@[simp] theorem registerAll_cbWants (x : SideSt) (ids : List Nat) : (registerAll x ids).cbWants = x.cbWants := by
  induction ids generalizing x with
  | nil => rfl
  | cons k t ih => rw [registerAll_cons, ih]; rfl
@[simp] theorem registerAll_ended (x : SideSt) (ids : List Nat) : (registerAll x ids).ended = x.ended := by
  induction ids generalizing x with
  | nil => rfl
  | cons k t ih => rw [registerAll_cons, ih]; rfl
@[simp] theorem registerAll_closeSeen (x : SideSt) (ids : List Nat) : (registerAll x ids).closeSeen = x.closeSeen := by
  induction ids generalizing x with
  | nil => rfl
  | cons k t ih => rw [registerAll_cons, ih]; rfl
@[simp] theorem registerAll_closeSent (x : SideSt) (ids : List Nat) : (registerAll x ids).closeSent = x.closeSent := by
  induction ids generalizing x with
  | nil => rfl
  | cons k t ih => rw [registerAll_cons, ih]; rfl

/-! ### `noLongerOpened`: changes `chans`, `cbs`, `cbLog` -/

@[simp] theorem noLongerOpened_count (x : SideSt) (id : Nat) : (noLongerOpened x id).count = x.count := rfl
@[simp] theorem noLongerOpened_finished (x : SideSt) (id : Nat) : (noLongerOpened x id).finished = x.finished := rfl
@[simp] theorem noLongerOpened_gwerr (x : SideSt) (id : Nat) : (noLongerOpened x id).gwerr = x.gwerr := rfl
@[simp] theorem noLongerOpened_ioOpen (x : SideSt) (id : Nat) : (noLongerOpened x id).ioOpen = x.ioOpen := rfl
@[simp] theorem noLongerOpened_out (x : SideSt) (id : Nat) : (noLongerOpened x id).out = x.out := rfl
@[simp] theorem noLongerOpened_sent (x : SideSt) (id : Nat) : (noLongerOpened x id).sent = x.sent := rfl
@[simp] theorem noLongerOpened_got (x : SideSt) (id : Nat) : (noLongerOpened x id).got = x.got := rfl
@[simp] theorem noLongerOpened_kept (x : SideSt) (id : Nat) : (noLongerOpened x id).kept = x.kept := rfl
@[simp] theorem noLongerOpened_delivered (x : SideSt) (id : Nat) : (noLongerOpened x id).delivered = x.delivered := rfl
@[simp] theorem noLongerOpened_dropped (x : SideSt) (id : Nat) : (noLongerOpened x id).dropped = x.dropped := rfl
@[simp] theorem noLongerOpened_broken (x : SideSt) (id : Nat) : (noLongerOpened x id).broken = x.broken := rfl
@[simp] theorem noLongerOpened_cbWants (x : SideSt) (id : Nat) : (noLongerOpened x id).cbWants = x.cbWants := rfl
@[simp] theorem noLongerOpened_ended (x : SideSt) (id : Nat) : (noLongerOpened x id).ended = x.ended := rfl
@[simp] theorem noLongerOpened_closeSeen (x : SideSt) (id : Nat) : (noLongerOpened x id).closeSeen = x.closeSeen := rfl
@[simp] theorem noLongerOpened_closeSent (x : SideSt) (id : Nat) : (noLongerOpened x id).closeSent = x.closeSent := rfl

/-! ### `localClose`: changes `chans`, `cbs`, `cbLog`, `ended` -/

@[simp] theorem localClose_count (x : SideSt) (id : Nat) (err : Option Nat) (so : Bool) :
    (localClose x id err so).count = x.count := by
  simp only [localClose]; split <;> rfl
@[simp] theorem localClose_finished (x : SideSt) (id : Nat) (err : Option Nat) (so : Bool) :
    (localClose x id err so).finished = x.finished := by
  simp only [localClose]; split <;> rfl
@[simp] theorem localClose_gwerr (x : SideSt) (id : Nat) (err : Option Nat) (so : Bool) :
    (localClose x id err so).gwerr = x.gwerr := by
  simp only [localClose]; split <;> rfl
@[simp] theorem localClose_ioOpen (x : SideSt) (id : Nat) (err : Option Nat) (so : Bool) :
    (localClose x id err so).ioOpen = x.ioOpen := by
  simp only [localClose]; split <;> rfl
@[simp] theorem localClose_out (x : SideSt) (id : Nat) (err : Option Nat) (so : Bool) :
    (localClose x id err so).out = x.out := by
  simp only [localClose]; split <;> rfl
@[simp] theorem localClose_sent (x : SideSt) (id : Nat) (err : Option Nat) (so : Bool) :
    (localClose x id err so).sent = x.sent := by
  simp only [localClose]; split <;> rfl
@[simp] theorem localClose_got (x : SideSt) (id : Nat) (err : Option Nat) (so : Bool) :
    (localClose x id err so).got = x.got := by
  simp only [localClose]; split <;> rfl
@[simp] theorem localClose_kept (x : SideSt) (id : Nat) (err : Option Nat) (so : Bool) :
    (localClose x id err so).kept = x.kept := by
  simp only [localClose]; split <;> rfl
@[simp] theorem localClose_delivered (x : SideSt) (id : Nat) (err : Option Nat) (so : Bool) :
    (localClose x id err so).delivered = x.delivered := by
  simp only [localClose]; split <;> rfl
@[simp] theorem localClose_dropped (x : SideSt) (id : Nat) (err : Option Nat) (so : Bool) :
    (localClose x id err so).dropped = x.dropped := by
  simp only [localClose]; split <;> rfl
@[simp] theorem localClose_broken (x : SideSt) (id : Nat) (err : Option Nat) (so : Bool) :
    (localClose x id err so).broken = x.broken := by
  simp only [localClose]; split <;> rfl
@[simp] theorem localClose_cbWants (x : SideSt) (id : Nat) (err : Option Nat) (so : Bool) :
    (localClose x id err so).cbWants = x.cbWants := by
  simp only [localClose]; split <;> rfl
@[simp] theorem localClose_closeSeen (x : SideSt) (id : Nat) (err : Option Nat) (so : Bool) :
    (localClose x id err so).closeSeen = x.closeSeen := by
  simp only [localClose]; split <;> rfl
@[simp] theorem localClose_closeSent (x : SideSt) (id : Nat) (err : Option Nat) (so : Bool) :
    (localClose x id err so).closeSent = x.closeSent := by
  simp only [localClose]; split <;> rfl

/-! ### `doClose`: changes `chans`, `cbs`, `cbLog`, `ended`, `out`, `closeSent` -/

@[simp] theorem doClose_count (x : SideSt) (id : Nat) (fr : Frame) : (doClose x id fr).2.count = x.count := by
  simp only [doClose]; repeat' split
  all_goals rfl
@[simp] theorem doClose_finished (x : SideSt) (id : Nat) (fr : Frame) : (doClose x id fr).2.finished = x.finished := by
  simp only [doClose]; repeat' split
  all_goals rfl
@[simp] theorem doClose_gwerr (x : SideSt) (id : Nat) (fr : Frame) : (doClose x id fr).2.gwerr = x.gwerr := by
  simp only [doClose]; repeat' split
  all_goals rfl
@[simp] theorem doClose_ioOpen (x : SideSt) (id : Nat) (fr : Frame) : (doClose x id fr).2.ioOpen = x.ioOpen := by
  simp only [doClose]; repeat' split
  all_goals rfl
@[simp] theorem doClose_sent (x : SideSt) (id : Nat) (fr : Frame) : (doClose x id fr).2.sent = x.sent := by
  simp only [doClose]; repeat' split
  all_goals rfl
@[simp] theorem doClose_got (x : SideSt) (id : Nat) (fr : Frame) : (doClose x id fr).2.got = x.got := by
  simp only [doClose]; repeat' split
  all_goals rfl
@[simp] theorem doClose_kept (x : SideSt) (id : Nat) (fr : Frame) : (doClose x id fr).2.kept = x.kept := by
  simp only [doClose]; repeat' split
  all_goals rfl
@[simp] theorem doClose_delivered (x : SideSt) (id : Nat) (fr : Frame) : (doClose x id fr).2.delivered = x.delivered := by
  simp only [doClose]; repeat' split
  all_goals rfl
@[simp] theorem doClose_dropped (x : SideSt) (id : Nat) (fr : Frame) : (doClose x id fr).2.dropped = x.dropped := by
  simp only [doClose]; repeat' split
  all_goals rfl
@[simp] theorem doClose_broken (x : SideSt) (id : Nat) (fr : Frame) : (doClose x id fr).2.broken = x.broken := by
  simp only [doClose]; repeat' split
  all_goals rfl
@[simp] theorem doClose_cbWants (x : SideSt) (id : Nat) (fr : Frame) : (doClose x id fr).2.cbWants = x.cbWants := by
  simp only [doClose]; repeat' split
  all_goals rfl
@[simp] theorem doClose_closeSeen (x : SideSt) (id : Nat) (fr : Frame) : (doClose x id fr).2.closeSeen = x.closeSeen := by
  simp only [doClose]; repeat' split
  all_goals rfl

/-! ### `chanClose`: changes `chans`, `cbs`, `cbLog`, `ended`, `out`, `closeSent` -/

@[simp] theorem chanClose_count (x : SideSt) (id : Nat) (err : Option Nat) : (chanClose x id err).2.count = x.count := by
  simp only [chanClose]; repeat' split
  all_goals first | rfl | exact doClose_count ..
@[simp] theorem chanClose_finished (x : SideSt) (id : Nat) (err : Option Nat) : (chanClose x id err).2.finished = x.finished := by
  simp only [chanClose]; repeat' split
  all_goals first | rfl | exact doClose_finished ..
@[simp] theorem chanClose_gwerr (x : SideSt) (id : Nat) (err : Option Nat) : (chanClose x id err).2.gwerr = x.gwerr := by
  simp only [chanClose]; repeat' split
  all_goals first | rfl | exact doClose_gwerr ..
@[simp] theorem chanClose_ioOpen (x : SideSt) (id : Nat) (err : Option Nat) : (chanClose x id err).2.ioOpen = x.ioOpen := by
  simp only [chanClose]; repeat' split
  all_goals first | rfl | exact doClose_ioOpen ..
@[simp] theorem chanClose_sent (x : SideSt) (id : Nat) (err : Option Nat) : (chanClose x id err).2.sent = x.sent := by
  simp only [chanClose]; repeat' split
  all_goals first | rfl | exact doClose_sent ..
@[simp] theorem chanClose_got (x : SideSt) (id : Nat) (err : Option Nat) : (chanClose x id err).2.got = x.got := by
  simp only [chanClose]; repeat' split
  all_goals first | rfl | exact doClose_got ..
@[simp] theorem chanClose_kept (x : SideSt) (id : Nat) (err : Option Nat) : (chanClose x id err).2.kept = x.kept := by
  simp only [chanClose]; repeat' split
  all_goals first | rfl | exact doClose_kept ..
@[simp] theorem chanClose_delivered (x : SideSt) (id : Nat) (err : Option Nat) : (chanClose x id err).2.delivered = x.delivered := by
  simp only [chanClose]; repeat' split
  all_goals first | rfl | exact doClose_delivered ..
@[simp] theorem chanClose_dropped (x : SideSt) (id : Nat) (err : Option Nat) : (chanClose x id err).2.dropped = x.dropped := by
  simp only [chanClose]; repeat' split
  all_goals first | rfl | exact doClose_dropped ..
@[simp] theorem chanClose_broken (x : SideSt) (id : Nat) (err : Option Nat) : (chanClose x id err).2.broken = x.broken := by
  simp only [chanClose]; repeat' split
  all_goals first | rfl | exact doClose_broken ..
@[simp] theorem chanClose_cbWants (x : SideSt) (id : Nat) (err : Option Nat) : (chanClose x id err).2.cbWants = x.cbWants := by
  simp only [chanClose]; repeat' split
  all_goals first | rfl | exact doClose_cbWants ..
@[simp] theorem chanClose_closeSeen (x : SideSt) (id : Nat) (err : Option Nat) : (chanClose x id err).2.closeSeen = x.closeSeen := by
  simp only [chanClose]; repeat' split
  all_goals first | rfl | exact doClose_closeSeen ..

/-! ### `epilogue`: changes `gwerr`, `finished`, `ioOpen`, `chans`, `cbs`, `ended`, `cbLog` -/

@[simp] theorem epilogue_count (x : SideSt) (isCut : Bool) : (epilogue x isCut).count = x.count := rfl
@[simp] theorem epilogue_out (x : SideSt) (isCut : Bool) : (epilogue x isCut).out = x.out := rfl
@[simp] theorem epilogue_sent (x : SideSt) (isCut : Bool) : (epilogue x isCut).sent = x.sent := rfl
@[simp] theorem epilogue_got (x : SideSt) (isCut : Bool) : (epilogue x isCut).got = x.got := rfl
@[simp] theorem epilogue_kept (x : SideSt) (isCut : Bool) : (epilogue x isCut).kept = x.kept := rfl
@[simp] theorem epilogue_delivered (x : SideSt) (isCut : Bool) : (epilogue x isCut).delivered = x.delivered := rfl
@[simp] theorem epilogue_dropped (x : SideSt) (isCut : Bool) : (epilogue x isCut).dropped = x.dropped := rfl
@[simp] theorem epilogue_broken (x : SideSt) (isCut : Bool) : (epilogue x isCut).broken = x.broken := rfl
@[simp] theorem epilogue_cbWants (x : SideSt) (isCut : Bool) : (epilogue x isCut).cbWants = x.cbWants := rfl
@[simp] theorem epilogue_closeSeen (x : SideSt) (isCut : Bool) : (epilogue x isCut).closeSeen = x.closeSeen := rfl
@[simp] theorem epilogue_closeSent (x : SideSt) (isCut : Bool) : (epilogue x isCut).closeSent = x.closeSent := rfl

/-! ### changed fields: `createAt`, `registerAll` -/

@[simp] theorem createAt_chans (x : SideSt) (id : Nat) :
    (createAt x id).chans = upd x.chans id (createChan (x.chans id)) := rfl
theorem createAt_chans_ne (x : SideSt) {id k : Nat} (h : k ≠ id) : (createAt x id).chans k = x.chans k := by
  simp [upd_ne _ _ h]
theorem createAt_chans_same (x : SideSt) (id : Nat) : (createAt x id).chans id = createChan (x.chans id) := by
  simp
@[simp] theorem createAt_broken (x : SideSt) (id : Nat) :
    (createAt x id).broken = upd x.broken id
      (x.broken id || (((x.chans id).created || x.ended id) && !(x.chans id).registered)) := rfl

/-- `registerAll` applies `createChan` (idempotent) to exactly the listed ids -/
theorem registerAll_chans (x : SideSt) (ids : List Nat) (k : Nat) :
    (registerAll x ids).chans k = if k ∈ ids then createChan (x.chans k) else x.chans k := by
  induction ids generalizing x with
  | nil => simp
  | cons i t ih =>
    rw [registerAll_cons, ih]
    by_cases hk : k = i
    · subst hk; simp
    · simp [hk, upd_ne _ _ hk]
theorem registerAll_chans_of_not_mem (x : SideSt) {ids : List Nat} {k : Nat} (h : k ∉ ids) :
    (registerAll x ids).chans k = x.chans k := by simp [registerAll_chans, h]
theorem registerAll_chans_of_mem (x : SideSt) {ids : List Nat} {k : Nat} (h : k ∈ ids) :
    (registerAll x ids).chans k = createChan (x.chans k) := by simp [registerAll_chans, h]
theorem registerAll_broken_of_not_mem (x : SideSt) {ids : List Nat} {k : Nat} (h : k ∉ ids) :
    (registerAll x ids).broken k = x.broken k := by
  induction ids generalizing x with
  | nil => rfl
  | cons i t ih =>
    simp only [List.mem_cons, not_or] at h
    rw [registerAll_cons, ih _ h.2]; simp [upd_ne _ _ h.1]
theorem registerAll_broken_mono (x : SideSt) (ids : List Nat) {k : Nat} (h : x.broken k = true) :
    (registerAll x ids).broken k = true := by
  induction ids generalizing x with
  | nil => exact h
  | cons i t ih =>
    rw [registerAll_cons]; apply ih
    by_cases hk : k = i
    · subst hk; simp [h]
    · simp [upd_ne _ _ hk, h]

/-! ### changed fields: `noLongerOpened`, `localClose` -/

@[simp] theorem noLongerOpened_chans (x : SideSt) (id : Nat) :
    (noLongerOpened x id).chans = upd x.chans id { x.chans id with registered := false } := rfl
@[simp] theorem noLongerOpened_cbs (x : SideSt) (id : Nat) : (noLongerOpened x id).cbs = upd x.cbs id none := rfl
@[simp] theorem noLongerOpened_cbLog (x : SideSt) (id : Nat) :
    (noLongerOpened x id).cbLog = upd x.cbLog id (match x.cbs id with
      | some true => x.cbLog id ++ [.endmarker]
      | _ => x.cbLog id) := rfl

theorem localClose_chans_ne (x : SideSt) {id k : Nat} (err : Option Nat) (so : Bool) (h : k ≠ id) :
    (localClose x id err so).chans k = x.chans k := by
  simp only [localClose]; split <;> simp [upd_ne _ _ h]
@[simp] theorem localClose_chans_created (x : SideSt) (id k : Nat) (err : Option Nat) (so : Bool) :
    ((localClose x id err so).chans k).created = (x.chans k).created := by
  by_cases h : k = id
  · subst h; simp only [localClose]; split <;> simp
  · rw [localClose_chans_ne _ _ _ h]
@[simp] theorem localClose_chans_alive (x : SideSt) (id k : Nat) (err : Option Nat) (so : Bool) :
    ((localClose x id err so).chans k).alive = (x.chans k).alive := by
  by_cases h : k = id
  · subst h; simp only [localClose]; split <;> simp
  · rw [localClose_chans_ne _ _ _ h]
@[simp] theorem localClose_chans_executing (x : SideSt) (id k : Nat) (err : Option Nat) (so : Bool) :
    ((localClose x id err so).chans k).executing = (x.chans k).executing := by
  by_cases h : k = id
  · subst h; simp only [localClose]; split <;> simp
  · rw [localClose_chans_ne _ _ _ h]
@[simp] theorem localClose_chans_registered_same (x : SideSt) (id : Nat) (err : Option Nat) (so : Bool) :
    ((localClose x id err so).chans id).registered = false := by
  simp only [localClose]; split <;> simp
@[simp] theorem localClose_ended (x : SideSt) (id : Nat) (err : Option Nat) (so : Bool) :
    (localClose x id err so).ended = upd x.ended id true := by
  simp only [localClose]; split <;> rfl
@[simp] theorem localClose_cbs (x : SideSt) (id : Nat) (err : Option Nat) (so : Bool) :
    (localClose x id err so).cbs = upd x.cbs id none := by
  simp only [localClose]; split <;> rfl
@[simp] theorem localClose_cbLog (x : SideSt) (id : Nat) (err : Option Nat) (so : Bool) :
    (localClose x id err so).cbLog = upd x.cbLog id (match x.cbs id with
      | some true => x.cbLog id ++ [.endmarker]
      | _ => x.cbLog id) := by
  simp only [localClose]; split <;> rfl

/-! ### changed fields: `doClose`, `chanClose` -/

theorem doClose_out (x : SideSt) (id : Nat) (fr : Frame) :
    (doClose x id fr).2.out = if (doClose x id fr).1 = .ok ∧ x.ioOpen = true then x.out ++ [fr] else x.out := by
  simp only [doClose]; split
  · simp
  · split <;> simp_all
theorem doClose_out' (x : SideSt) (id : Nat) (fr : Frame) :
    (doClose x id fr).2.out = if x.ioOpen = true then x.out ++ [fr] else x.out := by
  simp only [doClose]; split
  · simp_all
  · split <;> simp_all
theorem doClose_chans_ne (x : SideSt) {id k : Nat} (fr : Frame) (h : k ≠ id) :
    ((doClose x id fr).2.chans k) = x.chans k := by
  simp only [doClose]; split
  · rfl
  · split <;> simp [upd_ne _ _ h]
@[simp] theorem doClose_chans_created (x : SideSt) (id k : Nat) (fr : Frame) :
    ((doClose x id fr).2.chans k).created = (x.chans k).created := by
  by_cases h : k = id
  · subst h; simp only [doClose]; split
    · rfl
    · split <;> simp
  · rw [doClose_chans_ne _ _ h]
@[simp] theorem doClose_chans_alive (x : SideSt) (id k : Nat) (fr : Frame) :
    ((doClose x id fr).2.chans k).alive = (x.chans k).alive := by
  by_cases h : k = id
  · subst h; simp only [doClose]; split
    · rfl
    · split <;> simp
  · rw [doClose_chans_ne _ _ h]
@[simp] theorem doClose_chans_executing (x : SideSt) (id k : Nat) (fr : Frame) :
    ((doClose x id fr).2.chans k).executing = (x.chans k).executing := by
  by_cases h : k = id
  · subst h; simp only [doClose]; split
    · rfl
    · split <;> simp
  · rw [doClose_chans_ne _ _ h]

/-- `chanClose` appends at most its closing frame -/
theorem chanClose_out (x : SideSt) (id : Nat) (err : Option Nat) :
    (chanClose x id err).2.out = x.out ∨ (chanClose x id err).2.out = x.out ++ [closeFrame id err] := by
  simp only [chanClose]; repeat' split
  all_goals first | (left; rfl) | skip
  rw [doClose_out']; split <;> simp
@[simp] theorem chanClose_dataOf_out (x : SideSt) (id k : Nat) (err : Option Nat) :
    dataOf k (chanClose x id err).2.out = dataOf k x.out := by
  rcases chanClose_out x id err with h | h <;> rw [h] <;> simp
theorem chanClose_chans_ne (x : SideSt) {id k : Nat} (err : Option Nat) (h : k ≠ id) :
    ((chanClose x id err).2.chans k) = x.chans k := by
  simp only [chanClose]; repeat' split
  all_goals first | rfl | exact doClose_chans_ne _ _ h
@[simp] theorem chanClose_chans_created (x : SideSt) (id k : Nat) (err : Option Nat) :
    ((chanClose x id err).2.chans k).created = (x.chans k).created := by
  simp only [chanClose]; repeat' split
  all_goals first | rfl | exact doClose_chans_created ..
@[simp] theorem chanClose_chans_alive (x : SideSt) (id k : Nat) (err : Option Nat) :
    ((chanClose x id err).2.chans k).alive = (x.chans k).alive := by
  simp only [chanClose]; repeat' split
  all_goals first | rfl | exact doClose_chans_alive ..
@[simp] theorem chanClose_chans_executing (x : SideSt) (id k : Nat) (err : Option Nat) :
    ((chanClose x id err).2.chans k).executing = (x.chans k).executing := by
  simp only [chanClose]; repeat' split
  all_goals first | rfl | exact doClose_chans_executing ..

/-! ### changed fields: `epilogue` -/

@[simp] theorem epilogue_finished (x : SideSt) (isCut : Bool) : (epilogue x isCut).finished = true := rfl
@[simp] theorem epilogue_ioOpen (x : SideSt) (isCut : Bool) : (epilogue x isCut).ioOpen = false := rfl
@[simp] theorem epilogue_gwerr (x : SideSt) (isCut : Bool) : (epilogue x isCut).gwerr = (x.gwerr || isCut) := rfl
@[simp] theorem epilogue_cbs (x : SideSt) (isCut : Bool) (id : Nat) : (epilogue x isCut).cbs id = none := rfl
@[simp] theorem epilogue_chans_created (x : SideSt) (isCut : Bool) (k : Nat) :
    ((epilogue x isCut).chans k).created = (x.chans k).created := by
  simp only [epilogue]; split <;> rfl
@[simp] theorem epilogue_chans_alive (x : SideSt) (isCut : Bool) (k : Nat) :
    ((epilogue x isCut).chans k).alive = (x.chans k).alive := by
  simp only [epilogue]; split <;> rfl
@[simp] theorem epilogue_chans_executing (x : SideSt) (isCut : Bool) (k : Nat) :
    ((epilogue x isCut).chans k).executing = (x.chans k).executing := by
  simp only [epilogue]; split <;> rfl
@[simp] theorem epilogue_chans_registered (x : SideSt) (isCut : Bool) (k : Nat) :
    ((epilogue x isCut).chans k).registered = false := by
  simp only [epilogue]; split <;> simp_all

/-! ### `handle` -/

@[simp] theorem handle_count (fails : Item → Bool) (x : SideSt) (w : Bool) (f : Frame) :
    (handle fails x w f).count = x.count := by
  cases f <;> simp only [handle]
  all_goals repeat' split
  all_goals first | rfl | simp
@[simp] theorem handle_sent (fails : Item → Bool) (x : SideSt) (w : Bool) (f : Frame) :
    (handle fails x w f).sent = x.sent := by
  cases f <;> simp only [handle]
  all_goals repeat' split
  all_goals first | rfl | simp
@[simp] theorem handle_cbWants (fails : Item → Bool) (x : SideSt) (w : Bool) (f : Frame) :
    (handle fails x w f).cbWants = x.cbWants := by
  cases f <;> simp only [handle]
  all_goals repeat' split
  all_goals first | rfl | simp
@[simp] theorem handle_gwerr (fails : Item → Bool) (x : SideSt) (w : Bool) (f : Frame) :
    (handle fails x w f).gwerr = x.gwerr := by
  cases f <;> simp only [handle]
  all_goals repeat' split
  all_goals first | rfl | simp

/-- only a DATA frame extends `delivered` -/
theorem handle_delivered (fails : Item → Bool) (x : SideSt) (w : Bool) (f : Frame) :
    (handle fails x w f).delivered = match f with
      | .data id v => upd x.delivered id (x.delivered id ++ [v])
      | _ => x.delivered := by
  cases f <;> simp only [handle]
  all_goals repeat' split
  all_goals first | rfl | simp
@[simp] theorem handle_delivered_data (fails : Item → Bool) (x : SideSt) (w : Bool) (id : Nat) (v : Item) :
    (handle fails x w (.data id v)).delivered = upd x.delivered id (x.delivered id ++ [v]) := by
  rw [handle_delivered]
theorem handle_delivered_of_not_isData (fails : Item → Bool) (x : SideSt) (w : Bool) {f : Frame}
    (h : f.isData = false) : (handle fails x w f).delivered = x.delivered := by
  rw [handle_delivered]; cases f <;> simp_all [Frame.isData]

/-- the receiver writes at most one frame, a `closeErr` for a failed callback -/
theorem handle_out (fails : Item → Bool) (x : SideSt) (w : Bool) (f : Frame) :
    (handle fails x w f).out = x.out ∨
    ∃ id v, f = .data id v ∧ (x.cbs id).isSome = true ∧ fails v = true ∧ x.ioOpen = true ∧
      (handle fails x w f).out = x.out ++ [.closeErr id v.val] := by
  cases f <;> simp only [handle]
  all_goals repeat' split
  all_goals first | (left; rfl) | (left; simp; done) | skip
  all_goals (right; exact ⟨_, _, rfl, by simp_all⟩)
@[simp] theorem handle_dataOf_out (fails : Item → Bool) (x : SideSt) (w : Bool) (f : Frame) (k : Nat) :
    dataOf k (handle fails x w f).out = dataOf k x.out := by
  rcases handle_out fails x w f with h | ⟨id, v, -, -, -, -, h⟩ <;> rw [h] <;> simp

/-- the frame ends the receiver thread: GATEWAY_TERMINATE, or a DATA frame whose callback fails while
the IO is already closed (the CLOSE_ERROR cannot be written; the OSError escapes the handler) -/
def endsReceiver (fails : Item → Bool) (x : SideSt) : Frame → Bool
  | .terminate => true
  | .data id v => (x.cbs id).isSome && fails v && !x.ioOpen
  | _ => false

/-- `finished` only changes on a receiver-ending frame -/
theorem handle_finished (fails : Item → Bool) (x : SideSt) (w : Bool) (f : Frame) :
    (handle fails x w f).finished = (x.finished || endsReceiver fails x f) := by
  cases f <;> simp only [handle, endsReceiver]
  all_goals repeat' split
  all_goals simp_all

/-- the channel ids a frame makes its receiver create records for -/
def Frame.ids : Frame → List Nat
  | .data _ v => v.chans
  | .exec id => [id]
  | _ => []

/-- effect of the receiver on `kept`/`delivered`/`dropped`: a DATA frame is appended to `delivered`
and either appended to `kept` or marks the id `dropped`; other frames change none of the three -/
theorem handle_kept_delivered_dropped (fails : Item → Bool) (x : SideSt) (w : Bool) (f : Frame) :
    (∃ id v, f = .data id v ∧
      (handle fails x w f).delivered = upd x.delivered id (x.delivered id ++ [v]) ∧
      (((handle fails x w f).kept = upd x.kept id (x.kept id ++ [v]) ∧ (handle fails x w f).dropped = x.dropped) ∨
       ((handle fails x w f).kept = x.kept ∧ (handle fails x w f).dropped = upd x.dropped id true))) ∨
    (f.isData = false ∧ (handle fails x w f).delivered = x.delivered ∧
      (handle fails x w f).kept = x.kept ∧ (handle fails x w f).dropped = x.dropped) := by
  cases f
  case data id v =>
    left; refine ⟨id, v, rfl, by simp, ?_⟩
    simp only [handle]
    repeat' split
    all_goals simp
  all_goals right; refine ⟨rfl, ?_⟩; simp only [handle]
  all_goals repeat' split
  all_goals simp

/-- the receiver creates records only for the ids contained in the frame; `created`/`alive` of any
record either stay or become those of `createChan` -/
theorem handle_chans_created_alive (fails : Item → Bool) (x : SideSt) (w : Bool) (f : Frame) (k : Nat) :
    (((handle fails x w f).chans k).created = (x.chans k).created ∧
      ((handle fails x w f).chans k).alive = (x.chans k).alive) ∨
    (k ∈ f.ids ∧ ((handle fails x w f).chans k).created = (createChan (x.chans k)).created ∧
      ((handle fails x w f).chans k).alive = (createChan (x.chans k)).alive) := by
  cases f <;> simp only [handle, Frame.ids]
  all_goals repeat' split
  all_goals simp [registerAll_chans, upd_apply]
  all_goals repeat' split
  all_goals simp_all

/-! ### `alive → created` is preserved by record creation -/

theorem createChan_alive_created {c : Chan} (h : c.alive = true → c.created = true) :
    (createChan c).alive = true → (createChan c).created = true := by
  unfold createChan; split <;> simp_all

theorem createAt_alive_created {x : SideSt} {id : Nat}
    (h : ∀ k, (x.chans k).alive = true → (x.chans k).created = true) (k : Nat) :
    ((createAt x id).chans k).alive = true → ((createAt x id).chans k).created = true := by
  simp only [createAt_chans, upd_apply]; split
  · rename_i hk; subst hk; exact createChan_alive_created (h _)
  · exact h k

theorem createAt_created {x : SideSt} {id k : Nat} (h : ((createAt x id).chans k).created = true) :
    (x.chans k).created = true ∨ k = id := by
  simp only [createAt_chans, upd_apply] at h; split at h
  · right; assumption
  · left; exact h

/-! ### outputs of `doClose` / `chanClose` -/

theorem doClose_fst (x : SideSt) (id : Nat) (fr : Frame) :
    (doClose x id fr).1 = .ok ∨ (doClose x id fr).1 = .osError := by
  simp only [doClose]; split <;> simp
theorem chanClose_fst (x : SideSt) (id : Nat) (err : Option Nat) :
    (chanClose x id err).1 = .ok ∨ (chanClose x id err).1 = .osError := by
  simp only [chanClose]; repeat' split
  all_goals first | (left; rfl) | (right; rfl) | exact doClose_fst ..
theorem chanClose_fst_ne_chan (x : SideSt) (id : Nat) (err : Option Nat) (k : Nat) :
    (chanClose x id err).1 ≠ .chan k := by
  rcases chanClose_fst x id err with h | h <;> simp [h]

end ExecnetVerif.Net
