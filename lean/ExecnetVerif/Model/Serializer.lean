/-
L1 (serializer): `_Serializer` (encoder) and `Unserializer` (21-opcode stack machine) of
`gateway_base.py`, dump format version 2.

The opcode letters and layouts in this file are the *frozen specification* of the format (C12):
they are written from the format description, not regenerated from the code.  The translator
regenerates `Generated/Tables.lean` from the code and `Props/C12.lean` proves the two agree.
-/
import ExecnetVerif.Model.Value
namespace ExecnetVerif

def opBUILDTUPLE : UInt8 := 64  -- '@'
def opBYTES      : UInt8 := 65  -- 'A'
def opCHANNEL    : UInt8 := 66  -- 'B'
def opFALSE      : UInt8 := 67  -- 'C'
def opFLOAT      : UInt8 := 68  -- 'D'
def opFROZENSET  : UInt8 := 69  -- 'E'
def opINT        : UInt8 := 70  -- 'F'
def opLONG       : UInt8 := 71  -- 'G'
def opLONGINT    : UInt8 := 72  -- 'H'
def opLONGLONG   : UInt8 := 73  -- 'I'
def opNEWDICT    : UInt8 := 74  -- 'J'
def opNEWLIST    : UInt8 := 75  -- 'K'
def opNONE       : UInt8 := 76  -- 'L'
def opPY2STRING  : UInt8 := 77  -- 'M'
def opPY3STRING  : UInt8 := 78  -- 'N'
def opSET        : UInt8 := 79  -- 'O'
def opSETITEM    : UInt8 := 80  -- 'P'
def opSTOP       : UInt8 := 81  -- 'Q'
def opTRUE       : UInt8 := 82  -- 'R'
def opUNICODE    : UInt8 := 83  -- 'S'
def opCOMPLEX    : UInt8 := 84  -- 'T'

def dumpVersion : UInt8 := 2

/-- the frozen opcode table of dump format 2: (name, letter) -/
def specOpcodeTable : List (String × Nat) :=
  [("BUILDTUPLE", 64), ("BYTES", 65), ("CHANNEL", 66), ("FALSE", 67), ("FLOAT", 68),
   ("FROZENSET", 69), ("INT", 70), ("LONG", 71), ("LONGINT", 72), ("LONGLONG", 73),
   ("NEWDICT", 74), ("NEWLIST", 75), ("NONE", 76), ("PY2STRING", 77), ("PY3STRING", 78),
   ("SET", 79), ("SETITEM", 80), ("STOP", 81), ("TRUE", 82), ("UNICODE", 83), ("COMPLEX", 84)]

/-! ## encoder -/

/-- `_save_integral` with INT/LONGINT: 4-byte two's complement when the value fits a signed
32-bit field, decimal text otherwise (both sides of the range). -/
def encInt (i : Int) : Bytes :=
  if inI32 i then opINT :: packI32 i
  else opLONGINT :: (be4 (intText i).length ++ intText i)

mutual
/-- the bytes `_Serializer._save` writes for a value (meaningful when `dumpErr v = none`) -/
def enc : PyVal → Bytes
  | .none => [opNONE]
  | .bool b => if b then [opTRUE] else [opFALSE]
  | .int i => encInt i
  | .float b => opFLOAT :: be8 b
  | .complex r i => opCOMPLEX :: (be8 r ++ be8 i)
  | .bytes b => opBYTES :: (be4 b.length ++ b)
  | .str s => opPY3STRING :: (be4 (utf8Encode s).length ++ utf8Encode s)
  | .badstr => []
  | .list xs => opNEWLIST :: (be4 xs.length ++ encItems 0 xs)
  | .tuple xs => encAll xs ++ opBUILDTUPLE :: be4 xs.length
  | .dict kvs => opNEWDICT :: encPairs kvs
  | .set xs => encAll xs ++ opSET :: be4 xs.length
  | .frozenset xs => encAll xs ++ opFROZENSET :: be4 xs.length
  | .channel id => opCHANNEL :: packI32 id
  | .foreign => []
/-- list items: index, item, SETITEM -/
def encItems : Nat → List PyVal → Bytes
  | _, [] => []
  | i, x :: xs => encInt i ++ (enc x ++ opSETITEM :: encItems (i + 1) xs)
def encAll : List PyVal → Bytes
  | [] => []
  | x :: xs => enc x ++ encAll xs
/-- dict items: key, value, SETITEM -/
def encPairs : List (PyVal × PyVal) → Bytes
  | [] => []
  | (k, v) :: rest => enc k ++ (enc v ++ opSETITEM :: encPairs rest)
end

inductive DumpErr where
  /-- DumpError("can't serialize <type>") -/
  | cantSerialize
  /-- DumpError("strings must be utf-8 encodable") -/
  | notUtf8
  /-- DumpError("... is too long" / "int must be less than") -/
  | tooLong
  /-- not a DumpError: CPython's ValueError for int -> str conversion above
  `sys.get_int_max_str_digits()` digits (known finding D3) -/
  | digitLimit
  deriving DecidableEq, Repr

def lenErr (n : Nat) : Option DumpErr := if n < two31 then none else some .tooLong

def orElse' (a : Option DumpErr) (b : Option DumpErr) : Option DumpErr :=
  match a with
  | some e => some e
  | none => b

mutual
/-- the first error `_save` runs into, in its traversal order; `none` = the dump succeeds -/
def dumpErr : PyVal → Option DumpErr
  | .none | .bool _ | .float _ | .complex _ _ => none
  | .int i => if inI32 i then none else if numDigits i > maxStrDigits then some .digitLimit else none
  | .bytes b => lenErr b.length
  | .str s => lenErr (utf8Encode s).length
  | .badstr => some .notUtf8
  | .list xs => orElse' (lenErr xs.length) (dumpErrAll xs)
  | .tuple xs => orElse' (dumpErrAll xs) (lenErr xs.length)
  | .dict kvs => dumpErrPairs kvs
  | .set xs => orElse' (dumpErrAll xs) (lenErr xs.length)
  | .frozenset xs => orElse' (dumpErrAll xs) (lenErr xs.length)
  | .channel id => if id ≤ 2147483647 then none else some .tooLong
  | .foreign => some .cantSerialize
def dumpErrAll : List PyVal → Option DumpErr
  | [] => none
  | x :: xs => orElse' (dumpErr x) (dumpErrAll xs)
def dumpErrPairs : List (PyVal × PyVal) → Option DumpErr
  | [] => none
  | (k, v) :: rest => orElse' (dumpErr k) (orElse' (dumpErr v) (dumpErrPairs rest))
end

/-- `dumps_internal(v)` -/
def encodeInternal (v : PyVal) : Except DumpErr Bytes :=
  match dumpErr v with
  | some e => .error e
  | none => .ok (enc v ++ [opSTOP])

/-- `dumps(v)` -/
def dumps (v : PyVal) : Except DumpErr Bytes :=
  match dumpErr v with
  | some e => .error e
  | none => .ok (dumpVersion :: (enc v ++ [opSTOP]))

/-! ## loader -/

structure Cfg where
  py2str_as_py3str : Bool
  py3str_as_py2str : Bool
  /-- a channel factory is available (`loads_internal` inside a gateway) -/
  hasFactory : Bool
  /-- finite memory: a NEWLIST count above this limit ends in MemoryError (`none` = unbounded).
  The real loader trusts the count (known finding D6); the limit lets the model say so without
  building the list. -/
  memLimit : Option Nat := none

/-- `loads`/`load` defaults -/
def cfgPublic : Cfg := ⟨false, false, false, none⟩

inductive LoadErr where
  /-- EOFError: the input ended early -/
  | eof
  /-- DataFormatError (LoadError) -/
  | dataFormat
  /-- MemoryError: a length field demanded more memory than is available (known finding D6) -/
  | memory
  deriving DecidableEq, Repr

inductive Res where
  | cont (rest : Bytes) (stack : List PyVal)
  | stop (stack : List PyVal)
  | err (e : LoadErr)

/-- `_read_int4` with an exact-length read -/
def rdI32 (bs : Bytes) (k : Int → Bytes → Res) : Res :=
  match rd4 bs with
  | some (n, r) => k (ofU32 n) r
  | none => .err .eof

/-- `_read_byte_string`: signed length, exact-length read; a negative length is corruption -/
def rdBytes (bs : Bytes) (k : Bytes → Bytes → Res) : Res :=
  rdI32 bs fun n r =>
    if n < 0 then .err .dataFormat
    else match readN n.toNat r with
      | some (b, r') => k b r'
      | none => .err .eof

/-- Python slice `stack[-n:]` / `del stack[-n:]` for a non-zero `n` on a stack whose top is the
list head: the items in push order and the remaining stack. -/
def popN (n : Int) (st : List PyVal) : List PyVal × List PyVal :=
  if n > 0 then ((st.take n.toNat).reverse, st.drop n.toNat)
  else ((st.reverse.drop (-n).toNat), (st.reverse.take (-n).toNat).reverse)

inductive Coll where | tuple | set | frozenset

def buildColl (c : Coll) (n : Int) (rest : Bytes) (st : List PyVal) : Res :=
  let p := if n = 0 then ([], st) else popN n st
  match c with
  | .tuple => .cont rest (.tuple p.1 :: p.2)
  | .set => if hashableAll p.1 then .cont rest (.set (dedup [] p.1) :: p.2) else .err .dataFormat
  | .frozenset =>
    if hashableAll p.1 then .cont rest (.frozenset (dedup [] p.1) :: p.2) else .err .dataFormat

/-- Python list index from a key object: ints and bools index, negative counts from the end -/
def listIndex (k : PyVal) (len : Nat) : Option Nat :=
  let i? : Option Int := match k with
    | .int i => some i
    | .bool b => some (if b then 1 else 0)
    | _ => Option.none
  match i? with
  | some i =>
    let j := if i < 0 then i + len else i
    if 0 ≤ j ∧ j < len then some j.toNat else Option.none
  | Option.none => Option.none

def setItem (rest : Bytes) (st : List PyVal) : Res :=
  match st with
  | v :: k :: tgt :: below =>
    match tgt with
    | .list xs =>
      match listIndex k xs.length with
      | some j => .cont rest (.list (xs.set j v) :: below)
      | Option.none => .err .dataFormat
    | .dict kvs =>
      if hashable k then .cont rest (.dict (dictInsert k v kvs) :: below) else .err .dataFormat
    | _ => .err .dataFormat
  | _ => .err .dataFormat

/-- does a list of `n` entries exceed the available memory? -/
def memExceeded (cfg : Cfg) (n : Nat) : Bool :=
  match cfg.memLimit with
  | some m => decide (n > m)
  | Option.none => false

/-- one opcode of `Unserializer.load` -/
def step (cfg : Cfg) (op : UInt8) (rest : Bytes) (st : List PyVal) : Res :=
  match op.toNat with
  | 76 => .cont rest (.none :: st)
  | 82 => .cont rest (.bool true :: st)
  | 67 => .cont rest (.bool false :: st)
  | 70 => rdI32 rest fun i r => .cont r (.int i :: st)
  | 71 => rdI32 rest fun i r => .cont r (.int i :: st)
  | 72 => rdBytes rest fun b r =>
      match parseInt b with
      | some i => .cont r (.int i :: st)
      | Option.none => .err .dataFormat
  | 73 => rdBytes rest fun b r =>
      match parseInt b with
      | some i => .cont r (.int i :: st)
      | Option.none => .err .dataFormat
  | 68 => match rd8 rest with
      | some (b, r) => .cont r (.float b :: st)
      | Option.none => .err .eof
  | 84 => match rd8 rest with
      | some (re, r1) =>
        match rd8 r1 with
        | some (im, r2) => .cont r2 (.complex re im :: st)
        | Option.none => .err .eof
      | Option.none => .err .eof
  | 65 => rdBytes rest fun b r => .cont r (.bytes b :: st)
  | 78 => rdBytes rest fun b r =>
      if cfg.py3str_as_py2str then .cont r (.bytes b :: st)
      else match utf8Decode b with
        | some s => .cont r (.str s :: st)
        | Option.none => .err .dataFormat
  | 77 => rdBytes rest fun b r =>
      if cfg.py2str_as_py3str then .cont r (.str (latin1Decode b) :: st)
      else .cont r (.bytes b :: st)
  | 83 => rdBytes rest fun b r =>
      match utf8Decode b with
      | some s => .cont r (.str s :: st)
      | Option.none => .err .dataFormat
  | 75 => rdI32 rest fun n r =>
      if memExceeded cfg n.toNat then .err .memory else .cont r (.list (List.replicate n.toNat .none) :: st)
  | 74 => .cont rest (.dict [] :: st)
  | 80 => setItem rest st
  | 64 => rdI32 rest fun n r => buildColl .tuple n r st
  | 79 => rdI32 rest fun n r => buildColl .set n r st
  | 69 => rdI32 rest fun n r => buildColl .frozenset n r st
  | 66 => rdI32 rest fun id r =>
      if cfg.hasFactory then .cont r (.channel id :: st) else .err .dataFormat
  | 81 => .stop st
  | _ => .err .dataFormat

theorem rd4_len {bs : Bytes} {n r} (h : rd4 bs = some (n, r)) : r.length ≤ bs.length := by
  unfold rd4 at h
  split at h
  · simp at h; obtain ⟨_, rfl⟩ := h; simp; omega
  · simp at h

theorem rd8_len {bs : Bytes} {n r} (h : rd8 bs = some (n, r)) : r.length ≤ bs.length := by
  unfold rd8 at h
  split at h
  · rename_i hi r1 h1
    split at h
    · rename_i lo r2 h2
      simp at h; obtain ⟨_, rfl⟩ := h
      have := rd4_len h1; have := rd4_len h2; omega
    · simp at h
  · simp at h

theorem readN_len {n : Nat} {bs b r : Bytes} (h : readN n bs = some (b, r)) : r.length ≤ bs.length := by
  unfold readN at h
  split at h
  · simp at h; obtain ⟨_, rfl⟩ := h; simp
  · simp at h

theorem rdI32_len {bs : Bytes} {k : Int → Bytes → Res} {r' st'}
    (hk : ∀ i r, k i r = .cont r' st' → r'.length ≤ r.length)
    (h : rdI32 bs k = .cont r' st') : r'.length ≤ bs.length := by
  unfold rdI32 at h
  split at h
  · rename_i n r h4
    have := rd4_len h4; have := hk _ _ h; omega
  · simp at h

theorem rdBytes_len {bs : Bytes} {k : Bytes → Bytes → Res} {r' st'}
    (hk : ∀ b r, k b r = .cont r' st' → r'.length ≤ r.length)
    (h : rdBytes bs k = .cont r' st') : r'.length ≤ bs.length := by
  unfold rdBytes at h
  refine rdI32_len ?_ h
  intro i r hc
  split at hc
  · simp at hc
  · split at hc
    · rename_i b r2 hN
      have := readN_len hN; have := hk _ _ hc; omega
    · simp at hc

theorem buildColl_len {c n rest st r' st'} (h : buildColl c n rest st = .cont r' st') :
    r'.length ≤ rest.length := by
  unfold buildColl at h
  cases c <;> simp only at h
  · cases h; simp
  · by_cases hh : hashableAll (if n = 0 then ([], st) else popN n st).1 = true
    · simp [hh] at h; simp [h.1]
    · simp [hh] at h
  · by_cases hh : hashableAll (if n = 0 then ([], st) else popN n st).1 = true
    · simp [hh] at h; simp [h.1]
    · simp [hh] at h

theorem setItem_len {rest st r' st'} (h : setItem rest st = .cont r' st') :
    r'.length ≤ rest.length := by
  unfold setItem at h
  split at h
  · split at h
    · split at h <;> simp at h; simp [h.1]
    · split at h <;> simp at h; simp [h.1]
    · simp at h
  · simp at h

/-- every opcode consumes input monotonically: this is what makes `run` terminate, i.e. what
makes `loads` total on every byte string (C13) -/
theorem step_len {cfg op rest st r' st'} (h : step cfg op rest st = .cont r' st') :
    r'.length ≤ rest.length := by
  unfold step at h
  split at h
  all_goals first
    | (simp at h; simp [h.1]; done)
    | (exact setItem_len h)
    | (refine rdI32_len ?_ h; intro i r hc
       first
         | (simp at hc; simp [hc.1]; done)
         | (exact buildColl_len hc)
         | (split at hc <;> simp at hc; simp [hc.1]))
    | (refine rdBytes_len ?_ h; intro b r hc
       first
         | (simp at hc; simp [hc.1]; done)
         | (split at hc <;> simp at hc <;> simp [hc.1]; done)
         | (split at hc
            · simp at hc; simp [hc.1]
            · split at hc <;> simp at hc; simp [hc.1]))
    | (split at h
       · rename_i b r h8
         first
           | (simp at h; have := rd8_len h8; simp [← h.1]; omega)
           | (split at h
              · rename_i im r2 h8'
                simp at h; have := rd8_len h8; have := rd8_len h8'; simp [← h.1]; omega
              · simp at h)
       · simp at h)
    | (simp at h)

/-- STOP: exactly one value must be on the stack -/
def finish : List PyVal → Except LoadErr PyVal
  | [v] => .ok v
  | _ => .error .dataFormat

/-- `Unserializer.load` main loop: well-founded on the remaining input -/
def run (cfg : Cfg) (input : Bytes) (st : List PyVal) : Except LoadErr PyVal :=
  match input with
  | [] => .error .eof
  | op :: rest =>
    match h : step cfg op rest st with
    | .cont rest' st' => run cfg rest' st'
    | .stop st' => finish st'
    | .err e => .error e
termination_by input.length
decreasing_by
  have := step_len h
  simp; omega

/-- `loads_internal(bytes)` -/
def loadsInternal (cfg : Cfg) (bs : Bytes) : Except LoadErr PyVal := run cfg bs []

/-- `loads(bytes)` / `load(stream)`: version byte first -/
def loads (cfg : Cfg) (bs : Bytes) : Except LoadErr PyVal :=
  match bs with
  | [] => .error .eof
  | v :: rest => if v = dumpVersion then run cfg rest [] else .error .dataFormat

end ExecnetVerif
