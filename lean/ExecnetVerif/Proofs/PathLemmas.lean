/-
C17 helper: the sender's `relpath`-based link classification (after D14) agrees with the
specification "an absolute target strictly inside the source tree is re-based".
-/
import ExecnetVerif.Model.Rsync
namespace ExecnetVerif.Path

theorem normStep_no_dotdot {acc : List String} (c : String) (h : ".." ∉ acc) : ".." ∉ normStep acc c := by
  unfold normStep
  split
  · exact h
  · split
    · exact fun hm => h (List.dropLast_subset _ hm)
    · rename_i h1 h2
      intro hm
      simp only [List.mem_append, List.mem_singleton] at hm
      cases hm with
      | inl hm => exact h hm
      | inr hm => exact h2 hm.symm

theorem foldl_normStep_no_dotdot : ∀ (p : List String) (acc : List String), ".." ∉ acc →
    ".." ∉ p.foldl normStep acc
  | [], _, h => h
  | c :: p, acc, h => foldl_normStep_no_dotdot p _ (normStep_no_dotdot c h)

theorem normAbs_no_dotdot (p : RawPath) : ".." ∉ normAbs p :=
  foldl_normStep_no_dotdot p [] (by simp)

theorem stripPrefix_some : ∀ (s p rest : List String), stripPrefix? s p = some rest → p = s ++ rest
  | [], p, rest, h => by simp [stripPrefix?] at h; simp [h]
  | a :: s, [], rest, h => by simp [stripPrefix?] at h
  | a :: s, b :: p, rest, h => by
    simp only [stripPrefix?] at h
    split at h
    · rename_i hab
      subst hab
      simp [stripPrefix_some s p rest h]
    · simp at h

theorem commonLen_append : ∀ (s rest : List String), commonLen (s ++ rest) s = s.length
  | [], rest => by cases rest <;> simp [commonLen]
  | a :: s, rest => by simp [commonLen, commonLen_append s rest]

theorem stripPrefix_none : ∀ (s p : List String), stripPrefix? s p = none → commonLen p s < s.length
  | [], p, h => by simp [stripPrefix?] at h
  | a :: s, [], _ => by simp [commonLen]
  | a :: s, b :: p, h => by
    simp only [stripPrefix?] at h
    by_cases hab : a = b
    · subst hab
      simp only [if_true] at h
      have := stripPrefix_none s p h
      simp only [commonLen, if_true, List.length_cons]
      omega
    · have hba : ¬ b = a := fun e => hab e.symm
      simp [commonLen, hba]

theorem relComps_inside (s rest : List String) : relComps (s ++ rest) s = rest := by
  simp [relComps, commonLen_append]

theorem isInside_dotdot (l : List String) : isInside (".." :: l) = false := by
  cases l <;> simp [isInside]

theorem relComps_outside (s p : List String) (h : stripPrefix? s p = none) : isInside (relComps p s) = false := by
  have hlt := stripPrefix_none s p h
  unfold relComps
  obtain ⟨k, hk⟩ : ∃ k, s.length - commonLen p s = k + 1 := ⟨s.length - commonLen p s - 1, by omega⟩
  simp only [hk, List.replicate_succ, List.cons_append]
  exact isInside_dotdot _

theorem isInside_cons {c : String} (cs : List String) (h : c ≠ "..") : isInside (c :: cs) = true := by
  simp [isInside, h]

end ExecnetVerif.Path

namespace ExecnetVerif.Rsync
open ExecnetVerif.Path

/-- **link classification meets its specification** (fixed tree) -/
theorem classify_spec (sourcedir destdir t : RawPath) :
    (if (classify sourcedir t).1 then pjoin destdir (classify sourcedir t).2 else (classify sourcedir t).2) =
      expectLink sourcedir destdir t := by
  unfold classify expectLink
  by_cases habs : isAbs t = true
  · simp only [habs, if_true]
    cases h : stripPrefix? (normAbs sourcedir) (normAbs t) with
    | none => simp [relComps_outside _ _ h]
    | some rest =>
      have hp := stripPrefix_some _ _ _ h
      rw [hp, relComps_inside]
      cases rest with
      | nil => simp [isInside]
      | cons c cs =>
        have hc : c ≠ ".." := by
          intro e
          have := normAbs_no_dotdot t
          rw [hp, e] at this
          simp at this
        simp [isInside_cons cs hc]
  · simp [habs]

end ExecnetVerif.Rsync
