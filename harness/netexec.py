"""Executor of L3 `Net` operation lists on the REAL code: a complete in-process gateway pair (real
Gateway, real WorkerGateway.serve, real receiver threads) under the deterministic scheduler, with
frame-gated pipes so that `deliver S` lets the receiver thread of side S handle exactly one frame.

Used by the op-level correspondence of C02/C03/C04/C07/C10/C18 (same op list → model driver).
"""
from __future__ import annotations

import builtins
import re

from . import sched as S


class CbFail(Exception):
    pass


class WeirdExit(BaseException):
    """a BaseException that is neither Exception, SystemExit nor KeyboardInterrupt (like asyncio.CancelledError)"""


def body_exception(n):
    """remote bodies fail with different exception classes: all must surface as RemoteError"""
    # EOFError among them: a body that reads past the end of some *other* channel (or of its stdin) fails with it while
    # the connection is alive
    return (ValueError, WeirdExit, SystemExit, GeneratorExit, ArithmeticError, EOFError)[n % 6]("E%d" % n)


class Ctl:
    """registry shared with remote_exec bodies running in the same process"""

    def __init__(self, sc):
        self.sc = sc
        self.ever = set()
        self.chan = {}      # id -> worker-side channel object
        self.cmd = {}       # id -> ('ret',) | ('raise', n)
        self.ev = {}

    def body(self, channel):
        ev = self.sc.Event()
        self.ev[channel.id] = ev
        self.ever.add(channel.id)
        self.chan[channel.id] = channel
        ev.wait()
        c = self.cmd[channel.id]
        del channel
        if c[0] == "raise":
            raise body_exception(c[1])


BODY = "import builtins\nbuiltins.__verif_ctl__.body(channel)\n"


def err_id(text):
    m = re.search(r"(?:\w+: E|CbFail: )(\d+)\s*$", text.strip())
    if m:
        return int(m.group(1))
    m = re.fullmatch(r"E(\d+)", text.strip())
    return int(m.group(1)) if m else -1


class NetExec:
    def __init__(self, execnet, rng):
        self.execnet = execnet
        self.rng = rng
        self.outs = []
        self.digest = None
        self.error = None

    def run(self, ops):
        sc = S.Scheduler(rng=self.rng, timeouts="when_stuck", max_steps=400000)
        self.sc = sc
        pair = S.GatewayPair(self.execnet, sc, "thread", rng=self.rng)
        pair.a2b.gated = True
        pair.b2a.gated = True
        self.pair = pair
        ctl = Ctl(sc)
        self.ctl = ctl
        builtins.__verif_ctl__ = ctl
        self.h = {"A": {}, "B": {}}       # handles: side -> id -> channel object
        self.cblog = {"A": {}, "B": {}}

        def main():
            gw = pair.start()
            self.gw = {"A": gw, "B": pair.worker}
            self.settle()
            for op in ops:
                self.outs.append(self.do(op))
            self.digest = self.make_digest()
            self.teardown()

        try:
            sc.run(main, wall_timeout=60)
        except S.Deadlock as e:
            self.error = "deadlock: " + str(e)[:600]
        finally:
            pair.restore()
            self.h = None
            self.ctl.chan.clear()
            self.graveyard = []
            import gc
            gc.collect()  # finalise this run's leftovers now, while no scheduler is active
        errs = [(t.name, repr(t.exc)) for t in sc.threads if t.exc is not None and not isinstance(t.exc, S.SchedAbort)]
        if errs and not self.error:
            self.error = "thread errors: %r" % (errs[:3],)
        return self.outs, self.digest

    # -- helpers -------------------------------------------------------------------------
    def pipe_into(self, side):
        return self.pair.b2a if side == "A" else self.pair.a2b

    def settle(self):
        """run the other threads until both receivers wait for input and nothing else can move"""
        sc = self.sc
        for _ in range(50):
            sc.block_until(lambda: False, 0.001, "settle")
            if all(self.receiver_idle(s) for s in "AB"):
                break

    def receiver_idle(self, side):
        p = self.pipe_into(side)
        fin = self.gw[side]._channelfactory.finished
        return fin or (p.reader_waiting and p.avail() <= 0)

    def note_ever(self, side, cid):
        if hasattr(self, "ever"):
            self.ever[side].add(cid)

    def get_handle(self, side, cid):
        ch = self.h[side].get(cid)
        if ch is None and side == "B" and cid in self.ctl.chan:
            ch = self.h["B"][cid] = self.ctl.chan[cid]
        return ch

    def mkitem(self, side, val, chans):
        return (val,) + tuple(self.get_handle(side, c) for c in chans)

    def render_item(self, side, item):
        val = item[0]
        ids = []
        for ch in item[1:]:
            ids.append(ch.id)
            old = self.h[side].get(ch.id)
            if old is not None and old is not ch:
                # the id was re-created (the old object was closed and forgotten before this item arrived): two objects
                # for one id — park the old one, the conversation is outside the per-conversation oracles
                if not hasattr(self, "graveyard"):
                    self.graveyard = []
                self.graveyard.append(old)
                if hasattr(self, "aliased"):
                    self.aliased.add((side, ch.id))
            del old
            self.h[side][ch.id] = ch
            self.note_ever(side, ch.id)
        return "%d:%s" % (val, ",".join(map(str, ids)) if ids else "-")

    def callback_for(self, side, cid):
        log = self.cblog[side].setdefault(cid, [])
        END = self.END

        def cb(item):
            if item is END:
                log.append("E")
                return
            log.append("i" + self.render_item(side, item))
            if item[0] % 100 == 99:
                raise CbFail(str(item[0]))

        return cb

    END = object()

    def exc_out(self, e, ch=None):
        gb = self.execnet.gateway_base
        if isinstance(e, gb.RemoteError):
            return "RemoteError %d" % err_id(e.formatted)
        if isinstance(e, gb.TimeoutError):
            return "block"
        if isinstance(e, EOFError):
            return "EOFError"
        if isinstance(e, CbFail):
            return "cbRaised"
        if isinstance(e, OSError):
            return "OSError"
        return "EXC " + type(e).__name__ + ": " + str(e)[:100]

    def check_alias(self):
        """an id re-created by a transfer while we still hold the old object: park the old handle"""
        if not hasattr(self, "graveyard"):
            self.graveyard = []
        for side in "AB":
            reg = self.gw[side]._channelfactory._channels
            for cid in list(self.h[side]):
                cur = reg.get(cid)
                if cur is not None and cur is not self.h[side][cid]:
                    self.graveyard.append(self.h[side].pop(cid))
                del cur
        # the same for worker-side channels of still executing bodies (they cannot be dropped): the body stays
        # blocked until tear-down and is never finished through the op interface again
        regb = self.gw["B"]._channelfactory._channels
        for cid in list(self.ctl.chan):
            cur = regb.get(cid)
            if cur is not None and cur is not self.ctl.chan[cid]:
                self.graveyard.append(self.ctl.chan.pop(cid))
                self.h["B"].pop(cid, None)
                self.exec_parked = True  # a body that stays blocked until tear-down: no `cut B` any more (see next_ops)
            del cur

    def do(self, op):
        try:
            return self.do1(op)
        finally:
            if self.h is not None:
                self.check_alias()

    def do1(self, op):
        t = op.split()
        k = t[0]
        try:
            if k == "new":
                ch = self.gw[t[1]].newchannel()
                self.h[t[1]][ch.id] = ch
                self.note_ever(t[1], ch.id)
                return "chan %d" % ch.id
            if k == "rexec":
                try:
                    ch = self.gw["A"].remote_exec(BODY)
                except OSError:
                    return "OSError"
                self.h["A"][ch.id] = ch
                self.note_ever("A", ch.id)
                return "chan %d" % ch.id
            if k == "deliver":
                side = t[1]
                p = self.pipe_into(side)
                if self.gw[side]._channelfactory.finished or not p.frames:
                    return "noten"
                p.grant_frame()
                self.settle()
                # an exec frame handled at B: wait until the body registered itself
                return "ok"
            if k == "cut":
                side = t[1]
                if self.gw[side]._channelfactory.finished:
                    return "noten"
                p = self.pipe_into(side)
                p.force_eof = True
                self.sc.block_until(lambda: self.gw[side]._channelfactory.finished and not self.io_open(side), 30.0, "cut")
                self.settle()
                return "ok"
            if k == "finish":
                cid = int(t[1])
                ch = self.ctl.chan.get(cid)
                if ch is None or not ch._executing:
                    return "noten"
                self.ctl.cmd[cid] = ("ret",) if t[2] == "ret" else ("raise", int(t[2][5:]))
                self.h["B"].setdefault(cid, ch)
                del ch
                del self.ctl.chan[cid]
                self.ctl.ev[cid].set()
                self.sc.block_until(lambda: not self.h["B"][cid]._executing, 30.0, "finish")
                self.settle()
                return self.last_close_result(cid)
            side, cid = t[1], int(t[2])
            ch = self.get_handle(side, cid)
            if ch is None:
                return "noten"
            if k == "send":
                chans = [] if len(t) < 5 or t[4] == "-" else [int(x) for x in t[4].split(",")]
                if any(self.get_handle(side, c) is None for c in chans):
                    return "noten"
                ch.send(self.mkitem(side, int(t[3]), chans))
                return "ok"
            if k == "close":
                if t[3] == "-":
                    ch.close()
                else:
                    ch.close("E" + t[3][1:])
                return "ok"
            if k == "recv":
                item = ch.receive(timeout=0.01)
                return "item " + self.render_item(side, item)
            if k == "wait":
                ch.waitclose(timeout=0.01)
                return "ok"
            if k == "setcb":
                # channel objects inside already queued items: the harness takes a reference first, so that an item the
                # replay loses (a callback raising in setcallback discards the rest of the detached queue) does not
                # finalise them behind the model's back ("last reference dropped" is an explicit operation here)
                q0 = getattr(ch, "_items", None)
                for x in list(getattr(q0, "items", ())) if q0 is not None else ():
                    if isinstance(x, tuple):
                        for c0 in x[1:]:
                            if hasattr(c0, "id") and self.h[side].get(c0.id) is None:
                                self.h[side][c0.id] = c0
                                self.note_ever(side, c0.id)
                cb = self.callback_for(side, cid)
                if t[3] == "1":
                    ch.setcallback(cb, endmarker=self.END)
                else:
                    ch.setcallback(cb)
                return "ok"
            if k == "isclosed":
                return "true" if ch.isclosed() else "false"
            if k == "drop":
                if ch._executing:
                    return "noten"
                del self.h[side][cid]
                if side == "B":
                    self.ctl.chan.pop(cid, None)
                del ch
                return "ok"
            return "bad-op"
        except BaseException as e:  # noqa: BLE001
            if isinstance(e, S.SchedAbort):
                raise
            return self.exc_out(e)

    def last_close_result(self, cid):
        # executetask's own close: OSError escapes only if the send failed in the open state; we observe the state
        ch = self.h["B"][cid]
        return "ok" if ch._closed else "OSError"

    def io_open(self, side):
        io = self.gw[side]._io
        w = io.outfile
        return not w.pipe.wclosed

    def make_digest(self):
        parts = []
        for side in "AB":
            gw = self.gw[side]
            cf = gw._channelfactory
            reg = sorted(cf._channels.keys())
            cbs = sorted(cf._callbacks.keys())
            pipe = self.pair.a2b if side == "A" else self.pair.b2a
            frames = self.pending_frames(pipe)
            logs = []
            for cid in sorted(self.cblog[side]):
                if self.cblog[side][cid]:
                    logs.append("%d=%s" % (cid, "+".join(self.cblog[side][cid])))
            parts.append("%s count=%d fin=%d reg=%s cbs=%s out=%s cblog=%s" % (
                side, cf.count, 1 if cf.finished else 0, ",".join(map(str, reg)) or "-", ",".join(map(str, cbs)) or "-",
                ",".join(frames) or "-", " ".join(logs) or "-"))
        return " | ".join(parts)

    def pending_frames(self, pipe):
        import struct

        gb = self.execnet.gateway_base
        data = bytes(pipe.buf)
        # skip what was granted but is still unread (none in a settled state)
        out = []
        pos = pipe.granted - pipe.total_read
        names = {0: "status", 1: "reconf", 2: "term", 3: "exec", 4: "data", 5: "close", 6: "closeErr", 7: "last"}
        while pos + 9 <= len(data):
            code, cid, ln = struct.unpack("!bii", data[pos:pos + 9])
            payload = data[pos + 9:pos + 9 + ln]
            nm = names.get(code, "?")
            if nm == "data":
                # items are tuples (val, chan...): the first element is an INT right after NEWLIST-free tuple encoding
                val = self.peek_val(payload)
                out.append("data:%d:%d" % (cid, val))
            elif nm == "closeErr":
                out.append("closeErr:%d:%d" % (cid, err_id(gb.loads_internal(payload))))
            elif nm == "term":
                out.append("term")
            else:
                out.append("%s:%d" % (nm, cid))
            pos += 9 + ln
        return out

    @staticmethod
    def peek_val(payload):
        import struct

        # tuple encoding is post-order: first item first; an int item is 'F' + 4 bytes
        if payload[:1] == b"F":
            return struct.unpack("!i", payload[1:5])[0]
        return -1

    def teardown(self):
        # end the run: cut both sides so that every thread can finish
        for side in "AB":
            try:
                if not self.gw[side]._channelfactory.finished:
                    self.pipe_into(side).force_eof = True
            except Exception:
                pass
        for cid, ev in list(self.ctl.ev.items()):
            self.ctl.cmd.setdefault(cid, ("ret",))
            ev.set()
        self.sc.block_until(lambda: all(self.gw[s]._channelfactory.finished for s in "AB"), 60.0, "teardown")


class RandomProgram(NetExec):
    """online generation: the next operation is chosen from the handles that exist right now"""

    def __init__(self, execnet, rng, nops=30, profile=None):
        super().__init__(execnet, rng)
        self.nops = nops
        self.ops = []
        self.profile = profile or {}
        self.valctr = 0

    def run_random(self):
        sc = S.Scheduler(rng=self.rng, timeouts="when_stuck", max_steps=400000)
        self.sc = sc
        pair = S.GatewayPair(self.execnet, sc, "thread", rng=self.rng)
        pair.a2b.gated = True
        pair.b2a.gated = True
        self.pair = pair
        self.ctl = Ctl(sc)
        builtins.__verif_ctl__ = self.ctl
        self.h = {"A": {}, "B": {}}
        self.cblog = {"A": {}, "B": {}}
        self.cbmode = set()
        self.ever = {"A": set(), "B": set()}

        def main():
            gw = pair.start()
            self.gw = {"A": gw, "B": pair.worker}
            self.settle()
            for _ in range(self.nops):
                for op in self.next_ops():
                    if callable(op):  # decided only now, from the handles that exist after the previous op
                        op = op()
                        if op is None:
                            continue
                    self.ops.append(op)
                    self.outs.append(self.do(op))
            self.digest = self.make_digest()
            self.teardown()

        try:
            sc.run(main, wall_timeout=60)
        except S.Deadlock as e:
            self.error = "deadlock: " + str(e)[:600]
        finally:
            pair.restore()
            self.h = None
            self.ctl.chan.clear()
            self.graveyard = []
            import gc
            gc.collect()  # finalise this run's leftovers now, while no scheduler is active
        errs = [(t.name, repr(t.exc)) for t in sc.threads if t.exc is not None and not isinstance(t.exc, S.SchedAbort)]
        if errs and not self.error:
            self.error = "thread errors: %r" % (errs[:3],)
        return self.ops, self.outs, self.digest

    def newval(self, fail_ok=False):
        self.valctr += 1
        v = self.valctr
        if v % 100 == 99:
            self.valctr += 1
            v += 1
        if fail_ok and self.rng.random() < self.profile.get("cbfail", 0.08):
            v = v * 100 + 99
        else:
            v = v * 100 + self.rng.randrange(0, 50)
        return v

    def can_drop(self, side, cid):
        """`drop` = the LAST reference goes away: only when nothing else (a queued item, a frame) refers to the channel and its
        own queue holds no channel objects (their finalisers would cascade).  References held by the gateway's own callback
        table are NOT a reason to keep the object alive (a callback entry must not pin its channel): they are discounted, so
        the drop is issued and the model's LAST_MESSAGE is expected."""
        import sys as _sys
        ch = self.get_handle(side, cid)
        if ch is None:
            return False
        q = getattr(ch, "_items", None)
        plain = q is None or all(len(x) == 1 for x in list(getattr(q, "items", [])) if isinstance(x, tuple))
        pinned = sum(1 for v in list(self.gw[side]._channelfactory._callbacks.values()) if isinstance(v, tuple) for x in v if x is ch)
        n = _sys.getrefcount(ch) - pinned
        del ch
        return n <= 3 and plain

    def handles(self, side):
        ids = set(self.h[side])
        if side == "B":
            ids |= set(self.ctl.chan)
        return sorted(ids)

    def next_ops(self):
        r = self.rng
        w = self.profile
        side = r.choice("AB")
        ids = self.handles(side)
        choice = r.random()
        if not ids or choice < 0.10:
            if r.random() < 0.55:
                return ["rexec"]
            return ["new " + r.choice("AB")]
        cid = r.choice(ids)
        if choice < 0.34:
            return ["send %s %d %d" % (side, cid, self.newval(fail_ok=True))]
        if choice < 0.50:
            return ["deliver " + r.choice("AB")]
        if choice < 0.62:
            return ["recv %s %d" % (side, cid)]
        if choice < 0.68:
            return ["close %s %d %s" % (side, cid, "-" if r.random() < 0.7 else "e%d" % r.randint(1, 9))]
        if choice < 0.73:
            return ["setcb %s %d %d" % (side, cid, r.randint(0, 1))]
        if choice < 0.77:
            return ["wait %s %d" % (side, cid)]
        if choice < 0.80:
            return ["isclosed %s %d" % (side, cid)]
        if choice < 0.85:
            # `drop` = the LAST reference goes away: only when nothing else (a queued item, a frame) refers to it,
            # and its own queue holds no channel objects (their finalisers would cascade)
            if self.can_drop(side, cid):
                return ["drop %s %d" % (side, cid)]
            return ["isclosed %s %d" % (side, cid)]
        if choice < 0.90:
            ex = sorted(self.ctl.chan)
            if ex:
                return ["finish %d %s" % (r.choice(ex), "ret" if r.random() < 0.6 else "raise%d" % r.randint(1, 9))]
            return ["deliver B"]
        if choice < 0.96:
            # channel transfer as a macro: send, deliver, receive (so the carried channel gets a handle at once)
            peer = "B" if side == "A" else "A"
            peer_reg = set(self.gw[peer]._channelfactory._channels.keys())
            peer_ever = set(self.ever[peer]) | (set(self.ctl.ever) if peer == "B" else set())
            # a conversation id is never re-opened on a side that already closed or dropped it (model scope)
            # ... and only channel objects that are still open at the sender travel
            others = [c for c in ids if c != cid and (c in peer_reg or c not in peer_ever)
                      and not self.get_handle(side, c)._closed]
            # (the receiving end may also be a callback whose channel object was dropped: the callback lives on and the carried
            # channel must still arrive through it)
            peer_can_take = self.get_handle(peer, cid) is not None or cid in self.gw[peer]._channelfactory._callbacks
            if others and w.get("transfer", True) and peer_can_take:
                c2 = r.choice(others)
                return ["send %s %d %d %d" % (side, cid, self.newval(), c2), "deliver " + peer,
                        lambda: ("recv %s %d" % (peer, cid)) if self.get_handle(peer, cid) is not None else None]
            return ["deliver " + side]
        if choice < 0.972 and w.get("sendonly", True):
            # "sendonly" macro (C03/C10): the peer registers a callback and drops its channel object (LAST_MESSAGE),
            # this side — now send-only — sends, closes (or, for the remote_exec channel itself, ends the body) and asks
            # isclosed; everything is delivered in between
            peer = "B" if side == "A" else "A"
            executing = cid in self.ctl.chan
            if self.get_handle(peer, cid) is not None and not (executing and side == "A"):
                def lazy_drop(peer=peer, cid=cid):
                    return ("drop %s %d" % (peer, cid)) if self.can_drop(peer, cid) else None

                def flush(s):
                    return lambda: ("deliver " + s) if self.pipe_into(s).frames and not self.gw[s]._channelfactory.finished else None
                def still(op, s=side, cid=cid):
                    # only while the handle chosen above is still the live one (an id re-created by a transfer parks it)
                    return lambda: op if self.get_handle(s, cid) is not None else None
                # (half of the time the conversation is ended with an error: an error close for a conversation whose object
                # is gone and whose callback lives on must unregister the callback and fire its endmarker all the same)
                err = r.random() < 0.5
                end = ([still("finish %d %s" % (cid, "raise%d" % r.randint(1, 9) if err else "ret"))] if executing else
                       [still("close %s %d %s" % (side, cid, "e%d" % r.randint(1, 9) if err else "-")), still("isclosed %s %d" % (side, cid)),
                        still("send %s %d %d" % (side, cid, self.newval()))])
                carry = []
                if r.random() < 0.5 and w.get("transfer", True):
                    # a channel travels to the callback whose channel object is gone (it must still arrive: D25)
                    v2 = self.newval()

                    def carry_op(s=side, cid=cid, v2=v2):
                        mine = [c for c in self.h[s] if c != cid and not self.get_handle(s, c)._closed and not getattr(self.get_handle(s, c), "_executing", False)]
                        if self.get_handle(s, cid) is None or not mine:
                            return None
                        return "send %s %d %d %d" % (s, cid, v2, max(mine))
                    carry = ["new " + side, carry_op] + [flush(peer)] * 2
                return (["setcb %s %d 1" % (peer, cid), lazy_drop] + [flush(side)] * 4 + carry +
                        [still("send %s %d %d" % (side, cid, self.newval()))] + end + [flush(peer)] * 4)
        if choice < 0.985 and w.get("cut", True):
            s2 = r.choice("AB")
            if s2 == "B" and (self.ctl.chan or getattr(self, "exec_parked", False)):
                # the op-level `cut` models a connection loss with no body running on that side (a running body keeps
                # the worker's write side open until the exit ladder ends it: C11's subject)
                return ["deliver B"]
            return ["cut " + s2]
        if choice < 0.993 and w.get("cut", True) and self.ctl.chan:
            # "error, then connection loss, then read" macro (C07): the body fails, its CLOSE_ERROR reaches the initiator, the
            # connection ends before the application looked at the channel: the pending RemoteError must still be reported
            # (once), EOFError only afterwards
            cid2 = r.choice(sorted(self.ctl.chan))

            def flushA():
                return lambda: "deliver A" if self.pipe_into("A").frames and not self.gw["A"]._channelfactory.finished else None

            def onA(op):
                return lambda: op if self.get_handle("A", cid2) is not None else None
            return (["finish %d raise%d" % (cid2, r.randint(1, 9))] + [flushA()] * 4 +
                    [lambda: "cut A" if not self.ctl.chan and not getattr(self, "exec_parked", False) else None,
                     onA("recv A %d" % cid2), onA("wait A %d" % cid2), onA("recv A %d" % cid2)])
        return ["deliver " + r.choice("AB")]
