/-
Well-formedness of a value for the round-trip theorem (C01) — the explicit, satisfiable
hypothesis: exactly the values the property quantifies over.
-/
import ExecnetVerif.Model.Serializer
namespace ExecnetVerif

/-- `fresh acc xs`: every element of `xs` is hashable and equal (Python `==`) to no element of
`acc` nor to an earlier element of `xs` — true of the keys of every real dict and of the
elements of every real set, in iteration order. -/
def fresh : List PyVal → List PyVal → Prop
  | _, [] => True
  | acc, x :: xs => hashable x = true ∧ pyMem x acc = false ∧ fresh (acc ++ [x]) xs

mutual
/-- the values the round-trip theorem quantifies over: only supported types, lengths that fit the
4-byte length fields, ints within CPython's int<->str digit limit, dict keys / set elements
hashable and pairwise distinct. -/
def WF : PyVal → Prop
  | .none => True
  | .bool _ => True
  | .int i => inI32 i ∨ numDigits i ≤ maxStrDigits
  | .float b => b < two64
  | .complex r i => r < two64 ∧ i < two64
  | .bytes b => b.length < two31
  | .str s => (utf8Encode s).length < two31
  | .badstr => False
  | .foreign => False
  | .channel _ => False
  | .list xs => xs.length < two31 ∧ WFAll xs
  | .tuple xs => xs.length < two31 ∧ WFAll xs
  | .dict kvs => WFPairs kvs ∧ fresh [] (kvs.map Prod.fst)
  | .set xs => xs.length < two31 ∧ WFAll xs ∧ fresh [] xs
  | .frozenset xs => xs.length < two31 ∧ WFAll xs ∧ fresh [] xs
def WFAll : List PyVal → Prop
  | [] => True
  | x :: xs => WF x ∧ WFAll xs
def WFPairs : List (PyVal × PyVal) → Prop
  | [] => True
  | (k, v) :: rest => WF k ∧ WF v ∧ WFPairs rest
end

end ExecnetVerif
