/-
C19 — Channel files behave like files over the concatenated items.
Property theorems only (helper lemmas live in Proofs/ChannelFile.lean).

The element type `α` is arbitrary (code points for `str` items, byte values for `bytes` items) and
`nl` is its newline; every theorem holds for both instantiations at once.
-/
import ExecnetVerif.Proofs.ChannelFile
namespace ExecnetVerif
open ChannelFile

variable {α : Type} [DecidableEq α]

/-- **C19 (reading = file over the concatenation).** For EVERY split of a text / byte string into channel
items (empty items included, any number of items) and EVERY sequence of `read(n)` / `readline()` calls, the
values returned by `channel.makefile('r')` are exactly the values the same calls return on an ordinary file
holding the concatenation of the items — regardless of `proxyclose` and of how the channel ended. -/
theorem C19_read (nl : α) (items : List (List α)) (proxyclose closed0 : Bool) (calls : List Call) :
    outputs (runReader nl items proxyclose closed0 calls) = outputs (runFile nl items.flatten calls) := by
  unfold outputs runReader runFile
  apply run_refines
  simp [Reader.pending, Reader.init, File.rem, File.open]

/-- **C19 (nothing lost, duplicated or reordered).** For EVERY reader state and EVERY sequence of
`read(n)` / `readline()` calls, the concatenation of everything the calls returned, followed by what is
still unread (buffer and queued items), is exactly what was unread before — stated without reference to
the file model.  In particular, from a fresh `makefile('r')`, the returned values concatenate to a prefix
of the concatenated items, and to all of them once the reader is at the end. -/
theorem C19_conserve (nl : α) (s : Reader α) (calls : List Call) :
    (outputs (Reader.run nl s calls)).flatten ++ (Reader.run nl s calls).2.pending = s.pending :=
  run_conserve nl calls s

theorem C19_conserve_fresh (nl : α) (items : List (List α)) (proxyclose closed0 : Bool) (calls : List Call) :
    (outputs (runReader nl items proxyclose closed0 calls)).flatten <+: items.flatten ∧
    ((runReader nl items proxyclose closed0 calls).2.atEnd →
      (outputs (runReader nl items proxyclose closed0 calls)).flatten = items.flatten) := by
  have h := run_conserve nl calls (Reader.init items proxyclose closed0)
  have hp : (Reader.init items proxyclose closed0).pending = items.flatten := by
    simp [Reader.pending, Reader.init]
  rw [hp] at h
  refine ⟨⟨_, h⟩, fun he => ?_⟩
  have := ((atEnd_iff _).1 he).2
  unfold runReader at this ⊢
  rw [this, List.append_nil] at h
  exact h

/-- **C19 (after the end).** Once the channel has ended and its data has been handed out (nothing queued,
buffer `None` or empty), every further `read(n)` / `readline()` returns the empty result, forever. -/
theorem C19_after_end (nl : α) (s : Reader α) (h : s.atEnd) (calls : List Call) :
    (∀ o ∈ outputs (Reader.run nl s calls), o = []) ∧ (Reader.run nl s calls).2.atEnd :=
  run_atEnd nl calls s h

/-- **C19 (when the end is reached).** A `read(n)` that returns fewer than `n` elements, or a `readline()`
whose result does not end in a newline (in particular an empty result), has hit the end of the channel:
the reader is at the end from then on (so `C19_after_end` applies), and if `proxyclose` was requested the
channel has been closed. -/
theorem C19_end_reached (nl : α) (s : Reader α) :
    (∀ n, (s.read n).1.length < n →
        (s.read n).2.atEnd ∧ (s.proxyclose = true → (s.read n).2.closed = true)) ∧
    ((s.readline nl).1.getLast? ≠ some nl →
        (s.readline nl).2.atEnd ∧ (s.proxyclose = true → (s.readline nl).2.closed = true)) :=
  ⟨fun n h => read_short n s h, readline_short nl s⟩

/-- **C19 (writing).** For every history of `write` / `flush` / `close` calls on a `makefile('w')` object
(interleaved with the channel being closed by other means): the items delivered to the peer are exactly the
arguments of the accepted `write` calls, one item per call, in call order; a `write` is refused with `OSError`
exactly when the channel is closed at that moment (and then delivers nothing); `flush` changes nothing. -/
theorem C19_write (w : Writer α) (ops : List (WOp α)) :
    (Writer.run w ops).2.sent = w.sent ++ acceptedWrites ops (Writer.run w ops).1 ∧
    (∀ x, w.step (.write x) = if w.closed then (.oserror, w) else (.ok, { w with sent := w.sent ++ [x] })) ∧
    w.step .flush = (.ok, w) :=
  ⟨(writer_run_spec ops w).1, fun _ => rfl, rfl⟩

/-- **C19 (proxyclose).** `close()` on a channel file closes the channel if and only if `proxyclose` was
requested (writer and reader alike); and reading never closes the channel unless `proxyclose` was requested
(whatever the calls, however the channel ended). -/
theorem C19_proxyclose :
    (∀ w : Writer α, w.closed = false → ((w.step .close).2.closed = true ↔ w.proxyclose = true)) ∧
    (∀ s : Reader α, s.closed = false → (s.close.closed = true ↔ s.proxyclose = true)) ∧
    (∀ (nl : α) (s : Reader α) (calls : List Call), s.proxyclose = false →
        (Reader.run nl s calls).2.closed = s.closed) := by
  refine ⟨?_, ?_, ?_⟩
  · intro w h; simp [Writer.step, h]
  · intro s h; simp [Reader.close, h]
  · intro nl s calls h; exact run_closed_of_not_proxyclose nl calls s h

/-! ### Non-vacuity: concrete, non-trivial instances (elements are `Nat` codes, newline = 10) -/

/-- the D15 shape: items `b"ab\ncd\n"`, `b"ef"`; `readline` ×4 gives `ab\n`, `cd\n`, `ef`, `` on the reader
model and on the file -/
example : outputs (runReader 10 [[97, 98, 10, 99, 100, 10], [101, 102]] false false
      [.readline, .readline, .readline, .readline])
    = [[97, 98, 10], [99, 100, 10], [101, 102], []] := by decide

example : outputs (runFile 10 [97, 98, 10, 99, 100, 10, 101, 102] [.readline, .readline, .readline, .readline])
    = [[97, 98, 10], [99, 100, 10], [101, 102], []] := by decide

/-- a newline split off into its own item, empty items, reads across item boundaries, read(0) -/
example : outputs (runReader 10 [[], [97], [], [98, 10], [10, 99]] true false
      [.read 0, .read 1, .readline, .read 3, .readline, .read 2])
    = [[], [97], [98, 10], [10, 99], [], []] := by decide

/-- the hypothesis of `C19_after_end` is met by a reachable state (after a short read), and the
proxyclose conclusion of `C19_end_reached` is not vacuous -/
example : (Reader.run 10 (Reader.init [[97, 98]] true false) [.read 3]).2.atEnd ∧
    (Reader.run 10 (Reader.init [[97, 98]] true false) [.read 3]).2.closed = true ∧
    (Reader.run 10 (Reader.init [[97, 98]] true false) [.read 2]).2.closed = false := by decide

/-- conservation, concretely: a partial run returns a strict prefix and keeps the rest pending; the
`atEnd` premise of `C19_conserve_fresh` is met after a short read -/
example : (outputs (runReader 10 [[97, 10], [98, 99]] false false [.readline, .read 1])).flatten = [97, 10, 98] ∧
    (runReader 10 [[97, 10], [98, 99]] false false [.readline, .read 1]).2.pending = [99] ∧
    (runReader 10 [[97, 10], [98, 99]] false false [.readline, .read 5]).2.atEnd := by decide

/-- writer: two accepted writes, a flush, close with proxyclose, then a refused write -/
example : (Writer.run (Writer.init (α := Nat) true) [.write [1], .flush, .write [], .close, .write [2]])
    = ([.ok, .ok, .ok, .ok, .oserror], { sent := [[1], []], proxyclose := true, closed := true }) := by decide

/-- without proxyclose, close leaves the channel open and a later write is delivered -/
example : (Writer.run (Writer.init (α := Nat) false) [.write [1], .close, .write [2]])
    = ([.ok, .ok, .ok], { sent := [[1], [2]], proxyclose := false, closed := false }) := by decide

end ExecnetVerif
