/-
One-line-in / one-line-out interpreter of the executable models (the correspondence harness
pipes the same operations to the real code and to this program and diffs the answers).
-/
import ExecnetVerif.Driver.ValueIO
import ExecnetVerif.Driver.ChannelFileIO
import ExecnetVerif.Driver.XSpecIO
import ExecnetVerif.Driver.RsyncIO
import ExecnetVerif.Driver.BootstrapIO
import ExecnetVerif.Driver.RemoteExecIO
import ExecnetVerif.Driver.ExitIO
import ExecnetVerif.Driver.TermIO
import ExecnetVerif.Driver.FrameIO
import ExecnetVerif.Driver.NetIO
import ExecnetVerif.Driver.NetCheck
import ExecnetVerif.Driver.NetFineIO
import ExecnetVerif.Driver.PoolIO
import ExecnetVerif.Driver.GateIO
import ExecnetVerif.Driver.MakeConcIO
import ExecnetVerif.Driver.SpawnFailIO
import ExecnetVerif.Driver.ExecChoiceIO

open ExecnetVerif

def handlers : List (List String → Option String) := [serHandle, chanFileHandle, xspecHandle, groupHandle, rsyncHandle, bootHandle, rexecHandle, exitHandle, termHandle, frameHandle, Net.netHandle, Net.netCheckHandle, Net.netFineHandle, poolHandle, gateHandle, mkConcHandle, spawnFailHandle, execChoiceHandle]

def dispatch (line : String) : String :=
  let toks := (line.splitOn " ").filter (· ≠ "")
  match handlers.findSome? (· toks) with
  | some out => out
  | none => "bad-op"

partial def loop (h : IO.FS.Stream) (out : IO.FS.Stream) : IO Unit := do
  let line ← h.getLine
  if line.isEmpty then
    out.flush
    return ()
  let line := (line.dropEndWhile (fun (c : Char) => c == '\n' || c == '\r')).toString
  out.putStrLn (dispatch line)
  if line == "flush" then out.flush
  loop h out

def main : IO Unit := do
  let stdin ← IO.getStdin
  let stdout ← IO.getStdout
  loop stdin stdout
