/-
Which execution model a new worker gets (C14: "with the main_thread_only model …" — the model is chosen by the spec
(`popen//execmodel=main_thread_only`) or, when the spec is silent, by the group's *remote* default
(`group.set_execmodel(local, remote)`; `remote` defaults to `local`)).

    def set_execmodel(self, execmodel, remote_execmodel=None):
        if self._gateways: raise ValueError
        if remote_execmodel is None: remote_execmodel = execmodel
        self._execmodel = get_execmodel(execmodel); self._remote_execmodel = get_execmodel(remote_execmodel)
    makegateway:  if spec.execmodel is None: spec.execmodel = self.remote_execmodel.backend

From which of the two group attributes `makegateway` takes the default is read off the source by the translator
(`Generated.execmodelDefaultSteps`) — `codeSrc`.
-/
import ExecnetVerif.Generated.Tables
namespace ExecnetVerif.ExecChoice

inductive Backend where
  | thread | mainThreadOnly | eventlet | gevent
  deriving DecidableEq, Repr

structure GroupCfg where
  localModel : Backend
  remoteModel : Backend
  deriving DecidableEq, Repr

/-- `Group.set_execmodel(execmodel, remote_execmodel)` on a group without gateways -/
def setExecmodel (e : Backend) : Option Backend → GroupCfg
  | none => { localModel := e, remoteModel := e }
  | some r => { localModel := e, remoteModel := r }

inductive Source where
  | remoteDefault   -- `self.remote_execmodel.backend`
  | localDefault    -- `self.execmodel.backend`
  | other
  deriving DecidableEq, Repr

/-- what the current source does -/
def codeSrc : Source :=
  if Generated.execmodelDefaultSteps = ["if spec.execmodel is None", "spec.execmodel = self.remote_execmodel.backend"] then .remoteDefault
  else if Generated.execmodelDefaultSteps = ["if spec.execmodel is None", "spec.execmodel = self.execmodel.backend"] then .localDefault
  else .other

/-- the model the worker of `makegateway(spec)` runs with; `none` = not determined by this model -/
def workerModel (src : Source) (g : GroupCfg) : Option Backend → Option Backend
  | some b => some b
  | none =>
    match src with
    | .remoteDefault => some g.remoteModel
    | .localDefault => some g.localModel
    | .other => none

end ExecnetVerif.ExecChoice
