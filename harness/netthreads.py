"""Thread-level scenarios on the real in-process gateway pair under the deterministic scheduler:
several user threads per side, remote_exec bodies, both receiver threads, random schedules at every
synchronisation point (optionally chunked reads / a cut at a byte offset).  Judged by model-free
oracles of C02, C03, C04, C07, C10 and C18 (no model involved here).
"""
from __future__ import annotations

import builtins

from . import sched as S


class Script:
    """what one remote_exec body does: a list of actions on its channel"""

    def __init__(self, actions):
        self.actions = actions


class Ctl2:
    def __init__(self, sc):
        self.sc = sc
        self.scripts = {}     # channel id -> list of actions
        self.log = {}         # channel id -> list of events observed by the body
        self.newchans = {}
        self.gate = {}

    def body(self, channel):
        cid = channel.id
        log = self.log.setdefault(cid, [])
        for act in self.scripts.get(cid, []):
            k = act[0]
            if k == "send":
                try:
                    channel.send(act[1])
                except OSError:
                    log.append(("send-refused",))  # the peer closed/dropped the channel meanwhile
            elif k == "recv":
                try:
                    log.append(("item", channel.receive()))
                except EOFError:
                    log.append(("eof",))
                    break
            elif k == "drain":
                for item in channel:
                    log.append(("item", item))
                log.append(("eof",))
            elif k == "drain_until":
                while True:
                    try:
                        item = channel.receive()
                    except EOFError:
                        log.append(("eof",))
                        break
                    if item == act[1]:
                        break
                    log.append(("item", item))
            elif k == "raise":
                from .netexec import body_exception
                raise body_exception(act[1])
            elif k == "newchan":
                c = channel.gateway.newchannel()
                self.newchans.setdefault(cid, []).append(c)
                log.append(("newchan", c.id))
                channel.send(("chan", c))
                for v in act[1]:
                    c.send(v)
                if act[2]:
                    c.close()
            elif k == "wait":
                ev = self.gate.setdefault(act[1], self.sc.Event())
                ev.wait()
            elif k == "yield":
                self.sc.yield_point("body")


BODY2 = "import builtins\nbuiltins.__verif_ctl2__.body(channel)\n"


class Scenario:
    def __init__(self, execnet, rng, backend="thread", max_chunk=None, cut_b2a_at=None, preempt=0):
        self.execnet = execnet
        self.rng = rng
        self.backend = backend
        self.max_chunk = max_chunk
        self.cut_b2a_at = cut_b2a_at
        self.preempt = preempt
        self.error = None
        self.sc = None

    def run(self, main_fn):
        """main_fn(self, gw, ctl) runs as the main logical thread on side A"""
        import os

        src_prefix = os.path.dirname(self.execnet.__file__)
        sc = S.Scheduler(rng=self.rng, timeouts="when_stuck", max_steps=600000, preempt_lines=self.preempt,
                         preempt_prob=0.05, src_prefix=src_prefix)
        self.sc = sc
        pair = S.GatewayPair(self.execnet, sc, self.backend, rng=self.rng, max_chunk=self.max_chunk, cut_b2a_at=self.cut_b2a_at)
        self.pair = pair
        ctl = Ctl2(sc)
        self.ctl = ctl
        builtins.__verif_ctl2__ = ctl
        self.timed_out_waits = 0

        def main():
            gw = pair.start()
            try:
                main_fn(self, gw, ctl)
            finally:
                self.shutdown(gw)

        try:
            sc.run(main, wall_timeout=90)
        except S.Deadlock as e:
            self.error = "deadlock/hang: " + str(e)[:800]
        finally:
            pair.restore()
            import gc
            gc.collect()  # finalise this run's leftovers now, while no scheduler is active
        errs = [(t.name, repr(t.exc), getattr(t, "tb", "")[-600:]) for t in sc.threads
                if t.exc is not None and not isinstance(t.exc, S.SchedAbort)]
        self.thread_errors = errs
        return self

    def shutdown(self, gw):
        # release every gate, end the connection, let all threads finish
        for ev in list(self.ctl.gate.values()):
            ev.set()
        try:
            self.pair.group.terminate(timeout=1.0)
        except Exception as e:  # noqa: BLE001
            self.error = self.error or ("terminate failed: %r" % (e,))

    def spawn(self, fn, *args, name=None):
        return self.sc.spawn(fn, args, name=name)

    def join(self, threads):
        self.sc.block_until(lambda: all(not t.alive for t in threads), None, "join")


def drain(ch, out, errors):
    """receive until EOF; record items, the ending, and three more receives (EOF must repeat)"""
    try:
        while True:
            out.append(("item", ch.receive()))
    except EOFError:
        out.append(("eof",))
    except BaseException as e:  # noqa: BLE001
        if isinstance(e, S.SchedAbort):
            raise
        out.append(("exc", type(e).__name__, str(e)[-80:]))
    for _ in range(3):
        try:
            out.append(("late-item", ch.receive(timeout=0.5)))
        except EOFError:
            out.append(("eof",))
        except BaseException as e:  # noqa: BLE001
            if isinstance(e, S.SchedAbort):
                raise
            out.append(("exc", type(e).__name__, str(e)[-80:]))
