/-
C18 — Channel ids never collide and channels travel over channels intact.
-/
import ExecnetVerif.Proofs.Net.Wire
import ExecnetVerif.Proofs.Net.Got
import ExecnetVerif.Proofs.Net.Cb
import ExecnetVerif.Proofs.Net.Isolation
import ExecnetVerif.Generated.Tables
import ExecnetVerif.Props.NetGranularity
namespace ExecnetVerif
open Net

/-- the model's id allocation uses the constants of the code: the initiator starts at 1, the worker at
2, both step by 2 (regenerated from Gateway.__init__, serve() and ChannelFactory.new on every run) -/
theorem C18_constants_pinned :
    Generated.channelStartInitiator = (Net.init.a.count : Int) ∧
    Generated.channelStartWorker = (Net.init.b.count : Int) ∧ Generated.channelStride = 2 := by decide

/-- **C18 (distinct ids).** Over ANY history — concurrent `newchannel`/`remote_exec` calls on both
sides in any interleaving — all channel ids handed out are pairwise distinct, so two independently
created channels are never cross-connected. -/
theorem C18_distinct_ids (fails : Item → Bool) (ops : List Op) :
    ((run fails init ops).1.filterMap chanOut).Nodup :=
  Net.C18_distinct_ids fails ops

/-- ids allocated by the initiator are odd, by the worker even -/
theorem C18_parity {fails : Item → Bool} {st st' : State} {s : Side} {id : Nat} (h : Reachable fails st)
    (hs : step fails st (.newchannel s) = (.chan id, st')) : id % 2 = if s = .A then 1 else 0 :=
  Net.C18_parity hs h

theorem C18_parity_remote_exec {fails : Item → Bool} {st st' : State} {id : Nat} (h : Reachable fails st)
    (hs : step fails st .remoteExec = (.chan id, st')) : id % 2 = 1 :=
  Net.C18_parity_remoteExec hs h

/-- **C18 (channels travel).** When an item carrying channel ids is accepted by the receiver thread
(for a callback, or into the queue of a registered channel object), every carried id is afterwards a
live, registered channel object at the receiving side — the existing one for that conversation, or a
fresh one (only the carrying channel itself may meanwhile have been closed by a failing callback).
Hypothesis `hio`: if the item goes to a callback that raises, the connection is still up
(`x.ioOpen = true` suffices) — a callback raising after the IO was closed ends the receiver thread, and
its epilogue unregisters every channel object. -/
theorem C18_travel (fails : Item → Bool) (x : SideSt) (wk : Bool) (id : Nat) (v : Item)
    (hx : ∀ j, (x.chans j).registered = true → (x.chans j).created = true ∧ (x.chans j).alive = true)
    (hacc : x.cbs id ≠ none ∨ ((x.chans id).registered = true ∧ (x.chans id).queue ≠ none))
    (hio : x.cbs id ≠ none → fails v = true → x.ioOpen = true) :
    ∀ c ∈ v.chans,
      ((handle fails x wk (.data id v)).chans c).created = true ∧
      ((handle fails x wk (.data id v)).chans c).alive = true ∧
      (((handle fails x wk (.data id v)).chans c).registered = true ∨
        (c = id ∧ x.cbs id ≠ none ∧ fails v = true ∧ ((handle fails x wk (.data id v)).chans c).closed = true)) :=
  Net.C18_travel fails x wk id v hx hacc hio

/-- **C18 (no growth).** The per-gateway tables only hold open conversations: a registered channel
object is alive, not closed and has not seen the end of its receiving side; a registered callback
belongs to a conversation that has not ended at this side.  Hence the table sizes are bounded by the
number of conversations still open, independent of the length of the history. -/
theorem C18_no_growth {fails : Item → Bool} {st : State} (h : Reachable fails st) (p : Side) (id : Nat) :
    (((st.side p).chans id).registered = true →
      ((st.side p).chans id).alive = true ∧ ((st.side p).chans id).closed = false ∧
      ((st.side p).chans id).rclosed = false) ∧
    (∀ w, (st.side p).cbs id = some w → (st.side p).broken id = false → (st.side p).ended id = false) := by
  have hs := ShapeInv_reachable h p id
  have hc := (CbAll_reachable fails (fun _ hr => ShapeInv_reachable hr) st h).2 p id
  exact ⟨fun hr => ⟨(hs.2.2.1 hr).2.1, (hs.2.2.1 hr).2.2.1, (hs.2.2.1 hr).2.2.2⟩,
    fun w hw hb => (hc.1 w hw hb).2.2⟩

/-- **C18 (both sides forget).** A closed channel object is no longer in the channel table, and — unless
the id was re-opened — a side at which the conversation has ended (own close, the peer's close handled,
connection end) holds neither a table entry nor a callback for it. -/
theorem C18_forget {fails : Item → Bool} {st : State} (h : Reachable fails st) (p : Side) (id : Nat) :
    (((st.side p).chans id).closed = true → ((st.side p).chans id).registered = false) ∧
    (((st.side p).chans id).alive = false → ((st.side p).chans id).registered = false) ∧
    ((st.side p).ended id = true → (st.side p).broken id = false →
      ((st.side p).chans id).registered = false ∧ (st.side p).cbs id = none) := by
  have hs := ShapeInv_reachable h p id
  have hc := (CbAll_reachable fails (fun _ hr => ShapeInv_reachable hr) st h).2 p id
  refine ⟨?_, ?_, ?_⟩
  · intro hcl
    cases hr : ((st.side p).chans id).registered with
    | false => rfl
    | true => have := (hs.2.2.1 hr).2.2.1; simp_all
  · intro hal
    cases hr : ((st.side p).chans id).registered with
    | false => rfl
    | true => have := (hs.2.2.1 hr).2.1; simp_all
  · intro he hb
    refine ⟨hc.2.2.2.2.2.2.2.2 he hb, ?_⟩
    cases hcb : (st.side p).cbs id with
    | none => rfl
    | some w => have := (hc.1 w hcb hb).2.2; simp_all

/-! non-vacuity: both sides allocate concurrently; a channel created by the worker travels to the initiator -/
example : ((run (fun _ => false) init [.remoteExec, .newchannel .B, .newchannel .A, .deliver .B,
      .send .B 1 ⟨5, [2]⟩, .deliver .A, .receive .A 1]).1
    = [.chan 1, .chan 2, .chan 3, .ok, .ok, .ok, .item ⟨5, [2]⟩]) := by decide

end ExecnetVerif
