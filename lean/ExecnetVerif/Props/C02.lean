/-
C02 — Channels deliver each item exactly once, in order, to the right channel.
Theorems over EVERY reachable state of the `Net` model, i.e. every history of API operations of
any number of user threads on both sides interleaved arbitrarily with the deliveries of both
receiver threads (op granularity), for every choice of which callbacks fail.
-/
import ExecnetVerif.Proofs.Net.Wire
import ExecnetVerif.Proofs.Net.Got
import ExecnetVerif.Props.NetGranularity
namespace ExecnetVerif
open Net

/-- **C02 (exactly once, in order, right channel).** The items a side has obtained on a channel —
through `receive`, iteration or its callback — are, in order and without repetition, items the peer
sent on *that* channel (`List.Sublist`: no duplication, no reordering, nothing from elsewhere; items
are arbitrary values, so take them pairwise distinct to read "nothing from another channel"). -/
theorem C02_exactly_once_in_order {fails : Item → Bool} {st : State} (h : Reachable fails st)
    (p : Side) (id : Nat) : List.Sublist ((st.side p).got id) ((st.side p.peer).sent id) := by
  have hg := (GotInv_reachable h p id).1
  have hk := C02_in_order_general h p id
  exact ((List.sublist_append_left _ _).trans hg).trans hk

/-- **C02 (without loss).** As long as this side has kept its end of the conversation (nothing was
dropped for lack of a receiver: `dropped = false`; the id was not re-opened and no callback raised
while draining: `broken = false`), every item the peer sent is accounted for, in order: obtained,
then queued, then still in flight. -/
theorem C02_no_loss {fails : Item → Bool} {st : State} (h : Reachable fails st) (p : Side) (id : Nat)
    (hd : (st.side p).dropped id = false) (hb : (st.side p).broken id = false) :
    (st.side p).got id ++ queueItems ((st.side p).chans id).queue ++ dataOf id (st.side p.peer).out
      = (st.side p.peer).sent id := by
  have hw := WireInv_reachable h p.peer id
  have hk := (KeptInv_reachable h p id).2 hd
  have hg := (GotInv_reachable h p id).2 hb
  have hpp : p.peer.peer = p := by cases p <;> rfl
  rw [hpp] at hw
  rw [hw, ← hk, ← hg]

/-- hence what was obtained is a *prefix* of what was sent -/
theorem C02_prefix {fails : Item → Bool} {st : State} (h : Reachable fails st) (p : Side) (id : Nat)
    (hd : (st.side p).dropped id = false) (hb : (st.side p).broken id = false) :
    (st.side p).got id <+: (st.side p.peer).sent id := by
  rw [← C02_no_loss h p id hd hb, List.append_assoc]
  exact List.prefix_append _ _

/-- **C02 (when can an item be dropped).** The receiver thread drops a DATA item only if, at that
moment, the side has neither a callback nor a registered channel object with a queue for the id —
i.e. only a side that never opened, or already closed or dropped, its end loses items. -/
theorem C02_drop_only_without_receiver (fails : Item → Bool) (x : SideSt) (w : Bool) (id : Nat) (v : Item)
    (hbefore : x.dropped id = false) (hafter : (handle fails x w (.data id v)).dropped id = true) :
    x.cbs id = none ∧ ¬ ((x.chans id).registered = true ∧ (x.chans id).queue ≠ none) := by
  cases hc : x.cbs id with
  | some wb =>
    exfalso
    have hd : (handle fails x w (.data id v)).dropped = x.dropped := by
      simp only [handle, hc]
      repeat' split
      all_goals simp
    rw [hd, hbefore] at hafter
    cases hafter
  | none =>
    refine ⟨rfl, ?_⟩
    rintro ⟨hr, hq⟩
    cases hqq : (x.chans id).queue with
    | none => exact hq hqq
    | some q =>
      have hd : (handle fails x w (.data id v)).dropped = x.dropped := by
        simp only [handle, hc, hr, hqq]
        simp
      rw [hd, hbefore] at hafter
      cases hafter

/-! non-vacuity: a reachable state with a delivered, received item -/
def failsNone : Item → Bool := fun _ => false

example : ((run failsNone init [.remoteExec, .deliver .B, .send .A 1 ⟨7, []⟩, .deliver .B, .receive .B 1]).1
    = [.chan 1, .ok, .ok, .ok, .item ⟨7, []⟩]) := by decide

end ExecnetVerif
