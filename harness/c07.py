"""C07 — channel protocol property (DESIGN.md §4 C07); shared machinery in netprops.py."""
from __future__ import annotations

from . import common, netprops

PROP = "C07"


def run(ctx):
    res = common.Result()
    res.rule = ("(a) op programs with failing callbacks (8% of items) and failing exec bodies vs the Lean Net model; (b) transcript oracle: RemoteError "
                "objects are proper and carry the error; (c) scenarios: a callback raises at every position of the item stream, channel object alive "
                "or dropped, sibling conversation active; remote body raising after n items with 1-3 receivers: RemoteError exactly once after all "
                "earlier items, failing side closed with a proper error, sibling undisturbed, receiver thread alive")
    netprops.op_level(ctx, res, PROP, ctx.budget(350, 18000, 500), profile={"cbfail": 0.2})
    netprops.run_scenarios(ctx, res, netprops.scenario_callback_error, ctx.budget(120, 30000, 400), "cberr")
    netprops.run_scenarios(ctx, res, netprops.scenario_close, ctx.budget(120, 30000, 400), "close")
    return res


def search(ctx, prev):
    return run(ctx)


def replay(ctx, payload):
    c = payload["case"]
    if "ops" in c:
        return netprops.replay_ops(ctx, PROP, c["ops"].split(" ; "))
    return run(ctx)
