"""C20 — specs parse faithfully and group ids stay unique (DESIGN.md §4 C20).

XSpec part: generated key/value lists and raw strings -> real `execnet.XSpec` vs the Lean model
(`xspec.*` driver commands) vs a model-free oracle.  Group part: (A) step-controlled interleavings
of real threads through `Group.allocate_id` / `makegateway` / `exit` with gateway creation stubbed,
compared step by step with the model (`group.run`); (B) line-level pre-emptive interleavings of
the same calls (deterministic baton scheduler + `sys.settrace`, the group's lock substituted by a
scheduler-aware one), judged by the oracle and checked for trace inclusion along the lock order;
(C) a free-running stress run; (D) a small run with real popen gateways and a /proc check.
"""
from __future__ import annotations

import atexit
import glob
import os
import queue
import shlex
import sys
import threading
import time

from . import common

# ---------------------------------------------------------------------------------------
# helpers
# ---------------------------------------------------------------------------------------


def hx(s: str) -> str:
    return s.encode("utf-8").hex() or "-"


def unhx(h: str) -> str:
    return "" if h == "-" else bytes.fromhex(h).decode("utf-8")


def val_tok(v) -> str:
    if v is True:
        return "T"
    if isinstance(v, str):
        return "S" + hx(v)
    return "?" + type(v).__name__


def canon_obj(x) -> str:
    d = vars(x)
    attrs = [(k, v) for k, v in d.items() if k not in ("_spec", "env")]
    out = "ok " + hx(d["_spec"]) + " A"
    for k, v in attrs:
        out += " %s:%s" % (hx(k), val_tok(v))
    out += " E"
    if not isinstance(d.get("env"), dict):
        return out + " ?" + type(d.get("env")).__name__
    for k, v in d["env"].items():
        out += " %s:%s" % (hx(k), val_tok(v))
    return out


ERRS = (IndexError, AttributeError, ValueError)


def impl_parse(XSpec, s):
    """('ok', obj, canon) | ('err', class name, exc)"""
    try:
        x = XSpec(s)
    except ERRS as e:
        return ("err", type(e).__name__, e)
    except BaseException as e:  # noqa: BLE001
        return ("err", "other:" + type(e).__name__, e)
    return ("ok", x, canon_obj(x))


def piece(kv):
    k, v = kv
    return k if v is None else k + "=" + v


def print_kvs(kvs):
    return "//".join(piece(kv) for kv in kvs)


def key_ok(k):
    return k != "" and "=" not in k and "//" not in k and not k.startswith("_")


def val_ok(v):
    return v is None or "//" not in v


def wellformed(kvs):
    """the conditions of the property text (no forced extras)"""
    keys = [k for k, _ in kvs]
    # a specification string is made of at least one key (the empty list is outside the property's quantifier)
    return bool(kvs) and all(key_ok(k) and val_ok(v) for k, v in kvs) and len(set(keys)) == len(keys)


def shape_ok(kvs):
    ps = [piece(kv) for kv in kvs]
    return bool(kvs) and all(key_ok(k) and val_ok(v) for k, v in kvs) and not any(p.endswith("/") for p in ps[:-1])


def ok_keys(kvs):
    keys = [k for k, _ in kvs]
    return shape_ok(kvs) and len(set(keys)) == len(keys) and "env" not in keys


def classify_xspec(kvs, outcome):
    """map a failure on a well-formed list to the *specific* known-finding shape, or None"""
    if not kvs:
        return None
    ps = [piece(kv) for kv in kvs]
    if any(p.endswith("/") for p in ps[:-1]):
        return "C20-component-ending-in-slash"
    if any(k == "env" for k, _ in kvs) and outcome[0] == "err" and outcome[1] == "ValueError":
        return "C20-plain-key-env"
    return None


def expected_attrs(kvs):
    attrs, env = {}, {}
    for k, v in kvs:
        val = True if v is None else v
        if k.startswith("env:"):
            env[k[4:]] = val
        else:
            attrs[k] = val
    return attrs, env


CLASS_NAMES = ["chdir", "dont_write_bytecode", "execmodel", "id", "installvia", "nice", "popen", "python",
               "socket", "ssh", "ssh_config", "vagrant_ssh", "via"]


def oracle_ok_object(kvs, s, x, absent_names):
    """model-free judgement of a successfully parsed well-formed list; returns a complaint or None"""
    try:
        return _oracle_ok_object(kvs, s, x, absent_names)
    except Exception as e:  # noqa: BLE001 - the object misbehaves: that is a finding, not a tool failure
        return "inspecting the parsed object raised %r" % (e,)


def _oracle_ok_object(kvs, s, x, absent_names):
    attrs, env = expected_attrs(kvs)
    d = dict(vars(x))
    if d.pop("_spec", None) != s:
        return "_spec is not the given string"
    got_env = d.pop("env", None)
    if not isinstance(got_env, dict) or list(got_env.items()) != list(env.items()):
        return "env is %r, expected %r" % (got_env, env)
    if list(d.items()) != list(attrs.items()):
        return "attributes are %r, expected %r" % (d, attrs)
    for k, v in attrs.items():
        got = getattr(x, k)
        if got != v or type(got) is not type(v):
            return "getattr(%r) is %r, expected %r" % (k, got, v)
    if x.env is not got_env:
        return "getattr('env') is not the env dict"
    for n in absent_names:
        if n in attrs or n == "env" or n == "" or n.startswith("_"):
            continue
        if getattr(x, n) is not None:
            return "absent name %r reads %r, expected None" % (n, getattr(x, n))
    if str(x) != s:
        return "str() is %r" % str(x)
    return None


def oracle_eq_hash(XSpec, s, x, t):
    """x = XSpec(s); t another accepted string (may equal s)"""
    try:
        y = XSpec(t)
    except ERRS:
        return None
    if (x == y) is not (s == t):
        return "XSpec(%r) == XSpec(%r) is %r" % (s, t, x == y)
    if (x != y) is not (s != t):
        return "XSpec(%r) != XSpec(%r) is %r" % (s, t, x != y)
    if hash(x) != hash(s):
        return "hash differs from hash of the text"
    if s == t and hash(x) != hash(y):
        return "equal specs hash differently"
    return None


# ---------------------------------------------------------------------------------------
# generators (XSpec)
# ---------------------------------------------------------------------------------------
ALPHA = list("abpenvxk") + ["=", ":", "/", " ", "_", "é", "ü", "漢", "😀", ".", "-", "0", "1", "\t"]
WEIGHTS = [4] * 8 + [2, 3, 3, 2, 2, 1, 1, 1, 1, 1, 1, 1, 1, 1]
REAL_KEYS = ["popen", "python", "id", "chdir", "nice", "ssh", "socket", "via", "execmodel", "env:PATH", "env:A", "env:",
             "env:é", "dont_write_bytecode", "installvia", "ssh_config", "vagrant_ssh", "ENV:A", "env", "envx", "en"]


def gen_text(rng, maxlen=6):
    n = rng.choice([0, 1, 1, 2, 2, 3, 4, maxlen])
    return "".join(rng.choices(ALPHA, WEIGHTS, k=n))


def gen_key(rng):
    r = rng.random()
    if r < 0.35:
        return rng.choice(REAL_KEYS)
    if r < 0.45:
        return "env:" + gen_text(rng, 4)
    return gen_text(rng)


def gen_wellformed(rng):
    """a list meeting the property's conditions (the forced extra ones only by chance)"""
    n = rng.choice([1, 1, 2, 2, 2, 3, 3, 4, 5, 7]) if rng.random() > 0.02 else 0
    kvs, seen = [], set()
    tries = 0
    while len(kvs) < n and tries < 60:
        tries += 1
        k = gen_key(rng).replace("=", "")
        while "//" in k:
            k = k.replace("//", "/")
        if not key_ok(k) or k in seen:
            continue
        if rng.random() < 0.35:
            v = None
        else:
            v = gen_text(rng, 8)
            while "//" in v:
                v = v.replace("//", "/:")
        seen.add(k)
        kvs.append((k, v))
    return kvs


def gen_raw(rng):
    """malformed stream: any string over the alphabet (duplicates, leading '_', empty components)"""
    parts = []
    for _ in range(rng.choice([0, 1, 1, 2, 3, 4])):
        r = rng.random()
        if r < 0.15:
            parts.append("")
        elif r < 0.3:
            parts.append("_" + gen_text(rng, 3))
        elif r < 0.45 and parts:
            parts.append(rng.choice(parts))
        elif r < 0.55:
            parts.append("=" + gen_text(rng, 3))
        else:
            k = gen_key(rng)
            parts.append(k if rng.random() < 0.4 else k + "=" + gen_text(rng, 5))
    sep = "//" if rng.random() < 0.9 else rng.choice(["/", "///", "////"])
    return sep.join(parts)


PY_ALPHA = list("abcpython3") + [" ", " ", "/", "-", ".", "'", '"', "\\", "\t", "é", "="]


def gen_python_value(rng):
    r = rng.random()
    if r < 0.3:
        return rng.choice(["python3", "/usr/bin/python3 -O", "'/opt/my py/bin/python' -u", '"a b"/c', "sudo -u x python",
                           "C:\\Python\\python.exe", "", "a\\ b", "py 'unterminated", 'py "x', "a  b", " lead", "trail "])
    v = "".join(rng.choice(PY_ALPHA) for _ in range(rng.randrange(0, 12)))
    while "//" in v:
        v = v.replace("//", "/")
    return v


# ---------------------------------------------------------------------------------------
# XSpec checks
# ---------------------------------------------------------------------------------------
XCORPUS_KVS = [
    # minimised past failures of the pinned tree (run first)
    [("env:A", "1"), ("env:A", "2")],            # D16: duplicate env: key was accepted
    [("env:A", None), ("popen", None), ("env:A", "x")],
    [("env:", "1"), ("env:", "2")],
    [("popen", None), ("popen", "123")],
    # the forced hypotheses (known findings D17 and the empty list)
    [("a", "b/"), ("c", None)],
    [("k/", None), ("c", None)],
    [("/c", None), ("a/", None), ("c", None)],
    [("env", None)],
    [("popen", None), ("env", "x")],
    [],
    # boundaries that must work
    [("a", "b/")], [("/a", None), ("b", None)], [("a/", "/b"), ("c", None)], [("a", "b=c")], [("a", "")],
    [("env:", None)], [("env:_X", "1")], [("ENV:A", "1")], [("a b", "c d")], [("é", "ü")], [("a:b", None)],
    [("env:x", "1"), ("x", "2")], [("envx", None), ("en", None)], [("a", "/"), ], [("a", "x:/y")],
]
XCORPUS_RAW = ["", "//", "popen//", "=x", "_a", "a//_b", "a//=", "a//a", "a=1//a=2", "env://env:=2", "a=b///c",
               "env", "env=1", "a////b", "/", "a/", "///", "popen//id", "__class__=1", "_spec=x"]


def check_kvs(ctx, res, kvs, origin, batch, expect_dup=False):
    """one key/value list through the real XSpec + oracle; queue the model comparison"""
    XSpec = ctx.execnet.XSpec
    s = print_kvs(kvs)
    out = impl_parse(XSpec, s)
    case = {"kind": "kvs", "kvs": [[k, v] for k, v in kvs], "origin": origin}
    res.count(("kvs", tuple(kvs)), nontrivial=len(kvs) >= 2 or any(c in s for c in "=:/ é_"))
    res.stat("impl_" + (out[1] if out[0] == "err" else "ok"))
    keys = [k for k, _ in kvs]
    if expect_dup or (shape_ok(kvs) and len(set(keys)) != len(keys)):
        # a repeated key of any kind is rejected with ValueError
        res.stat("dup_cases")
        if not (out[0] == "err" and out[1] == "ValueError"):
            res.violations.append(dict(case=case, what="repeated key not rejected with ValueError: %s" % (out[2] if out[0] == "ok" else out[1]), finding=None))
    elif wellformed(kvs):
        complaint = None
        if out[0] == "err":
            complaint = "well-formed spec %r rejected with %s" % (s, out[1])
        else:
            rng = ctx.rng("absent:" + s)
            absent = CLASS_NAMES + [gen_text(rng) for _ in range(4)] + ["zzz", "Popen", "env:"]
            complaint = oracle_ok_object(kvs, s, out[1], absent)
            if complaint is None:
                other = rng.choice([s, s + "//zz", s.replace("a", "b"), "popen", print_kvs(kvs[::-1])])
                complaint = oracle_eq_hash(XSpec, s, out[1], other)
        if complaint is not None:
            fid = classify_xspec(kvs, out)
            if fid:
                res.stat("known_" + fid)
                if res.stats["known_" + fid] > 2:
                    complaint = None  # one replayable instance per shape is enough
            if complaint is not None:
                res.violations.append(dict(case=case, what=complaint, finding=fid))
    batch.append((kvs, s, out, case))


def check_raw(ctx, res, s, origin, batch):
    """malformed stream: error class vs the model; accepted strings must still print back and
    hold exactly their components (model-free: Python's own split/partition)"""
    XSpec = ctx.execnet.XSpec
    out = impl_parse(XSpec, s)
    case = {"kind": "raw", "string": s, "origin": origin}
    res.count(("raw", s), nontrivial="//" in s)
    res.stat("raw_" + (out[1] if out[0] == "err" else "ok"))
    if out[0] == "err" and out[1].startswith("other:"):
        res.violations.append(dict(case=case, what="XSpec(%r) raised %s" % (s, out[1]), finding=None))
    if out[0] == "ok":
        x = out[1]
        kvs = []
        for comp in s.split("//"):
            k, eq, v = comp.partition("=")
            kvs.append((k, v if eq else None))
        complaint = oracle_ok_object(kvs, s, x, CLASS_NAMES)
        if complaint is None:
            complaint = oracle_eq_hash(XSpec, s, x, s)
        if complaint is not None:
            res.violations.append(dict(case=case, what="accepted string %r: %s" % (s, complaint), finding=None))
    batch.append((s, out, case))


def compare_kvs_batch(ctx, res, batch):
    lines = []
    for kvs, s, out, case in batch:
        toks = []
        for k, v in kvs:
            toks += [hx(k), "-" if v is None else "S" + hx(v)]
        lines.append(" ".join(["xspec.kvs"] + toks))
    outs = ctx.driver.ask(lines)
    for (kvs, s, out, case), line in zip(batch, outs):
        exp_res = out[2] if out[0] == "ok" else "err " + out[1]
        exp = "%s %s %s %s" % ("T" if ok_keys(kvs) else "F", "T" if shape_ok(kvs) else "F", hx(s), exp_res)
        if line != exp:
            res.mismatches.append(dict(op="xspec.kvs", case=case, impl=exp[:300], model=line[:300]))
        else:
            res.traces += 1


def compare_raw_batch(ctx, res, batch, rng):
    lines, meta = [], []
    for s, out, case in batch:
        lines.append("xspec.parse " + hx(s))
        meta.append(("parse", s, out, case, None))
        if out[0] == "ok":
            x = out[1]
            names = list(vars(x))[2:][:2] + ["env", rng.choice(CLASS_NAMES), gen_text(rng), "_nope", "_spec", ""]
            for n in names:
                lines.append("xspec.getattr %s %s" % (hx(s), hx(n)))
                meta.append(("getattr", s, out, case, n))
    outs = ctx.driver.ask(lines)
    for (kind, s, out, case, n), line in zip(meta, outs):
        if kind == "parse":
            exp = out[2] if out[0] == "ok" else "err " + out[1]
        else:
            x = out[1]
            try:
                v = getattr(x, n)
            except ERRS as e:
                exp = "err " + type(e).__name__
            else:
                if v is None:
                    exp = "ok none"
                elif n == "env" and not isinstance(v, dict):
                    exp = "ok env ?" + type(v).__name__
                elif n == "env":
                    exp = ("ok env " + " ".join("%s:%s" % (hx(k), val_tok(w)) for k, w in v.items())).rstrip()
                elif n == "_spec":
                    exp = "ok text " + hx(v)
                else:
                    exp = "ok val " + val_tok(v)
        if line != exp:
            res.mismatches.append(dict(op="xspec." + kind, case=dict(case, name=n), impl=exp[:300], model=line[:300]))
        else:
            res.traces += 1


def compare_eq_batch(ctx, res, pairs):
    XSpec = ctx.execnet.XSpec
    lines, exps = [], []
    for s, t in pairs:
        try:
            x, y = XSpec(s), XSpec(t)
        except ERRS:
            continue
        lines.append("xspec.eq %s %s" % (hx(s), hx(t)))
        exps.append("ok %s %s %s" % ("T" if x == y else "F", "T" if x != y else "F", "T" if canon_obj(x) == canon_obj(y) else "F"))
    for line, exp, ln in zip(ctx.driver.ask(lines), exps, lines):
        if line != exp:
            res.mismatches.append(dict(op="xspec.eq", case=ln, impl=exp, model=line))


def check_python_value(ctx, res, v, origin):
    """`python=` values: the value is kept verbatim, popen_args / shell_split_path split it as shlex does"""
    gio = ctx.execnet.gateway_io
    XSpec = ctx.execnet.XSpec
    case = {"kind": "python", "value": v, "origin": origin}
    res.count(("python", v), nontrivial=any(c in v for c in " '\"\\"))
    for extra, flag in (("", False), ("//dont_write_bytecode", True)):
        s = "popen" + extra + "//python=" + v      # the value last: it may end in '/'
        try:
            spec = XSpec(s)
        except ERRS as e:
            res.violations.append(dict(case=case, what="XSpec(%r) raised %r" % (s, e), finding=None))
            return
        if spec.python != v or spec.popen is not True:
            res.violations.append(dict(case=case, what="python value read back as %r" % (spec.python,), finding=None))
            return
        try:
            want = (shlex.split(v) if v else [sys.executable]) + ["-u"] + (["-B"] if flag else []) + ["-c", gio.popen_bootstrapline]
        except ValueError:
            want = "ValueError"
        try:
            got = gio.popen_args(spec)
        except ValueError:
            got = "ValueError"
        except BaseException as e:  # noqa: BLE001
            got = "other:" + type(e).__name__
        if got != want:
            res.violations.append(dict(case=case, what="popen_args gives %r, shlex gives %r" % (got, want), finding=None))
            return
    try:
        want = shlex.split(v)
    except ValueError:
        want = "ValueError"
    try:
        got = gio.shell_split_path(v)
    except ValueError:
        got = "ValueError"
    if got != want:
        res.violations.append(dict(case=case, what="shell_split_path gives %r, shlex gives %r" % (got, want), finding=None))
    res.stat("python_values")


def run_xspec(ctx, res):
    kb, rb = [], []
    for kvs in XCORPUS_KVS:
        check_kvs(ctx, res, [tuple(kv) for kv in kvs], "corpus", kb)
    for s in XCORPUS_RAW:
        check_raw(ctx, res, s, "corpus", rb)
    n = ctx.budget(12000, 300000, 40000)
    rng = ctx.rng("kvs")
    eq_pairs = []
    for i in range(n):
        kvs = gen_wellformed(rng)
        check_kvs(ctx, res, kvs, "gen", kb)
        if i % 4 == 0 and ok_keys(kvs):
            # duplicate stream: repeat one key (plain or env:) with another value, anywhere
            k, _ = rng.choice(kvs)
            v = None if rng.random() < 0.3 else gen_text(rng, 4).replace("//", "/").rstrip("/")
            dup = list(kvs)
            dup.insert(rng.randrange(len(dup) + 1), (k, v))
            if shape_ok(dup):
                check_kvs(ctx, res, dup, "gen-dup", kb, expect_dup=True)
                res.stat("dup_env" if k.startswith("env:") else "dup_plain")
        if i % 3 == 0:
            check_raw(ctx, res, gen_raw(rng), "gen-raw", rb)
        if i % 50 == 0 and kvs:
            s = print_kvs(kvs)
            eq_pairs.append((s, rng.choice([s, s + "//q", print_kvs(kvs[::-1]), "popen"])))
        if i < 6:
            res.sample(print_kvs(kvs)[:120])
    compare_kvs_batch(ctx, res, kb)
    compare_raw_batch(ctx, res, rb, ctx.rng("getattr"))
    compare_eq_batch(ctx, res, eq_pairs)
    rng = ctx.rng("python")
    for v in ["", "python3", "'/opt/my py/bin/python' -O", 'py "x', "a\\ b"]:
        check_python_value(ctx, res, v, "corpus")
    for _ in range(ctx.budget(1000, 40000, 5000)):
        check_python_value(ctx, res, gen_python_value(rng), "gen")


# ---------------------------------------------------------------------------------------
# Group: fakes and stubs
# ---------------------------------------------------------------------------------------
class InjectedFailure(OSError):
    pass


class FakeIO:
    def wait(self):
        return 0

    def kill(self):
        pass

    def close_write(self):
        pass


class FakeGateway:
    """what `gateway_bootstrap.bootstrap` returns in the stubbed runs"""

    def __init__(self, io, spec):
        self._io = io
        self.spec = spec
        self.id = spec.id
        self._exited = False

    def exit(self):
        # like Gateway.exit, but with its own flag instead of `self not in self._group`: that test
        # iterates Group._gateways without the lock and can miss a gateway while another one is
        # being removed (outside C20's quantifier, which has concurrent creation only)
        if self._exited:
            return
        self._exited = True
        self._group._unregister(self)

    def join(self, timeout=None):
        pass


class Stubs:
    """monkeypatch gateway_io.create_io / gateway_bootstrap.bootstrap for the duration of a block"""

    def __init__(self, execnet, create_io, bootstrap):
        self.gio = execnet.gateway_io
        self.gbs = execnet.gateway_bootstrap
        self.new = (create_io, bootstrap)

    def __enter__(self):
        self.old = (self.gio.create_io, self.gbs.bootstrap)
        self.gio.create_io, self.gbs.bootstrap = self.new
        return self

    def __exit__(self, *a):
        self.gio.create_io, self.gbs.bootstrap = self.old


def new_group(execnet):
    g = execnet.Group()
    atexit.unregister(g._cleanup_atexit)
    return g


def drop_group(group):
    for gw in list(group):
        gw.exit()
    group._gateways_to_join[:] = []


def container_complaint(group, unknown_ids=("no-such-id", "gw999999")):
    """lookup by id / index / membership agree with iteration order"""
    try:
        return _container_complaint(group, unknown_ids)
    except Exception as e:  # noqa: BLE001
        return "the container protocol raised %r" % (e,)


def _container_complaint(group, unknown_ids):
    gws = list(group)
    if len(group) != len(gws):
        return "len(group) != len(list(group))"
    for i, gw in enumerate(gws):
        if group[i] is not gw:
            return "group[%d] is not the %d-th iterated gateway" % (i, i)
        if group[gw.id] is not gw:
            return "group[%r] is not the iterated gateway with that id" % (gw.id,)
        if group[gw] is not gw:
            return "group[gw] is not gw"
        if gw.id not in group or gw not in group:
            return "iterated gateway %r is not `in` the group" % (gw.id,)
    ids = [gw.id for gw in gws]
    for u in unknown_ids:
        if u in ids:
            continue
        if u in group:
            return "%r in group although no gateway has that id" % (u,)
        try:
            group[u]
            return "group[%r] did not raise KeyError" % (u,)
        except KeyError:
            pass
    try:
        group[len(gws)]
        return "group[len] did not raise IndexError"
    except IndexError:
        pass
    return None


# ---------------------------------------------------------------------------------------
# (A) step-controlled interleavings: one model micro-step at a time
# ---------------------------------------------------------------------------------------
class StepWorker(threading.Thread):
    def __init__(self, idx):
        super().__init__(daemon=True, name="c20-step-%d" % idx)
        self.idx = idx
        self.cmds = queue.Queue()
        self.parked = threading.Event()
        self.go = threading.Event()
        self.where = "idle"      # idle | create | bootstrap
        self.result = None
        self.decision = None
        self.spec = None

    def run(self):
        while True:
            cmd = self.cmds.get()
            if cmd is None:
                return
            try:
                self.result = ("ok", cmd())
            except BaseException as e:  # noqa: BLE001
                self.result = ("exc", e)
            self.where = "idle"
            self.parked.set()

    # called from inside the stubs, in this thread
    def park(self, where):
        self.where = where
        self.parked.set()
        if not self.go.wait(30):
            raise RuntimeError("step worker abandoned")
        self.go.clear()
        return self.decision

    # called from the controlling thread
    def send(self, cmd):
        self.result = None
        self.parked.clear()
        self.cmds.put(cmd)
        self._wait()

    def resume(self, decision):
        self.decision = decision
        self.result = None
        self.parked.clear()
        self.go.set()
        self._wait()

    def _wait(self):
        if not self.parked.wait(30):
            raise common.ToolFailure("C20 step worker did not reach its next step within 30 s")


def step_create_io(spec, execmodel):
    w = threading.current_thread()
    w.spec = spec
    if w.park("create") == "fail":
        raise InjectedFailure("injected create_io failure")
    return FakeIO()


def step_bootstrap(io, spec):
    w = threading.current_thread()
    gw = FakeGateway(io, spec)
    w.park("bootstrap")
    return gw


EXPLICIT_IDS = ["gw0", "gw1", "gw2", "gw3", "x", "y", "é", "gw10"]


def gen_step_schedule(rng, nthreads, nsteps):
    """only steps that are enabled; the generator mirrors the thread program counters"""
    pcs = ["idle"] * nthreads
    held = [[] for _ in range(nthreads)]   # specs with an id allocated by allocate_id, per thread
    sched = []
    nreg = 0
    for _ in range(nsteps):
        t = rng.randrange(nthreads)
        if pcs[t] == "idle":
            r = rng.random()
            if r < 0.15:
                sched.append([t, "A"])
                held[t].append(1)
            elif r < 0.4:
                sched.append([t, "B"])
                pcs[t] = "?"
            elif r < 0.5 and held[t]:
                sched.append([t, "H"])           # makegateway with the spec prepared by allocate_id
                held[t].pop()
                pcs[t] = "?"
            elif r < 0.85:
                sched.append([t, "E", rng.choice(EXPLICIT_IDS)])
                pcs[t] = "?"
            elif nreg:
                sched.append([t, "U", rng.randrange(nreg)])
            else:
                sched.append([t, "B"])
                pcs[t] = "?"
        elif pcs[t] == "create":
            sched.append([t, "C" if rng.random() < 0.75 else "F"])
            pcs[t] = "bootstrap" if sched[-1][1] == "C" else "idle"
        elif pcs[t] == "bootstrap":
            sched.append([t, "R"])
            pcs[t] = "idle"
            nreg += 1
        # '?' = the begin step may fail; resolved optimistically (the executor skips disabled steps)
        if pcs[t] == "?":
            pcs[t] = "create"
    return sched


def exec_step_schedule(ctx, res, nthreads, sched, origin):
    """run the schedule on real threads; returns nothing, records violations / mismatches"""
    execnet = ctx.execnet
    XSpec = execnet.XSpec
    case = {"kind": "steps", "threads": nthreads, "schedule": sched, "origin": origin}
    res.count(("steps", nthreads, repr(sched)), nontrivial=len(sched) >= 4)
    group = new_group(execnet)
    workers = [StepWorker(i) for i in range(nthreads)]
    for w in workers:
        w.start()
    held = [[] for _ in range(nthreads)]
    inflight = {}          # thread -> id being created (harness bookkeeping, not the group's)
    registered = []        # gateways in registration order (serial = index)
    autos = []
    tokens, outcomes = [], []
    violated = None

    def live_ids():
        return [gw.id for gw in group]

    def violation(what):
        nonlocal violated
        if violated is None:
            violated = what
            res.violations.append(dict(case=case, what=what, finding=None))

    try:
        with Stubs(execnet, step_create_io, step_bootstrap):
            for st in sched:
                t, op = st[0], st[1]
                w = workers[t]
                before = live_ids()
                if op in ("A", "B", "E", "H"):
                    if w.where != "idle":
                        continue
                    if op == "A":
                        spec = XSpec("popen")
                        w.send(lambda spec=spec: group.allocate_id(spec))
                        tokens.append("%d:A" % t)
                        if w.result[0] == "ok":
                            if spec.id in before or spec.id in inflight.values() or spec.id in autos:
                                violation("allocate_id returned %r which is live, being created or was handed out before" % (spec.id,))
                            autos.append(spec.id)
                            held[t].append(spec)
                            outcomes.append("id:" + hx(spec.id))
                        elif isinstance(w.result[1], ValueError):
                            outcomes.append("ValueError")
                        else:
                            outcomes.append("exc:" + type(w.result[1]).__name__)
                            violation("allocate_id raised %r" % (w.result[1],))
                        continue
                    if op == "H":
                        if not held[t]:
                            continue
                        spec = held[t].pop()
                        want_id = spec.id
                        tokens.append("%d:E:%s" % (t, hx(want_id)))
                    elif op == "E":
                        want_id = st[2]
                        spec = XSpec("popen//id=" + want_id)
                        tokens.append("%d:E:%s" % (t, hx(want_id)))
                    else:
                        want_id = None
                        spec = XSpec("popen")
                        tokens.append("%d:B" % t)
                    taken = want_id is not None and (want_id in before or want_id in inflight.values())
                    w.send(lambda spec=spec: group.makegateway(spec))
                    if w.where == "create":
                        if taken:
                            violation("makegateway with id %r went on to create a process although the id is %s" % (
                                want_id, "live" if want_id in before else "being created by another thread"))
                        if want_id is None:
                            if spec.id in before or spec.id in inflight.values() or spec.id in autos:
                                violation("automatic id %r is live, being created or was handed out before" % (spec.id,))
                            autos.append(spec.id)
                            outcomes.append("id:" + hx(spec.id))
                        else:
                            outcomes.append("ok")
                        inflight[t] = spec.id
                    elif w.result[0] == "exc" and isinstance(w.result[1], ValueError):
                        outcomes.append("ValueError")
                        if live_ids() != before:
                            violation("a makegateway call that raised ValueError changed the group")
                    else:
                        outcomes.append("exc:" + (type(w.result[1]).__name__ if w.result[0] == "exc" else "returned"))
                        violation("makegateway ended with %r before creating anything" % (w.result,))
                elif op in ("C", "F"):
                    if w.where != "create":
                        continue
                    tokens.append("%d:%s" % (t, op))
                    w.resume("ok" if op == "C" else "fail")
                    if op == "C":
                        if w.where == "bootstrap":
                            outcomes.append("ok")
                        else:
                            outcomes.append("lost")
                            inflight.pop(t, None)
                            violation("makegateway ended with %r between create_io and bootstrap" % (w.result,))
                    else:
                        inflight.pop(t, None)
                        if w.result[0] == "exc" and isinstance(w.result[1], InjectedFailure):
                            outcomes.append("ok")
                        else:
                            outcomes.append("exc")
                            violation("a failing create_io surfaced as %r" % (w.result,))
                        if live_ids() != before:
                            violation("a failed makegateway changed the group")
                elif op == "R":
                    if w.where != "bootstrap":
                        continue
                    tokens.append("%d:R" % t)
                    the_id = inflight.pop(t, None)
                    w.resume(None)
                    if w.result[0] == "ok":
                        gw = w.result[1]
                        registered.append(gw)
                        outcomes.append("ok")
                        if live_ids() != before + [the_id] or gw.id != the_id:
                            violation("after registering %r the group iterates %r (was %r)" % (the_id, live_ids(), before))
                    else:
                        outcomes.append("exc:" + type(w.result[1]).__name__)
                        violation("registration of %r failed with %r after the process was created" % (the_id, w.result[1]))
                elif op == "U":
                    if w.where != "idle" or st[2] >= len(registered):
                        continue
                    gw = registered[st[2]]
                    tokens.append("%d:U:%d" % (t, st[2]))
                    was_in = gw in group
                    w.send(gw.exit)
                    outcomes.append("ok" if was_in else "noop")
                    if w.result[0] != "ok" or gw in group:
                        violation("exit of gateway %r: %r, still in group: %r" % (gw.id, w.result, gw in group))
                ids = live_ids()
                if len(set(ids)) != len(ids):
                    violation("two live gateways share an id: %r" % (ids,))
                c = container_complaint(group)
                if c:
                    violation("container protocol: " + c)
                if violated:
                    break
            strangers = [gw for gw in group if gw not in registered]
            if strangers and not violated:
                violation("the group holds gateways that no successful makegateway call returned: %r (a call raised after registering)"
                          % ([gw.id for gw in strangers],))
            final_live = " ".join("%s#%d" % (hx(gw.id), registered.index(gw) if gw in registered else -1) for gw in group)
            final_res = " ".join(sorted(hx(i) for i in inflight.values()))
            final = "%s | live %s | reserved %s | counter %d" % (" ".join(outcomes), final_live, final_res, group._autoidcounter)
            # let every parked thread out (creation fails), then nothing may be left behind
            for w in workers:
                while w.where != "idle":
                    w.resume("fail" if w.where == "create" else None)
                    if w.where == "idle" and w.result[0] == "ok":
                        registered.append(w.result[1])
    finally:
        for w in workers:
            if w.where != "idle":
                w.decision = "fail"
                w.go.set()
            w.cmds.put(None)
        for w in workers:
            w.join(5)
        drop_group(group)
    if violated is None:
        res.stat("step_schedules")
        return ("group.run " + " ".join(tokens), final, case)
    return None


def run_steps(ctx, res):
    items = []
    for nthreads, sched in STEP_CORPUS:
        r = exec_step_schedule(ctx, res, nthreads, sched, "corpus")
        if r:
            items.append(r)
    rng = ctx.rng("steps")
    for _ in range(ctx.budget(700, 15000, 2500)):
        nthreads = rng.choice([2, 2, 3, 3, 4])
        sched = gen_step_schedule(rng, nthreads, rng.choice([4, 8, 12, 20, 30]))
        r = exec_step_schedule(ctx, res, nthreads, sched, "gen")
        if r:
            items.append(r)
    outs = ctx.driver.ask([i[0] for i in items])
    for (line, exp, case), out in zip(items, outs):
        if out != exp:
            res.mismatches.append(dict(op="group.run", case=case, impl=exp[:400], model=out[:400]))
        else:
            res.traces += 1
    if items:
        res.sample(items[-1][0][:200])


STEP_CORPUS = [
    # D12: explicit id colliding with a live gateway / with one being created / with an automatic id
    (2, [[0, "E", "x"], [0, "C"], [0, "R"], [1, "E", "x"], [1, "C"], [1, "R"]]),
    (2, [[0, "E", "x"], [1, "E", "x"], [0, "C"], [1, "C"], [0, "R"], [1, "R"]]),
    (2, [[0, "B"], [1, "E", "gw0"], [0, "C"], [1, "C"], [1, "R"], [0, "R"]]),
    (2, [[0, "E", "gw0"], [0, "C"], [0, "R"], [1, "B"], [1, "B"], [1, "C"], [1, "R"]]),
    (3, [[0, "A"], [1, "E", "gw0"], [1, "C"], [1, "R"], [0, "H"], [2, "B"], [2, "F"], [2, "E", "gw1"], [2, "C"], [2, "R"], [0, "U", 0], [0, "E", "gw0"]]),
    (2, [[0, "E", "x"], [0, "F"], [1, "E", "x"], [1, "C"], [1, "R"], [0, "U", 0], [0, "E", "x"], [0, "C"], [0, "R"]]),
]


# ---------------------------------------------------------------------------------------
# (B) line-level pre-emptive interleavings
# ---------------------------------------------------------------------------------------
class LineSched:
    """Deterministic baton scheduler: logical threads are real threads, exactly one runs at a time;
    every traced line of multi.py, every lock operation and every stub is a scheduling point."""

    def __init__(self, chooser, trace_files):
        self.chooser = chooser          # (runnable tids, current tid or None) -> tid
        self.trace_files = trace_files
        self.threads = {}               # tid -> dict(sem, state)
        self.main = threading.Semaphore(0)
        self.acq_log = []               # tid per lock acquisition, in order
        self.error = None
        self.points = 0

    def _runnable(self):
        return sorted(t for t, d in self.threads.items() if d["state"] == "ready")

    def _hand_over(self, me, nxt):
        if nxt == me:
            return
        self.threads[nxt]["sem"].release()
        if me is not None:
            if not self.threads[me]["sem"].acquire(timeout=30):
                raise RuntimeError("baton lost")

    def yield_point(self, me):
        self.points += 1
        run = self._runnable()
        nxt = self.chooser(run, me)
        self._hand_over(me, nxt)

    def block(self, me):
        """me cannot continue; somebody else must run"""
        self.threads[me]["state"] = "blocked"
        run = self._runnable()
        if not run:
            self.error = "deadlock: every thread is blocked"
            self.main.release()
            self.threads[me]["sem"].acquire(timeout=30)
            raise RuntimeError("deadlock")
        self._hand_over(me, self.chooser(run, None))

    def finish(self, me):
        self.threads[me]["state"] = "done"
        run = self._runnable()
        if run:
            self.threads[self.chooser(run, None)]["sem"].release()
        elif all(d["state"] == "done" for d in self.threads.values()):
            self.main.release()
        else:
            self.error = "deadlock at thread end"
            self.main.release()

    def tracer(self, me):
        files = self.trace_files

        def local(frame, event, arg):
            if event == "line":
                self.yield_point(me)
            return local

        def glob_(frame, event, arg):
            if frame.f_code.co_filename in files:
                return local
            return None

        return glob_

    def run(self, programs):
        real = []
        for tid, prog in enumerate(programs):
            self.threads[tid] = dict(sem=threading.Semaphore(0), state="ready")

            def body(tid=tid, prog=prog):
                self.threads[tid]["sem"].acquire()
                sys.settrace(self.tracer(tid))
                try:
                    prog(tid)
                except BaseException as e:  # noqa: BLE001
                    self.error = self.error or "logical thread %d died: %r" % (tid, e)
                finally:
                    sys.settrace(None)
                    self.finish(tid)

            th = threading.Thread(target=body, daemon=True, name="c20-line-%d" % tid)
            real.append(th)
            th.start()
        self.threads[self.chooser(self._runnable(), None)]["sem"].release()
        if not self.main.acquire(timeout=60):
            raise common.ToolFailure("C20 line scheduler did not finish within 60 s")
        for th in real:
            th.join(5)


class SchedLock:
    """substitute for Group._autoidlock under LineSched"""

    def __init__(self, sched):
        self.sched = sched
        self.owner = None
        self.waiters = []

    def _me(self):
        return int(threading.current_thread().name.rsplit("-", 1)[1])

    def acquire(self, blocking=True, timeout=-1):
        me = self._me()
        self.sched.yield_point(me)
        while self.owner is not None:
            if self.owner == me:
                self.sched.error = "thread %d re-acquired the non-reentrant group lock" % me
                raise RuntimeError("self-deadlock")
            self.waiters.append(me)
            self.sched.block(me)
        self.owner = me
        self.sched.acq_log.append(me)
        return True

    def release(self):
        self.owner = None
        for t in self.waiters:
            self.sched.threads[t]["state"] = "ready"
        self.waiters = []

    __enter__ = acquire

    def __exit__(self, *a):
        self.release()


def gen_line_programs(rng, nthreads):
    progs = []
    for _ in range(nthreads):
        p = []
        nheld = nmade = 0
        for _ in range(rng.choice([1, 2, 2, 3, 4])):
            r = rng.random()
            if r < 0.2:
                p.append(["alloc"])
                nheld += 1
            elif r < 0.5:
                p.append(["make", None, rng.random() < 0.15])
                nmade += 1
            elif r < 0.6 and nheld:
                p.append(["make_held", None, False])
                nheld -= 1
                nmade += 1
            elif r < 0.9:
                p.append(["make", rng.choice(EXPLICIT_IDS[:5]), rng.random() < 0.15])
                nmade += 1
            elif nmade:
                p.append(["exit", rng.randrange(nmade)])
            else:
                p.append(["make", None, False])
                nmade += 1
        progs.append(p)
    return progs


def exec_line_case(ctx, res, programs, choices, origin, p_switch=0.35, rng=None):
    """programs: per thread a list of calls; choices: recorded scheduling decisions (replay) or None"""
    execnet = ctx.execnet
    XSpec = execnet.XSpec
    multi_file = execnet.multi.__file__
    group = new_group(execnet)
    recorded = []
    replay = list(choices) if choices is not None else None

    def chooser(run, me):
        if replay is not None:
            want = replay.pop(0) if replay else None
            nxt = want if want in run else (me if me in run else run[0])
        elif me is not None and me in run and (len(run) == 1 or rng.random() >= p_switch):
            nxt = me
        else:
            others = [t for t in run if t != me] or run
            nxt = rng.choice(others)
        recorded.append(nxt)
        return nxt

    sched = LineSched(chooser, {multi_file})
    group._autoidlock = SchedLock(sched)
    calls = []      # dicts: thread, index, call, result, created, acq (global sequence numbers), gw
    made = {}       # thread -> list of call records of its makegateway calls (for "exit")
    current = {}

    def create_io(spec, execmodel):
        tid = int(threading.current_thread().name.rsplit("-", 1)[1])
        rec = current[tid]
        rec["created"] = True
        rec["id"] = spec.id
        sched.yield_point(tid)
        if rec["call"][2]:
            raise InjectedFailure("injected")
        return FakeIO()

    def bootstrap(io, spec):
        tid = int(threading.current_thread().name.rsplit("-", 1)[1])
        gw = FakeGateway(io, spec)
        sched.yield_point(tid)
        return gw

    def program(p):
        def body(tid):
            held = []
            for k, call in enumerate(p):
                rec = dict(thread=tid, index=k, call=call, created=False, result=None, gw=None, id=None)
                current[tid] = rec
                a0 = len(sched.acq_log)
                mine0 = sched.acq_log.count(tid)
                try:
                    if call[0] == "alloc":
                        spec = XSpec("popen")
                        group.allocate_id(spec)
                        held.append(spec)
                        rec["result"] = ("id", spec.id)
                    elif call[0] in ("make", "make_held"):
                        if call[0] == "make_held":
                            spec = held.pop() if held else XSpec("popen")
                            rec["explicit"] = spec.id
                        else:
                            spec = XSpec("popen" if call[1] is None else "popen//id=" + call[1])
                            rec["explicit"] = call[1]
                        made.setdefault(tid, []).append(rec)
                        gw = group.makegateway(spec)
                        rec["gw"] = gw
                        rec["result"] = ("gw", gw.id)
                    elif call[0] == "exit":
                        mine = made.get(tid, [])
                        target = mine[call[1]] if call[1] < len(mine) else None
                        if target is not None and target["gw"] is not None and not target.get("exited"):
                            target["exited"] = True
                            rec["target"] = target
                            target["gw"].exit()
                            rec["result"] = ("exited", target["gw"].id)
                        else:
                            rec["result"] = ("skipped", None)
                except BaseException as e:  # noqa: BLE001
                    rec["result"] = ("exc", e)
                # the global sequence numbers of this thread's lock acquisitions during the call
                seq = [i for i, t in enumerate(sched.acq_log) if t == tid]
                rec["acq"] = seq[mine0:]
                del a0
                calls.append(rec)
        return body

    with Stubs(execnet, create_io, bootstrap):
        sched.run([program(p) for p in programs])
    case = {"kind": "line", "programs": programs, "choices": recorded, "origin": origin}
    res.count(("line", repr(programs), tuple(recorded)), nontrivial=len(programs) >= 2)
    res.stat("line_points", sched.points)
    try:
        if sched.error:
            res.violations.append(dict(case=case, what="scheduler: " + sched.error, finding=None))
            return None
        # ---- oracle (model-free)
        complaint = None
        live = list(group)
        ids = [gw.id for gw in live]
        if len(set(ids)) != len(ids):
            complaint = "two live gateways share an id: %r" % (ids,)
        autos = []
        should_live = []
        for rec in calls:
            kind, val = rec["result"]
            if rec["call"][0] == "alloc" and kind == "id":
                autos.append(val)
            if rec["call"][0] in ("make", "make_held"):
                if kind == "gw":
                    if rec.get("explicit") is None:
                        autos.append(val)
                    elif val != rec["explicit"]:
                        complaint = complaint or "gateway id %r differs from the requested %r" % (val, rec["explicit"])
                    if not rec.get("exited"):
                        should_live.append(rec["gw"])
                elif kind == "exc":
                    e = val
                    if isinstance(e, InjectedFailure):
                        pass
                    elif rec["created"]:
                        complaint = complaint or "makegateway(id=%r) raised %s after its process was created (left behind)" % (rec["id"], type(e).__name__)
                    elif not isinstance(e, ValueError):
                        complaint = complaint or "makegateway raised %r" % (e,)
            if rec["call"][0] == "alloc" and kind == "exc" and not isinstance(val, ValueError):
                complaint = complaint or "allocate_id raised %r" % (val,)
            if rec["call"][0] == "exit" and kind == "exc":
                complaint = complaint or "exit raised %r" % (val,)
        if len(set(autos)) != len(autos):
            complaint = complaint or "automatically allocated ids repeat: %r" % (autos,)
        if sorted(map(id, live)) != sorted(map(id, should_live)):
            complaint = complaint or "group holds %r, the successful and not exited calls made %r" % (ids, [g.id for g in should_live])
        complaint = complaint or (container_complaint(group) and "container protocol: " + container_complaint(group))
        if complaint:
            res.violations.append(dict(case=case, what=complaint, finding=None))
            return None
        # ---- trace inclusion along the lock order
        events = []     # (sequence number, sub-order, token, expected outcome, record)
        for rec in calls:
            kind, val = rec["result"]
            acq = rec["acq"]
            t = rec["thread"]
            if rec["call"][0] == "alloc":
                want = 1
                if len(acq) == want:
                    events.append((acq[0], 0, "%d:A" % t, "id:" + hx(val) if kind == "id" else "ValueError", rec))
            elif rec["call"][0] in ("make", "make_held"):
                begin = "%d:B" % t if rec.get("explicit") is None else "%d:E:%s" % (t, hx(rec["explicit"]))
                if kind == "gw":
                    want = 2
                    if len(acq) == want:
                        events.append((acq[0], 0, begin, "id:" + hx(val) if rec.get("explicit") is None else "ok", rec))
                        events.append((acq[0], 1, "%d:C" % t, "ok", rec))
                        events.append((acq[1], 0, "%d:R" % t, "ok", rec))
                elif isinstance(val, InjectedFailure):
                    want = 2
                    if len(acq) == want:
                        events.append((acq[0], 0, begin, "id:" + hx(rec["id"]) if rec.get("explicit") is None else "ok", rec))
                        events.append((acq[1], 0, "%d:F" % t, "ok", rec))
                else:
                    want = 1
                    if len(acq) == want:
                        events.append((acq[0], 0, begin, "ValueError", rec))
            elif rec["call"][0] == "exit":
                want = 1 if kind == "exited" else 0
                if kind == "exited" and len(acq) == want:
                    events.append((acq[0], 0, ("U", t), "ok", rec))
            if len(acq) != want:
                res.mismatches.append(dict(op="group.lock-discipline", case=case,
                                           impl="call %r took the group lock %d times" % (rec["call"], len(acq)), model="%d times" % want))
                return None
        events.sort(key=lambda e: (e[0], e[1]))
        serial = {}
        n = 0
        for e in events:
            if isinstance(e[2], str) and e[2].endswith(":R"):
                serial[id(e[4])] = n
                n += 1
        tokens, outs = [], []
        for e in events:
            if isinstance(e[2], tuple):
                tokens.append("%d:U:%d" % (e[2][1], serial[id(e[4]["target"])]))
            else:
                tokens.append(e[2])
            outs.append(e[3])
        by_gw = {id(rec["gw"]): serial[id(rec)] for rec in calls if rec.get("gw") is not None and id(rec) in serial}
        final_live = " ".join("%s#%d" % (hx(gw.id), by_gw[id(gw)]) for gw in live)
        exp = "%s | live %s | reserved  | counter %d" % (" ".join(outs), final_live, group._autoidcounter)
        res.stat("line_schedules")
        return ("group.run " + " ".join(tokens), exp, case)
    finally:
        group._autoidlock = threading.Lock()
        drop_group(group)


LINE_CORPUS = [
    [[["make", "x", False]], [["make", "x", False]]],
    [[["make", None, False]], [["make", "gw0", False]], [["make", None, False]]],
    [[["alloc"], ["make_held", None, False]], [["make", "gw0", False], ["exit", 0]]],
    [[["make", None, True], ["make", None, False]], [["alloc"], ["alloc"]]],
]


def run_lines(ctx, res):
    items = []
    rng = ctx.rng("lines")
    cases = [(p, "corpus") for p in LINE_CORPUS for _ in range(6)]
    for _ in range(ctx.budget(500, 12000, 2000)):
        cases.append((gen_line_programs(rng, rng.choice([2, 2, 3, 3, 4])), "gen"))
    for programs, origin in cases:
        r = exec_line_case(ctx, res, programs, None, origin, p_switch=rng.choice([0.15, 0.35, 0.6]), rng=rng)
        if r:
            items.append(r)
    outs = ctx.driver.ask([i[0] for i in items])
    for (line, exp, case), out in zip(items, outs):
        if out != exp:
            res.mismatches.append(dict(op="group.run(lock order)", case=case, impl=exp[:400], model=out[:400]))
        else:
            res.traces += 1


# ---------------------------------------------------------------------------------------
# (C) free-running stress, (D) real popen gateways
# ---------------------------------------------------------------------------------------
def run_stress(ctx, res):
    execnet = ctx.execnet
    XSpec = execnet.XSpec
    rounds = ctx.budget(3, 40, 10)
    old = sys.getswitchinterval()
    sys.setswitchinterval(1e-6)
    try:
        for r in range(rounds):
            group = new_group(execnet)
            nthreads = 4
            barrier = threading.Barrier(nthreads)
            got = [[] for _ in range(nthreads)]
            errs = []

            def body(i):
                barrier.wait()
                for k in range(150):
                    try:
                        if k % 3 == 0:
                            gw = group.makegateway(XSpec("popen"))
                            got[i].append(gw.id)
                        elif k % 3 == 1:
                            spec = XSpec("popen")
                            group.allocate_id(spec)
                            got[i].append(spec.id)
                        else:
                            try:
                                group.makegateway(XSpec("popen//id=shared%d" % (k % 7)))
                            except ValueError:
                                pass
                    except BaseException as e:  # noqa: BLE001
                        errs.append(repr(e))

            with Stubs(execnet, lambda spec, execmodel: FakeIO(), FakeGateway):
                ths = [threading.Thread(target=body, args=(i,), daemon=True) for i in range(nthreads)]
                for t in ths:
                    t.start()
                for t in ths:
                    t.join(60)
            case = {"kind": "stress", "round": r}
            res.count(("stress", r, ctx.seed), nontrivial=True)
            allids = [i for l in got for i in l]
            ids = [gw.id for gw in group]
            what = None
            if errs:
                what = "stress: unexpected exception " + errs[0]
            elif len(set(allids)) != len(allids):
                what = "stress: automatically allocated ids repeat under 4 free-running threads"
            elif len(set(ids)) != len(ids):
                what = "stress: two live gateways share an id"
            else:
                c = container_complaint(group)
                what = c and "stress: container protocol: " + c
            drop_group(group)
            if what:
                res.violations.append(dict(case=case, what=what, finding=None))
                return
            res.stat("stress_ids", len(allids))
    finally:
        sys.setswitchinterval(old)


def child_pids():
    me = os.getpid()
    out = set()
    for p in glob.glob("/proc/[0-9]*/stat"):
        try:
            with open(p) as f:
                s = f.read()
        except OSError:
            continue
        rest = s.rsplit(")", 1)[1].split()
        if int(rest[1]) == me and rest[0] != "Z":
            out.add(int(p.split("/")[2]))
    return out


def run_real(ctx, res):
    """3 threads x real popen gateways (one explicit id), then colliding explicit ids; no child may
    survive group.terminate()"""
    execnet = ctx.execnet
    case = {"kind": "real"}
    res.count(("real", ctx.seed), nontrivial=True)
    before = child_pids()
    group = execnet.Group()
    atexit.unregister(group._cleanup_atexit)
    what = None
    try:
        barrier = threading.Barrier(3)
        outs = [None] * 3
        specs = ["popen//id=x", "popen", "popen"]

        def body(i):
            barrier.wait()
            try:
                outs[i] = ("gw", group.makegateway(specs[i]))
            except BaseException as e:  # noqa: BLE001
                outs[i] = ("exc", e)

        ths = [threading.Thread(target=body, args=(i,), daemon=True) for i in range(3)]
        for t in ths:
            t.start()
        for t in ths:
            t.join(60)
        bad = [o for o in outs if o is None or o[0] != "gw"]
        if bad:
            what = "real run: makegateway failed: %r" % (bad[0],)
        else:
            ids = [gw.id for gw in group]
            if len(set(ids)) != 3 or "x" not in ids:
                what = "real run: ids %r" % (ids,)
            nchild = len(child_pids() - before)
            for taken in ["x", [i for i in ids if i != "x"][0]]:
                try:
                    group.makegateway("popen//id=" + taken)
                    what = what or "real run: second gateway with id %r was created" % taken
                except ValueError:
                    pass
                except BaseException as e:  # noqa: BLE001
                    what = what or "real run: taken id %r raised %s instead of ValueError" % (taken, type(e).__name__)
            if len(child_pids() - before) != nchild:
                what = what or "real run: a rejected makegateway started a process"
            ids = [gw.id for gw in group]
            if len(set(ids)) != len(ids):
                what = what or "real run: two live gateways share an id: %r" % (ids,)
            c = container_complaint(group)
            what = what or (c and "real run: container protocol: " + c)
            if what is None:
                # the gateways work and are the ones the group hands out
                for gw in group:
                    ch = gw.remote_exec("channel.send(channel.gateway.id)")
                    if ch.receive(10) != gw.id + "-worker":
                        what = "real run: gateway %r answers with another id" % gw.id
    finally:
        group.terminate(timeout=3.0)
    deadline = time.monotonic() + 5
    left = child_pids() - before
    while left and time.monotonic() < deadline:
        time.sleep(0.1)
        left = child_pids() - before
    if left:
        what = what or "real run: child process(es) %r survive group.terminate()" % sorted(left)
        for p in left:
            try:
                os.kill(p, 9)
            except OSError:
                pass
    if len(group):
        what = what or "real run: group not empty after terminate"
    if what:
        res.violations.append(dict(case=case, what=what, finding=None))
    else:
        res.stat("real_runs")


# ---------------------------------------------------------------------------------------
# entry points
# ---------------------------------------------------------------------------------------
RULE = ("XSpec: key/value lists generated to meet the property's conditions over an alphabet with '=', ':', '/', space, '_', tab and "
        "unicode (real key names mixed in), a derived duplicate stream (plain and env: keys), a malformed raw-string stream, python= "
        "values vs shlex; each through the real XSpec, the Lean model and a model-free oracle (attribute dict with order, env, absent "
        "names, str, ==, !=, hash). Group: step-controlled schedules of 2-4 real threads (one model micro-step at a time, creation "
        "stubbed) compared step by step with the model, line-level pre-emptive schedules (baton scheduler + settrace, group lock "
        "substituted) judged by the oracle and replayed on the model along the lock order, a free-running stress run, one run with "
        "real popen gateways and a /proc check. distinct = distinct list / string / schedule; non-trivial = two or more components, "
        "a special character, or a schedule of four or more steps")


def run(ctx):
    res = common.Result()
    res.rule = RULE
    res.assumptions = [
        "C20: interleavings finer than one critical section of Group._autoidlock (plus the lock-free creation step) are covered by "
        "the line-level scheduler runs only, not by a theorem; CPython dict insertion order, str.split/find and setattr are re-stated by the model",
    ]
    for phase in (run_xspec, run_steps, run_lines, run_stress, run_real):
        guarded(ctx, res, phase)
    return res


def guarded(ctx, res, phase, *args):
    """an exception escaping from execnet's own code through the harness is the implementation
    misbehaving (a violation), not a failure of the machinery"""
    try:
        return phase(ctx, res, *args)
    except common.ToolFailure:
        raise
    except Exception as e:  # noqa: BLE001
        tb = e.__traceback__
        while tb.tb_next is not None:
            tb = tb.tb_next
        where = os.path.realpath(tb.tb_frame.f_code.co_filename)
        if not where.startswith(os.path.realpath(os.path.join(common.REPO, "src")) + os.sep):
            raise
        res.violations.append(dict(case={"kind": "phase", "phase": phase.__name__},
                                   what="%s: execnet raised %r at %s:%d" % (phase.__name__, e, os.path.basename(where), tb.tb_lineno),
                                   finding=None))
        return None


def search(ctx, prev):
    return run(ctx)


def replay(ctx, payload):
    res = common.Result()
    res.rule = RULE
    case = payload["case"]
    kind = case.get("kind")
    if kind == "kvs":
        b = []
        check_kvs(ctx, res, [(k, v) for k, v in case["kvs"]], "replay", b, expect_dup=case.get("origin") == "gen-dup")
        compare_kvs_batch(ctx, res, b)
    elif kind == "raw":
        b = []
        check_raw(ctx, res, case["string"], "replay", b)
        compare_raw_batch(ctx, res, b, ctx.rng("getattr"))
    elif kind == "python":
        check_python_value(ctx, res, case["value"], "replay")
    elif kind == "steps":
        r = exec_step_schedule(ctx, res, case["threads"], case["schedule"], "replay")
        if r and ctx.driver.ask([r[0]])[0] != r[1]:
            res.mismatches.append(dict(op="group.run", case=case, impl=r[1], model=ctx.driver.ask([r[0]])[0]))
    elif kind == "line":
        r = exec_line_case(ctx, res, case["programs"], case["choices"], "replay")
        if r and ctx.driver.ask([r[0]])[0] != r[1]:
            res.mismatches.append(dict(op="group.run(lock order)", case=case, impl=r[1], model=ctx.driver.ask([r[0]])[0]))
    elif kind == "stress":
        run_stress(ctx, res)
    elif kind == "real":
        run_real(ctx, res)
    elif kind == "phase":
        guarded(ctx, res, globals()[case["phase"]])
    else:
        raise common.ToolFailure("C20: unknown replay kind %r" % (kind,))
    return res
