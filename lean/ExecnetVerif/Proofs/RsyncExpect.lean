/-
C17 helper: the leaves of the closed form of `syncWith` are what the property demands
(decision table + content phase + link phase at one file / link position), hence the closed form
is `expect` / `expectSent`.
-/
import ExecnetVerif.Proofs.RsyncPhases
import ExecnetVerif.Proofs.PathLemmas
namespace ExecnetVerif.Rsync
open ExecnetVerif.Path

/-- a file position ends as the source file — given the quick check is sound there -/
theorem leaf3_file (cl : RawPath → Bool × List String) (dest : RawPath) (b : Blob) (m t : Nat) (tgt : Tree)
    (hq : quickCheckSound (.file b m t) tgt) : leaf3 cl dest (.file b m t) tgt = .file b m t := by
  cases tgt with
  | file b' m' t' =>
    simp only [quickCheckSound] at hq
    simp only [leaf3, leafLink, run_nil, leaf2, leafReq, leaf1, decideFile]
    by_cases hs : b.size = b'.size
    · by_cases ht : t = t'
      · have hb := hq hs ht
        subst hb; subst ht
        by_cases hm : m = m' <;> simp [hm]
      · by_cases hb : b' = b
        · subst hb
          simp [hs, ht, toUp, senderData, getPath, run, updPath, writeFile]
        · simp [hs, ht, toUp, senderData, getPath, run, updPath, writeFile, hb]
    · simp [hs, toUp, senderData, getPath, run, updPath, writeFile]
  | dir m' es => simp [leaf3, leafLink, leaf2, leafReq, leaf1, decideFile, toUp, senderData, getPath, run, updPath, writeFile]
  | link tg => simp [leaf3, leafLink, leaf2, leafReq, leaf1, decideFile, toUp, senderData, getPath, run, updPath, writeFile]
  | absent => simp [leaf3, leafLink, leaf2, leafReq, leaf1, decideFile, toUp, senderData, getPath, run, updPath, writeFile]

/-- a link position ends as a link to the resolved target, whatever was there -/
theorem leaf3_link (cl : RawPath → Bool × List String) (dest : RawPath) (tg : RawPath) (tgt : Tree) :
    leaf3 cl dest (.link tg) tgt = .link (resolveLink dest (cl tg)) := by
  simp [leaf3, leafLink, leaf2, leafReq, run, updPath]

/-- content travels for a file position unless the target has a file of the same size with the same
mtime (quick check) or the same content (checksum) -/
theorem leafSent_file (b : Blob) (m t : Nat) (tgt : Tree) :
    leafSent (.file b m t) tgt = expectSent (.file b m t) tgt := by
  cases tgt with
  | file b' m' t' =>
    simp only [leafSent, leafReq, decideFile, expectSent]
    by_cases hs : b.size = b'.size
    · by_cases ht : t = t'
      · subst ht
        by_cases hm : m = m' <;> simp [hs, hm]
      · by_cases hb : b' = b
        · subst hb; simp [hs, ht, sentL, senderData, getPath]
        · have hb' : ¬ b = b' := fun e => hb e.symm
          simp [hs, ht, sentL, senderData, getPath, hb, hb']
    · simp [hs, sentL, senderData, getPath]
  | dir m' es => simp [leafSent, leafReq, decideFile, expectSent, sentL, senderData, getPath]
  | link tg => simp [leafSent, leafReq, decideFile, expectSent, sentL, senderData, getPath]
  | absent => simp [leafSent, leafReq, decideFile, expectSent, sentL, senderData, getPath]

theorem skel_eq_expect (sd dest : RawPath) (del : Bool) (src : Tree) :
    wfTree src → ∀ tgt, quickCheckSound src tgt →
      skel (leaf3 (classify sd) dest) del src tgt = expect sd dest del src tgt := by
  refine Tree.rec
    (motive_1 := fun src => wfTree src → ∀ tgt, quickCheckSound src tgt →
      skel (leaf3 (classify sd) dest) del src tgt = expect sd dest del src tgt)
    (motive_2 := fun es => wfTreeL es → ∀ tes, quickCheckSoundL es tes →
      skelL (leaf3 (classify sd) dest) del es tes = expectL sd dest del es tes)
    (motive_3 := fun e => wfTree e.2 → ∀ tgt, quickCheckSound e.2 tgt →
      skel (leaf3 (classify sd) dest) del e.2 tgt = expect sd dest del e.2 tgt)
    ?_ ?_ ?_ ?_ ?_ ?_ ?_ src
  · intro b m t _ tgt hq
    simp only [skel, expect]
    exact leaf3_file _ _ b m t tgt hq
  · intro m es ih hw tgt hq
    simp only [wfTree] at hw
    simp only [quickCheckSound] at hq
    simp only [skel, expect, others]
    rw [ih hw.2 (entriesOf tgt) hq]
  · intro tg _ tgt _
    simp only [skel, expect, leaf3_link, resolveLink]
    rw [classify_spec]
  · intro hw; simp [wfTree] at hw
  · intro _ tes _; simp [skelL, expectL]
  · intro head tail ihh iht hw tes hq
    obtain ⟨n, s⟩ := head
    simp only [wfTreeL] at hw
    simp only [quickCheckSoundL] at hq
    simp only [skelL, expectL]
    rw [ihh hw.1 (lookup n tes) hq.1, iht hw.2 tes hq.2]
  · intro n t ih; exact ih

theorem collect_eq_expectSent (src : Tree) :
    ∀ tgt, collect (fun n p => n :: p) leafSent src tgt = expectSent src tgt := by
  refine Tree.rec
    (motive_1 := fun src => ∀ tgt, collect (fun n p => n :: p) leafSent src tgt = expectSent src tgt)
    (motive_2 := fun es => ∀ tes, collectL (fun n p => n :: p) leafSent es tes = expectSentL es tes)
    (motive_3 := fun e => ∀ tgt, collect (fun n p => n :: p) leafSent e.2 tgt = expectSent e.2 tgt)
    ?_ ?_ ?_ ?_ ?_ ?_ ?_ src
  · intro b m t tgt; simp only [collect]; exact leafSent_file b m t tgt
  · intro m es ih tgt; simp only [collect, expectSent]; exact ih (entriesOf tgt)
  · intro tg tgt; simp [collect, leafSent, leafReq, expectSent]
  · intro tgt
    simp only [collect, leafSent, leafReq, expectSent]
    cases (decideFile none 0 0 tgt).2 <;> simp [sentL, senderData, getPath]
  · intro tes; simp [collectL, expectSentL]
  · intro head tail ihh iht tes
    obtain ⟨n, s⟩ := head
    simp only [collectL, expectSentL]
    rw [ihh (lookup n tes), iht tes]
  · intro n t ih; exact ih

/-- **the sync in closed form** -/
theorem sync_eq_expect (sd : Sender) (src : Tree) (tg : Target) (hw : wfTree src)
    (hq : quickCheckSound src tg.tree) :
    (sync sd src tg).tree = expect sd.sourcedir tg.destdir tg.delete src tg.tree ∧
    (sync sd src tg).sent = expectSent src tg.tree := by
  have h := syncWith_closed (classify sd.sourcedir) src tg hw
  unfold sync
  rw [h.1, h.2, skel_eq_expect sd.sourcedir tg.destdir tg.delete src hw tg.tree hq, collect_eq_expectSent]
  exact ⟨rfl, rfl⟩

end ExecnetVerif.Rsync
