"""C07 — channel protocol property (DESIGN.md §4 C07); shared machinery in netprops.py."""
from __future__ import annotations

from . import common, netprops

PROP = "C07"


def run(ctx):
    res = common.Result()
    res.rule = ("(a) op programs with failing callbacks (8% of items) and failing exec bodies vs the Lean Net model; (b) transcript oracle: RemoteError "
                "objects are proper and carry the error; (c) scenarios: a callback raises at every position of the item stream, channel object alive "
                "or dropped, sibling conversation active; remote body raising after n items with 1-3 receivers: RemoteError exactly once after all "
                "earlier items, failing side closed with a proper error, sibling undisturbed, receiver thread alive")
    netprops.op_level(ctx, res, PROP, ctx.budget(350, 18000, 500), profile={"cbfail": 0.2})
    netprops.run_scenarios(ctx, res, netprops.scenario_callback_error, ctx.budget(120, 30000, 400), "cberr")
    netprops.run_scenarios(ctx, res, netprops.scenario_close, ctx.budget(120, 30000, 400), "close")
    error_text_probe(ctx, res)
    return res


ERROR_MESSAGES = ["plain", "ünï-cödé ✓", "lone surrogate \udcff in the message", "\ud800", "nul\x00byte", "x" * 300000, ""]


def error_text_probe(ctx, res):
    """Process level: whatever the text of the failure is, it surfaces as a RemoteError naming the exception type — for a failing
    body and for a failing callback — within seconds, and the gateway stays usable (a sibling exec runs afterwards).  Also: a
    remote_exec whose task the worker cannot decode (a channel among the keyword arguments) is a RemoteError on that channel,
    not the end of the connection."""
    execnet = ctx.execnet
    gb = execnet.gateway_base
    group = execnet.Group()
    try:
        gw = group.makegateway("popen")
        # a body that ends with KeyboardInterrupt / SystemExit in the worker's main thread: reported, and the worker goes on
        for exc, marker in (("KeyboardInterrupt()", "keyboard-interrupted"), ("SystemExit(3)", "SystemExit")):
            case = {"probe": "error-text", "where": "body", "raises": exc}
            res.count(("error-text", "exit-like", exc))
            ch = gw.remote_exec("channel.send(1)\nraise %s\n" % exc)
            what = None
            try:
                ch.receive(10)
                try:
                    ch.waitclose(10)
                    what = "a body raising %s closed its channel without an error" % exc
                except gb.RemoteError as e:
                    if marker not in str(e):
                        what = "RemoteError for %s does not say so: %s" % (exc, str(e)[-100:])
                if what is None and gw.remote_exec("channel.send(7)").receive(10) != 7:
                    what = "sibling exec after a body raising %s answered wrongly" % exc
            except Exception as e:  # noqa: BLE001
                what = "after a body raising %s: %r (gateway receiving: %r)" % (exc, e, gw.hasreceiver())
            if what:
                res.violations.append(dict(case=case, what=what))
                return
            res.traces += 1
        for kind in ("body", "callback", "body-after-reconfigure"):
            if kind == "body-after-reconfigure":
                # the error text is protocol data, not user data: the string coercion switches must not touch it
                gw.reconfigure(py2str_as_py3str=False, py3str_as_py2str=True)
            for msg in ERROR_MESSAGES:
                case = {"probe": "error-text", "where": kind, "message": ascii(msg)[:60]}
                res.count(("error-text", kind, ascii(msg)[:60]))
                if kind.startswith("body"):
                    ch = gw.remote_exec("channel.send(1)\nraise ValueError(%r)\n" % (msg,))
                else:
                    ch = gw.remote_exec("def cb(x):\n    raise ValueError(%r)\nchannel.setcallback(cb)\nchannel.send('ready')\nimport time\ntime.sleep(0.5)\n" % (msg,))
                what = None
                try:
                    first = ch.receive(10)
                    if kind == "callback":
                        ch.send("trigger")  # the worker-side callback raises: its side closes the channel with the error
                    try:
                        ch.waitclose(10)
                        what = "the failure (%s, message %s) never surfaced: channel closed without an error" % (kind, ascii(msg)[:40])
                    except gb.RemoteError as e:
                        if "ValueError" not in str(e):
                            what = "RemoteError does not name the exception type: %s" % str(e)[-120:]
                    except gb.TimeoutError:
                        what = "the failure (%s, message %s) never surfaced: waitclose timed out after 10 s" % (kind, ascii(msg)[:40])
                    del first
                except Exception as e:  # noqa: BLE001
                    what = "unexpected %r" % (e,)
                if what is None and not gw.hasreceiver():
                    what = "the gateway stopped receiving after a failure with message %s" % ascii(msg)[:40]
                if what:
                    res.violations.append(dict(case=case, what=what))
                    return
                res.traces += 1
        # a task the worker cannot decode
        case = {"probe": "undecodable-task"}
        res.count(("undecodable-task",))
        other = gw.newchannel()
        what = None
        try:
            ch = gw.remote_exec(_takes_channel, other=other)
            try:
                ch.receive(10)
                what = None  # a worker that can decode it and runs the function is fine as well
            except gb.RemoteError:
                pass
            except (EOFError, gb.TimeoutError) as e:
                what = "remote_exec(function, other=<Channel>) ended with %r instead of a RemoteError (or a local rejection)" % (e,)
        except (ValueError, gb.DumpError, TypeError):
            pass  # rejected locally: fine
        if what is None:
            try:
                if gw.remote_exec("channel.send(42)").receive(10) != 42:
                    what = "sibling exec after the undecodable task answered wrongly"
            except Exception as e:  # noqa: BLE001
                what = "the gateway is unusable after a remote_exec with a channel among the keyword arguments: %r" % (e,)
        if what:
            res.violations.append(dict(case=case, what=what))
        else:
            res.traces += 1
    except Exception as e:  # noqa: BLE001
        res.violations.append(dict(case={"probe": "error-text"}, what="probe failed: %r" % (e,)))
    finally:
        group.terminate(timeout=2.0)


def _takes_channel(channel, other):
    channel.send(other.id)


def search(ctx, prev):
    return run(ctx)


def replay(ctx, payload):
    c = payload["case"]
    if "ops" in c:
        return netprops.replay_ops(ctx, PROP, c["ops"].split(" ; "))
    return run(ctx)
