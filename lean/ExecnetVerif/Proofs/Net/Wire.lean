/-
Net invariants G1 (`WireInv`: wire conservation), G2 (`KeptInv`: delivery bookkeeping) and
G8 (`IdInv`: channel ids), with the corollaries C18 (ids handed out are pairwise distinct and have
the parity of their side) and the general form of C02 (what a side keeps is a subsequence of what
the peer sent).
-/
import ExecnetVerif.Proofs.Net.Plumbing
namespace ExecnetVerif.Net

/-! ## Operations that leave the message logs alone -/

/-- the projection of one side onto the fields `WireInv` and `KeptInv` talk about is unchanged
(`out` only up to non-DATA frames) -/
structure SideSt.LogSame (x x' : SideSt) : Prop where
  sent : x'.sent = x.sent
  delivered : x'.delivered = x.delivered
  kept : x'.kept = x.kept
  dropped : x'.dropped = x.dropped
  out : ∀ id, dataOf id x'.out = dataOf id x.out

def LogSame (st st' : State) : Prop := ∀ s, (st.side s).LogSame (st'.side s)

theorem LogSame.refl (st : State) : LogSame st st := fun _ => ⟨rfl, rfl, rfl, rfl, fun _ => rfl⟩

theorem LogSame.set {st : State} {s : Side} {x : SideSt} (h : (st.side s).LogSame x) :
    LogSame st (st.set s x) := by
  intro t
  rcases Side.self_or_peer s t with rfl | rfl
  · simpa using h
  · simpa using ⟨rfl, rfl, rfl, rfl, fun _ => rfl⟩

theorem LogSame.trans {a b c : State} (h1 : LogSame a b) (h2 : LogSame b c) : LogSame a c := fun s =>
  ⟨(h2 s).sent.trans (h1 s).sent, (h2 s).delivered.trans (h1 s).delivered, (h2 s).kept.trans (h1 s).kept,
   (h2 s).dropped.trans (h1 s).dropped, fun id => ((h2 s).out id).trans ((h1 s).out id)⟩

/-- every operation except `send` and `deliver` leaves the logs alone -/
theorem LogSame_step (fails : Item → Bool) (st : State) (op : Op)
    (hsend : ∀ s id v, op ≠ .send s id v) (hdel : ∀ p, op ≠ .deliver p) :
    LogSame st (step fails st op).2 := by
  cases op with
  | send s id v => exact absurd rfl (hsend s id v)
  | deliver p => exact absurd rfl (hdel p)
  | newchannel s =>
    simp only [step]; split
    · exact .refl _
    · exact .set ⟨rfl, rfl, rfl, rfl, fun _ => rfl⟩
  | remoteExec =>
    simp only [step]; repeat' split
    · exact .refl _
    · exact .set (s := .A) ⟨rfl, rfl, rfl, rfl, fun _ => rfl⟩
    · exact .set (s := .A) ⟨rfl, rfl, rfl, rfl, fun _ => by simp⟩
  | close s id err =>
    simp only [step]; split
    · exact .refl _
    · exact .set ⟨by simp, by simp, by simp, by simp, fun _ => by simp⟩
  | receive s id =>
    simp only [step]; repeat' split
    all_goals first | exact .refl _ | exact .set ⟨rfl, rfl, rfl, rfl, fun _ => rfl⟩
  | waitclose s id =>
    simp only [step]; repeat' split
    all_goals first | exact .refl _ | exact .set ⟨rfl, rfl, rfl, rfl, fun _ => rfl⟩
  | setcallback s id w =>
    simp only [step]; repeat' split
    all_goals first | exact .refl _ | exact .set ⟨rfl, rfl, rfl, rfl, fun _ => rfl⟩
  | drop s id =>
    simp only [step]; repeat' split
    all_goals first
      | exact .refl _
      | exact .set ⟨rfl, rfl, rfl, rfl, fun _ => rfl⟩
      | exact .set ⟨rfl, rfl, rfl, rfl, fun _ => by simp⟩
  | isclosed s id =>
    simp only [step]; split <;> exact .refl _
  | execFinish id o =>
    simp only [step]; split
    · exact .refl _
    · exact .set (s := .B) ⟨by simp, by simp, by simp, by simp, fun _ => by simp⟩
  | cut p =>
    simp only [step]; split
    · exact .refl _
    · exact .trans (b := st.set p (epilogue (st.side p) true))
        (.set ⟨rfl, rfl, rfl, rfl, fun _ => rfl⟩) (.set ⟨rfl, rfl, rfl, rfl, fun _ => rfl⟩)

/-! ## G1: wire conservation -/

theorem WireInv_init : WireInv init := by
  intro s id; cases s <;> rfl

theorem WireInv_of_same {st st' : State} (h : LogSame st st') (hi : WireInv st) : WireInv st' := by
  intro s id
  rw [(h s).sent, (h s.peer).delivered, (h s).out, hi s id]

theorem WireInv_send (fails : Item → Bool) (st : State) (s : Side) (id : Nat) (v : Item)
    (hi : WireInv st) : WireInv (step fails st (.send s id v)).2 := by
  simp only [step]; repeat' split
  all_goals try exact hi
  intro t k
  rcases Side.self_or_peer s t with rfl | rfl
  · simp only [State.side_set_same, State.side_set_peer, dataOf_append_data, upd_apply]
    by_cases hk : k = id
    · subst hk; simp [hi s k]
    · simp [hk, Ne.symm hk, hi s k]
  · simpa using hi s.peer k

theorem WireInv_deliver (fails : Item → Bool) (st : State) (p : Side) (hi : WireInv st) :
    WireInv (step fails st (.deliver p)).2 := by
  simp only [step]; split
  · exact hi
  split
  · exact hi
  rename_i f rest hout
  -- the state after popping and handling the frame, before the possible `ioOpen := false`
  have key : WireInv ((st.set p.peer { st.side p.peer with out := rest }).set p
      (handle fails ((st.set p.peer { st.side p.peer with out := rest }).side p) (p == .B) f)) := by
    intro t k
    rcases Side.self_or_peer p t with rfl | rfl
    · have := hi p k
      simp [this]
    · have := hi p.peer k
      simp [hout] at this
      simp [this, handle_delivered]
      cases f <;> simp [upd_apply]
      split <;> simp_all <;> grind
  split
  · exact WireInv_of_same (.set ⟨rfl, rfl, rfl, rfl, fun _ => rfl⟩) key
  · exact key

theorem WireInv_step (fails : Item → Bool) (st : State) (op : Op) (hi : WireInv st) :
    WireInv (step fails st op).2 := by
  by_cases h1 : ∃ s id v, op = .send s id v
  · obtain ⟨s, id, v, rfl⟩ := h1; exact WireInv_send fails st s id v hi
  by_cases h2 : ∃ p, op = .deliver p
  · obtain ⟨p, rfl⟩ := h2; exact WireInv_deliver fails st p hi
  exact WireInv_of_same (LogSame_step fails st op (by grind) (by grind)) hi

/-- **G1**: everything a side wrote on `id` has been handled by the peer's receiver or is still in
flight, in order -/
theorem WireInv_reachable {fails : Item → Bool} {st : State} (h : Reachable fails st) : WireInv st :=
  Reachable.induction (P := WireInv) WireInv_init (fun st op _ hi => WireInv_step fails st op hi) st h

/-! ## G2: delivery bookkeeping -/

theorem KeptInv_init : KeptInv init := by
  intro p id; cases p <;> simp [init, initSide]

theorem KeptInv_of_eq {st st' : State}
    (h : ∀ s, (st'.side s).kept = (st.side s).kept ∧ (st'.side s).delivered = (st.side s).delivered ∧
      (st'.side s).dropped = (st.side s).dropped) (hi : KeptInv st) : KeptInv st' := by
  intro p id
  rw [(h p).1, (h p).2.1, (h p).2.2]; exact hi p id

theorem KeptInv_of_same {st st' : State} (h : LogSame st st') (hi : KeptInv st) : KeptInv st' :=
  KeptInv_of_eq (fun s => ⟨(h s).kept, (h s).delivered, (h s).dropped⟩) hi

theorem KeptInv_send (fails : Item → Bool) (st : State) (s : Side) (id : Nat) (v : Item)
    (hi : KeptInv st) : KeptInv (step fails st (.send s id v)).2 := by
  simp only [step]; repeat' split
  all_goals try exact hi
  refine KeptInv_of_eq (fun t => ?_) hi
  rcases Side.self_or_peer s t with rfl | rfl <;> simp

theorem KeptInv_deliver (fails : Item → Bool) (st : State) (p : Side) (hi : KeptInv st) :
    KeptInv (step fails st (.deliver p)).2 := by
  simp only [step]; split
  · exact hi
  split
  · exact hi
  rename_i f rest hout
  have key : KeptInv ((st.set p.peer { st.side p.peer with out := rest }).set p
      (handle fails ((st.set p.peer { st.side p.peer with out := rest }).side p) (p == .B) f)) := by
    intro t k
    rcases Side.self_or_peer p t with rfl | rfl
    · obtain ⟨h1, h2⟩ := hi p k
      simp only [State.side_set_same, State.side_peer_set]
      rcases handle_kept_delivered_dropped fails (st.side p) (p == .B) f with
        ⟨id, v, -, hd, ⟨hk, hdr⟩ | ⟨hk, hdr⟩⟩ | ⟨-, hd, hk, hdr⟩
      · rw [hd, hk, hdr]
        by_cases h : k = id
        · subst h; simp only [upd_same]
          exact ⟨List.Sublist.append h1 (List.Sublist.refl _), fun h => by rw [h2 h]⟩
        · simp only [upd_ne _ _ h]; exact ⟨h1, h2⟩
      · rw [hd, hk, hdr]
        by_cases h : k = id
        · subst h; simp only [upd_same]
          exact ⟨h1.trans (List.sublist_append_left _ _), fun h => by simp at h⟩
        · simp only [upd_ne _ _ h]; exact ⟨h1, h2⟩
      · rw [hd, hk, hdr]; exact ⟨h1, h2⟩
    · simpa using hi p.peer k
  split
  · exact KeptInv_of_same (.set ⟨rfl, rfl, rfl, rfl, fun _ => rfl⟩) key
  · exact key

theorem KeptInv_step (fails : Item → Bool) (st : State) (op : Op) (hi : KeptInv st) :
    KeptInv (step fails st op).2 := by
  by_cases h1 : ∃ s id v, op = .send s id v
  · obtain ⟨s, id, v, rfl⟩ := h1; exact KeptInv_send fails st s id v hi
  by_cases h2 : ∃ p, op = .deliver p
  · obtain ⟨p, rfl⟩ := h2; exact KeptInv_deliver fails st p hi
  exact KeptInv_of_same (LogSame_step fails st op (by grind) (by grind)) hi

/-- **G2**: what a side kept (queued or handed to a callback) is a subsequence of what its receiver
handled, and all of it while nothing was dropped -/
theorem KeptInv_reachable {fails : Item → Bool} {st : State} (h : Reachable fails st) : KeptInv st :=
  Reachable.induction (P := KeptInv) KeptInv_init (fun st op _ hi => KeptInv_step fails st op hi) st h

/-- **C02 (general form)**: the items a side keeps on a channel are a subsequence, in order, of the
items the peer sent on it -/
theorem C02_in_order_general {fails : Item → Bool} {st : State} (h : Reachable fails st) :
    ∀ (p : Side) (id : Nat), List.Sublist ((st.side p).kept id) ((st.side p.peer).sent id) := by
  intro p id
  have hw := WireInv_reachable h p.peer id
  rw [Side.peer_peer] at hw
  rw [hw]
  exact ((KeptInv_reachable h p id).1).trans (List.sublist_append_left _ _)

/-! ## G8: channel ids -/

/-- the counter of the side that allocates ids of `k`'s parity -/
def bound (st : State) (k : Nat) : Nat := if k % 2 = 1 then st.a.count else st.b.count

/-- strengthening of `IdInv`: *every* id that occurs anywhere — in a channel record of either side
or in a frame in flight — is below the counter of the side that allocates its parity, and a live
record has been created -/
def IdAux (st : State) : Prop :=
  st.a.count % 2 = 1 ∧ st.b.count % 2 = 0 ∧
  (∀ t k, ((st.side t).chans k).alive = true → ((st.side t).chans k).created = true) ∧
  (∀ t k, ((st.side t).chans k).created = true → k < bound st k) ∧
  (∀ t f, f ∈ (st.side t).out → ∀ k ∈ f.ids, k < bound st k)

theorem IdAux.toIdInv {st : State} (h : IdAux st) : IdInv st := by
  obtain ⟨ha, hb, -, hc, -⟩ := h
  refine ⟨ha, hb, fun id h1 h2 => ?_, fun id h1 h2 => ?_⟩
  · have := hc .A id h1; simpa [bound, h2] using this
  · have := hc .B id h1; simpa [bound, h2] using this

theorem IdAux_init : IdAux init := by
  refine ⟨rfl, rfl, ?_, ?_, ?_⟩ <;> intro t <;> cases t <;> simp [init, initSide]

/-- generic preservation: counters grow by 0 or 2, and everything new is justified -/
theorem IdAux_intro {st st' : State} (h : IdAux st)
    (ha : st'.a.count = st.a.count ∨ st'.a.count = st.a.count + 2)
    (hb : st'.b.count = st.b.count ∨ st'.b.count = st.b.count + 2)
    (halive : ∀ t k, ((st'.side t).chans k).alive = true → ((st'.side t).chans k).created = true)
    (hcreated : ∀ t k, ((st'.side t).chans k).created = true →
      (∃ t', ((st.side t').chans k).created = true) ∨ k < bound st' k)
    (hout : ∀ t f, f ∈ (st'.side t).out → (∃ t', f ∈ (st.side t').out) ∨ ∀ k ∈ f.ids, k < bound st' k) :
    IdAux st' := by
  obtain ⟨pa, pb, -, hc, ho⟩ := h
  have mono : ∀ k, bound st k ≤ bound st' k := by
    intro k; unfold bound; split <;> omega
  refine ⟨by omega, by omega, halive, ?_, ?_⟩
  · intro t k hk
    rcases hcreated t k hk with ⟨t', h'⟩ | h'
    · exact Nat.lt_of_lt_of_le (hc t' k h') (mono k)
    · exact h'
  · intro t f hf k hk
    rcases hout t f hf with ⟨t', h'⟩ | h'
    · exact Nat.lt_of_lt_of_le (ho t' f h' k hk) (mono k)
    · exact h' k hk

theorem bound_set {st : State} {s : Side} {x' : SideSt} (h : x'.count = (st.side s).count) (k : Nat) :
    bound (st.set s x') k = bound st k := by
  cases s <;> simp_all [bound]

/-- an update of one side that does not allocate ids: every record it creates and every id it
writes is already below the bound -/
theorem IdAux_set {st : State} {s : Side} {x' : SideSt} (h : IdAux st)
    (hcount : x'.count = (st.side s).count)
    (halive : ∀ k, (x'.chans k).alive = true → (x'.chans k).created = true)
    (hcreated : ∀ k, (x'.chans k).created = true → ((st.side s).chans k).created = true ∨ k < bound st k)
    (hout : ∀ f ∈ x'.out, f ∈ (st.side s).out ∨ ∀ k ∈ f.ids, k < bound st k) :
    IdAux (st.set s x') := by
  have h' := h
  obtain ⟨pa, pb, hal, hc, ho⟩ := h'
  apply IdAux_intro h
  · cases s <;> simp [hcount]
  · cases s <;> simp [hcount]
  · intro t k
    rcases Side.self_or_peer s t with rfl | rfl
    · simpa using halive k
    · simpa using hal _ _
  · intro t k hk
    rw [bound_set hcount]
    rcases Side.self_or_peer s t with rfl | rfl
    · simp only [State.side_set_same] at hk
      rcases hcreated k hk with h1 | h1
      · exact .inl ⟨_, h1⟩
      · exact .inr h1
    · simp only [State.side_set_peer] at hk; exact .inl ⟨_, hk⟩
  · intro t f hf
    simp only [bound_set hcount]
    rcases Side.self_or_peer s t with rfl | rfl
    · simp only [State.side_set_same] at hf
      rcases hout f hf with h1 | h1
      · exact .inl ⟨_, h1⟩
      · exact .inr h1
    · simp only [State.side_set_peer] at hf; exact .inl ⟨_, hf⟩

/-- an update of one side that neither allocates ids nor creates records nor writes ids -/
structure SideSt.IdQuiet (x x' : SideSt) : Prop where
  count : x'.count = x.count
  created : ∀ k, (x'.chans k).created = (x.chans k).created
  alive : ∀ k, (x'.chans k).alive = true → (x.chans k).alive = true
  out : ∀ f ∈ x'.out, f ∈ x.out ∨ f.ids = []

theorem SideSt.IdQuiet.refl (x : SideSt) : x.IdQuiet x := ⟨rfl, fun _ => rfl, fun _ h => h, fun _ h => .inl h⟩

theorem SideSt.IdQuiet.trans {x y z : SideSt} (h1 : x.IdQuiet y) (h2 : y.IdQuiet z) : x.IdQuiet z := by
  refine ⟨h2.count.trans h1.count, fun k => (h2.created k).trans (h1.created k),
    fun k hk => h1.alive k (h2.alive k hk), fun f hf => ?_⟩
  rcases h2.out f hf with h | h
  · exact h1.out f h
  · exact .inr h

theorem IdAux_quiet {st : State} {s : Side} {x' : SideSt} (h : IdAux st) (q : (st.side s).IdQuiet x') :
    IdAux (st.set s x') := by
  refine IdAux_set h q.count (fun k hk => ?_) (fun k hk => ?_) (fun f hf => ?_)
  · rw [q.created]; exact h.2.2.1 _ _ (q.alive _ hk)
  · rw [q.created] at hk; exact .inl hk
  · rcases q.out f hf with h1 | h1
    · exact .inl h1
    · right; simp [h1]

theorem IdQuiet_chanClose (x : SideSt) (id : Nat) (err : Option Nat) : x.IdQuiet (chanClose x id err).2 := by
  refine ⟨by simp, fun k => by simp, fun k => by simp, fun f hf => ?_⟩
  rcases chanClose_out x id err with h | h <;> rw [h] at hf
  · exact .inl hf
  · simp only [List.mem_append, List.mem_singleton] at hf
    rcases hf with hf | rfl
    · exact .inl hf
    · right; cases err <;> rfl

/-- side `s` allocates the id `count` (its own parity): it may create the record and write the id -/
theorem IdAux_alloc {st : State} {s : Side} {x' : SideSt} (h : IdAux st)
    (hcount : x'.count = (st.side s).count + 2)
    (halive : ∀ k, (x'.chans k).alive = true → (x'.chans k).created = true)
    (hcreated : ∀ k, (x'.chans k).created = true → ((st.side s).chans k).created = true ∨ k = (st.side s).count)
    (hout : ∀ f ∈ x'.out, f ∈ (st.side s).out ∨ ∀ k ∈ f.ids, k = (st.side s).count) :
    IdAux (st.set s x') := by
  have h' := h
  obtain ⟨pa, pb, hal, hc, ho⟩ := h'
  have hnew : (st.side s).count < bound (st.set s x') (st.side s).count := by
    cases s
    · simp [bound, pa, hcount]
    · have : ¬ (st.b.count % 2 = 1) := by omega
      simp [bound, this, hcount]
  apply IdAux_intro h
  · cases s <;> simp [hcount]
  · cases s <;> simp [hcount]
  · intro t k
    rcases Side.self_or_peer s t with rfl | rfl
    · simpa using halive k
    · simpa using hal _ _
  · intro t k hk
    rcases Side.self_or_peer s t with rfl | rfl
    · simp only [State.side_set_same] at hk
      rcases hcreated k hk with h1 | rfl
      · exact .inl ⟨_, h1⟩
      · exact .inr hnew
    · simp only [State.side_set_peer] at hk; exact .inl ⟨_, hk⟩
  · intro t f hf
    rcases Side.self_or_peer s t with rfl | rfl
    · simp only [State.side_set_same] at hf
      rcases hout f hf with h1 | h1
      · exact .inl ⟨_, h1⟩
      · right; intro k hk; rw [h1 k hk]; exact hnew
    · simp only [State.side_set_peer] at hf; exact .inl ⟨_, hf⟩

theorem IdAux_newchannel (fails : Item → Bool) (st : State) (s : Side) (h : IdAux st) :
    IdAux (step fails st (.newchannel s)).2 := by
  simp only [step]; split
  · exact h
  · exact IdAux_alloc h rfl (createAt_alive_created (h.2.2.1 s)) (fun k => createAt_created) (fun f hf => .inl hf)

theorem IdAux_remoteExec (fails : Item → Bool) (st : State) (h : IdAux st) :
    IdAux (step fails st .remoteExec).2 := by
  simp only [step]; repeat' split
  · exact h
  · exact IdAux_alloc (s := .A) h rfl (h.2.2.1 .A) (fun k hk => .inl hk) (fun f hf => .inl hf)
  · refine IdAux_alloc (s := .A) h rfl (createAt_alive_created (h.2.2.1 .A)) (fun k => createAt_created)
      (fun f hf => ?_)
    simp only [List.mem_append, List.mem_singleton] at hf
    rcases hf with hf | rfl
    · exact .inl hf
    · right; intro k hk; simpa [Frame.ids] using hk

theorem IdAux_send (fails : Item → Bool) (st : State) (s : Side) (id : Nat) (v : Item) (h : IdAux st) :
    IdAux (step fails st (.send s id v)).2 := by
  simp only [step]; repeat' split
  all_goals try exact h
  rename_i hen _ _
  simp only [Bool.or_eq_true, Bool.not_eq_eq_eq_not, Bool.not_true, not_or, Bool.not_eq_false,
    List.all_eq_true] at hen
  refine IdAux_set h rfl (h.2.2.1 s) (fun k hk => .inl hk) (fun f hf => ?_)
  simp only [List.mem_append, List.mem_singleton] at hf
  rcases hf with hf | rfl
  · exact .inl hf
  · right; intro k hk
    exact h.2.2.2.1 s k (h.2.2.1 s k (hen.2 k hk))

theorem IdAux_deliver (fails : Item → Bool) (st : State) (p : Side) (h : IdAux st) :
    IdAux (step fails st (.deliver p)).2 := by
  simp only [step]; split
  · exact h
  split
  · exact h
  rename_i f rest hout
  have h1 : IdAux (st.set p.peer { st.side p.peer with out := rest }) :=
    IdAux_quiet h ⟨rfl, fun _ => rfl, fun _ hk => hk, fun g hg => .inl (by rw [hout]; exact List.mem_cons_of_mem _ hg)⟩
  have hf : ∀ k ∈ f.ids, k < bound (st.set p.peer { st.side p.peer with out := rest }) k := by
    intro k hk
    rw [show bound (st.set p.peer { st.side p.peer with out := rest }) k = bound st k from bound_set (by rfl) k]
    exact h.2.2.2.2 p.peer f (by rw [hout]; exact List.mem_cons_self) k hk
  have key := IdAux_set (s := p) (x' := handle fails ((st.set p.peer { st.side p.peer with out := rest }).side p) (p == .B) f)
    h1 (by simp) (fun k => ?_) (fun k hk => ?_) (fun g hg => ?_)
  · split
    · exact IdAux_quiet key ⟨rfl, fun _ => rfl, fun _ hk => hk, fun g hg => .inl hg⟩
    · exact key
  · have hal := h1.2.2.1 p k
    rcases handle_chans_created_alive fails ((st.set p.peer { st.side p.peer with out := rest }).side p) (p == .B) f k
      with ⟨e1, e2⟩ | ⟨-, e1, e2⟩
    · rw [e1, e2]; exact hal
    · rw [e1, e2]; exact createChan_alive_created hal
  · rcases handle_chans_created_alive fails ((st.set p.peer { st.side p.peer with out := rest }).side p) (p == .B) f k
      with ⟨e1, -⟩ | ⟨hm, -, -⟩
    · rw [e1] at hk; exact .inl hk
    · exact .inr (hf k hm)
  · rcases handle_out fails ((st.set p.peer { st.side p.peer with out := rest }).side p) (p == .B) f
      with e | ⟨id, v, -, -, -, -, e⟩ <;> rw [e] at hg
    · exact .inl hg
    · simp only [List.mem_append, List.mem_singleton] at hg
      rcases hg with hg | rfl
      · exact .inl hg
      · right; intro k hk; simp [Frame.ids] at hk

/-- an update of one record that keeps `created` and does not set `alive` -/
theorem IdQuiet_upd {x x' : SideSt} {id : Nat} {c : Chan} (hcount : x'.count = x.count)
    (hchans : x'.chans = upd x.chans id c) (hcreated : c.created = (x.chans id).created)
    (halive : c.alive = true → (x.chans id).alive = true) (hout : ∀ f ∈ x'.out, f ∈ x.out ∨ f.ids = []) :
    x.IdQuiet x' := by
  refine ⟨hcount, fun k => ?_, fun k => ?_, hout⟩ <;> rw [hchans, upd_apply] <;> split
  · rename_i h; subst h; exact hcreated
  · rfl
  · rename_i h; subst h; exact halive
  · exact fun h => h

theorem IdAux_quiet_step (fails : Item → Bool) (st : State) (op : Op) (h : IdAux st)
    (h1 : ∀ s, op ≠ .newchannel s) (h2 : op ≠ .remoteExec) (h3 : ∀ s id v, op ≠ .send s id v)
    (h4 : ∀ p, op ≠ .deliver p) : IdAux (step fails st op).2 := by
  cases op with
  | newchannel s => exact absurd rfl (h1 s)
  | remoteExec => exact absurd rfl h2
  | send s id v => exact absurd rfl (h3 s id v)
  | deliver p => exact absurd rfl (h4 p)
  | close s id err =>
    simp only [step]; split
    · exact h
    · exact IdAux_quiet h (IdQuiet_chanClose _ _ _)
  | receive s id =>
    simp only [step]; repeat' split
    all_goals first
      | exact h
      | exact IdAux_quiet h (IdQuiet_upd rfl rfl rfl (fun h => h) fun _ hf => .inl hf)
  | waitclose s id =>
    simp only [step]; repeat' split
    all_goals first
      | exact h
      | exact IdAux_quiet h (IdQuiet_upd rfl rfl rfl (fun h => h) fun _ hf => .inl hf)
  | setcallback s id w =>
    simp only [step]; repeat' split
    all_goals first
      | exact h
      | exact IdAux_quiet h (IdQuiet_upd rfl rfl rfl (fun h => h) fun _ hf => .inl hf)
  | drop s id =>
    simp only [step]; repeat' split
    all_goals first
      | exact h
      | exact IdAux_quiet h (IdQuiet_upd rfl rfl rfl (fun h => by simp at h) fun _ hf => .inl hf)
      | (refine IdAux_quiet h (IdQuiet_upd rfl rfl rfl (fun h => by simp at h) fun f hf => ?_)
         simp only [List.mem_append, List.mem_singleton] at hf
         rcases hf with hf | rfl
         · exact .inl hf
         · right; rfl)
  | isclosed s id =>
    simp only [step]; split <;> exact h
  | execFinish id o =>
    simp only [step]; split
    · exact h
    · refine IdAux_quiet (s := .B) h (.trans ?_ (IdQuiet_chanClose _ _ _))
      exact IdQuiet_upd rfl rfl rfl (fun h => h) fun _ hf => .inl hf
  | cut p =>
    simp only [step]; split
    · exact h
    · have h1 : IdAux (st.set p (epilogue (st.side p) true)) :=
        IdAux_quiet h ⟨rfl, fun k => by simp, fun k => by simp, fun _ hf => .inl hf⟩
      exact IdAux_quiet h1 ⟨rfl, fun _ => rfl, fun _ hk => hk, fun _ hf => .inl hf⟩

theorem IdAux_step (fails : Item → Bool) (st : State) (op : Op) (h : IdAux st) :
    IdAux (step fails st op).2 := by
  by_cases h1 : ∃ s, op = .newchannel s
  · obtain ⟨s, rfl⟩ := h1; exact IdAux_newchannel fails st s h
  by_cases h2 : op = .remoteExec
  · subst h2; exact IdAux_remoteExec fails st h
  by_cases h3 : ∃ s id v, op = .send s id v
  · obtain ⟨s, id, v, rfl⟩ := h3; exact IdAux_send fails st s id v h
  by_cases h4 : ∃ p, op = .deliver p
  · obtain ⟨p, rfl⟩ := h4; exact IdAux_deliver fails st p h
  exact IdAux_quiet_step fails st op h (by grind) h2 (by grind) (by grind)

theorem IdAux_reachable {fails : Item → Bool} {st : State} (h : Reachable fails st) : IdAux st :=
  Reachable.induction (P := IdAux) IdAux_init (fun st op _ hi => IdAux_step fails st op hi) st h

/-- **G8**: the initiator's counter is odd, the worker's even, and every record of a side's own
parity was allocated by that side's counter -/
theorem IdInv_reachable {fails : Item → Bool} {st : State} (h : Reachable fails st) : IdInv st :=
  (IdAux_reachable h).toIdInv

/-! ## C18: ids handed out are distinct and have the parity of their side -/

/-- what one operation does to the two id counters and which id it can hand out — from ANY state -/
structure CountStep (st : State) (r : Out × State) : Prop where
  chan : ∀ id, r.1 = .chan id →
    (id = st.a.count ∧ r.2.a.count = id + 2 ∧ r.2.b.count = st.b.count) ∨
    (id = st.b.count ∧ r.2.b.count = id + 2 ∧ r.2.a.count = st.a.count)
  a : r.2.a.count = st.a.count ∨ r.2.a.count = st.a.count + 2
  b : r.2.b.count = st.b.count ∨ r.2.b.count = st.b.count + 2

theorem CountStep.same {st : State} {o : Out} {st' : State} (ho : ∀ id, o ≠ .chan id)
    (ha : st'.a.count = st.a.count) (hb : st'.b.count = st.b.count) : CountStep st (o, st') :=
  ⟨fun id h => absurd h (ho id), .inl ha, .inl hb⟩

theorem CountStep.set {st : State} {o : Out} {s : Side} {x' : SideSt} (ho : ∀ id, o ≠ .chan id)
    (h : x'.count = (st.side s).count) : CountStep st (o, st.set s x') := by
  cases s
  · exact .same ho h rfl
  · exact .same ho rfl h

theorem step_count (fails : Item → Bool) (st : State) (op : Op) : CountStep st (step fails st op) := by
  cases op with
  | newchannel s =>
    simp only [step]; split
    · exact .same (by simp) rfl rfl
    · cases s
      · exact ⟨fun id h => by simp at h; simp [h], by simp, by simp⟩
      · exact ⟨fun id h => by simp at h; simp [h], by simp, by simp⟩
  | remoteExec =>
    simp only [step]; repeat' split
    · exact .same (by simp) rfl rfl
    · exact ⟨fun id h => by simp at h, by simp, by simp⟩
    · exact ⟨fun id h => by simp at h; simp [h], by simp, by simp⟩
  | send s id v =>
    simp only [step]; repeat' split
    all_goals first | exact .same (by simp) rfl rfl | exact .set (by simp) rfl
  | close s id err =>
    simp only [step]; split
    · exact .same (by simp) rfl rfl
    · exact .set (chanClose_fst_ne_chan _ _ _) (by simp)
  | receive s id =>
    simp only [step]; repeat' split
    all_goals first | exact .same (by simp) rfl rfl | exact .set (by simp) rfl
  | waitclose s id =>
    simp only [step]; repeat' split
    all_goals first | exact .same (by simp) rfl rfl | exact .set (by simp) rfl
  | setcallback s id w =>
    simp only [step]; repeat' split
    all_goals first | exact .same (by simp) rfl rfl | exact .set (by simp) rfl
  | drop s id =>
    simp only [step]; repeat' split
    all_goals first | exact .same (by simp) rfl rfl | exact .set (by simp) rfl
  | isclosed s id =>
    simp only [step]; split <;> exact .same (by simp) rfl rfl
  | deliver p =>
    simp only [step]; repeat' split
    all_goals first
      | exact .same (by simp) rfl rfl
      | (cases p <;> exact .same (by simp) (by simp) (by simp))
  | execFinish id o =>
    simp only [step]; split
    · exact .same (by simp) rfl rfl
    · exact .set (s := .B) (chanClose_fst_ne_chan _ _ _) (by simp)
  | cut p =>
    simp only [step]; split
    · exact .same (by simp) rfl rfl
    · cases p <;> exact .same (by simp) (by simp) (by simp)

/-- generalisation of C18 over the start state: the ids handed out by a run are pairwise distinct,
have the right parity and are not below the counter of their parity -/
theorem run_chan_ids (fails : Item → Bool) (ops : List Op) : ∀ (st : State),
    st.a.count % 2 = 1 → st.b.count % 2 = 0 →
    ((run fails st ops).1.filterMap chanOut).Nodup ∧
    ∀ id ∈ (run fails st ops).1.filterMap chanOut,
      (id % 2 = 1 ∧ st.a.count ≤ id) ∨ (id % 2 = 0 ∧ st.b.count ≤ id) := by
  induction ops with
  | nil => intro st _ _; simp [run]
  | cons op t ih =>
    intro st pa pb
    have hs := step_count fails st op
    have ha := hs.a
    have hb := hs.b
    obtain ⟨ih1, ih2⟩ := ih (step fails st op).2 (by omega) (by omega)
    simp only [run]
    cases ho : (step fails st op).1 with
    | chan id =>
      simp only [List.filterMap_cons, chanOut, List.nodup_cons, List.mem_cons, forall_eq_or_imp]
      have hc := hs.chan id ho
      refine ⟨⟨fun hmem => ?_, ih1⟩, by omega, fun k hk => ?_⟩
      · have := ih2 id hmem; omega
      · have := ih2 k hk; omega
    | _ =>
      simp only [List.filterMap_cons, chanOut]
      exact ⟨ih1, fun k hk => by have := ih2 k hk; omega⟩

/-- **C18** (distinctness): all channel ids handed out by `newchannel`/`remoteExec`, on both sides,
over any history, are pairwise distinct -/
theorem C18_distinct_ids (fails : Item → Bool) (ops : List Op) :
    ((run fails init ops).1.filterMap chanOut).Nodup :=
  (run_chan_ids fails ops init rfl rfl).1

/-- **C18** (parity): the initiator hands out odd ids, the worker even ids -/
theorem C18_parity {fails : Item → Bool} {st st' : State} {s : Side} {id : Nat}
    (h : step fails st (.newchannel s) = (.chan id, st')) (hr : Reachable fails st) :
    id % 2 = (if s = .A then 1 else 0) := by
  obtain ⟨pa, pb, -, -⟩ := IdInv_reachable hr
  simp only [step] at h
  split at h
  · simp at h
  · simp only [Prod.mk.injEq, Out.chan.injEq] at h
    cases s <;> simp [← h.1, pa, pb]

theorem C18_parity_remoteExec {fails : Item → Bool} {st st' : State} {id : Nat}
    (h : step fails st .remoteExec = (.chan id, st')) (hr : Reachable fails st) : id % 2 = 1 := by
  obtain ⟨pa, -, -, -⟩ := IdInv_reachable hr
  simp only [step] at h
  repeat' split at h
  all_goals simp only [Prod.mk.injEq, Out.chan.injEq, reduceCtorEq, false_and] at h
  simp [← h.1, pa]

end ExecnetVerif.Net
