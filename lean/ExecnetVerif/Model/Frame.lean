/-
L2: the wire format of `gateway_base.Message` (C08, byte level of C04, C16).

  to_io  : header = struct.pack("!bii", msgcode, channelid, len(data)); io.write(header + data)
  from_io: header = io.read(9); msgtype, channel, payload = struct.unpack("!bii", header);
           Message(msgtype, channel, io.read(payload))

`io.read(n)` is an exact-length read raising EOFError on short data (`Popen2IO.read`,
`SocketIO.read`; see `Model/Chunk.lean` for the loop over arbitrary low-level reads).  This file works
on the whole remaining byte stream: reading n bytes = `take n` / `drop n` if that many are left.

No Mathlib import: linked into the native driver.
-/
import ExecnetVerif.Model.Bytes
namespace ExecnetVerif

/-- one message of the gateway protocol: signed-byte type code, signed 32-bit channel id, payload -/
structure Msg where
  typ : Int
  cid : Int
  data : Bytes
deriving DecidableEq, Repr, Inhabited

/-- how a receiver's stream of `Message.from_io` calls ends (every case is an `EOFError` in the code) -/
inductive Ending where
  /-- EOF exactly at a frame boundary: "couldn't load message header, expected 9 bytes, got 0" -/
  | eof
  /-- EOF after 1..8 bytes of a header: "couldn't load message header, expected 9 bytes, got k" -/
  | midHeader
  /-- EOF inside a payload: "expected n bytes, got k" -/
  | midPayload
  /-- only on the channel-file reader of the proxy path (`Model/Proxy.lean`): a non-empty short
  header reaches `struct.unpack` (struct.error) -/
  | badHeader
deriving DecidableEq, Repr, Inhabited

def inI8 (t : Int) : Prop := -128 ≤ t ∧ t ≤ 127
instance (t : Int) : Decidable (inI8 t) := by unfold inI8; infer_instance

/-- two's complement image of a signed byte (struct.pack('!b')) -/
def toU8 (t : Int) : UInt8 := UInt8.ofNat (t % 256).toNat
/-- signed reading of a byte (struct.unpack('!b')) -/
def ofU8 (b : UInt8) : Int := if b.toNat < 128 then (b.toNat : Int) else (b.toNat : Int) - 256

def headerSize : Nat := 9

/-- `struct.pack("!bii", t, cid, len)` (for values in range; `wfMsg` states the ranges) -/
def packHeader (t cid : Int) (len : Nat) : Bytes := toU8 t :: (packI32 cid ++ packI32 (len : Int))

/-- `struct.unpack("!bii", h)` for a 9-byte `h` (`none` = struct.error on any other length) -/
def unpackHeader (h : Bytes) : Option (Int × Int × Int) :=
  match h with
  | [] => none
  | t :: r =>
    match rd4 r with
    | none => none
    | some (c, r2) =>
      match rd4 r2 with
      | some (l, []) => some (ofU8 t, ofU32 c, ofU32 l)
      | _ => none

/-- what `Message.to_io` hands to `io.write` in ONE call -/
def encodeMsg (m : Msg) : Bytes := packHeader m.typ m.cid m.data.length ++ m.data

/-- the values `struct.pack("!bii", …)` accepts (anything else is a `struct.error` in `to_io`) -/
def wfMsg (m : Msg) : Prop := inI8 m.typ ∧ inI32 m.cid ∧ m.data.length < two31
instance (m : Msg) : Decidable (wfMsg m) := by unfold wfMsg; infer_instance

def wfMsgs (ms : List Msg) : Prop := ∀ m ∈ ms, wfMsg m
instance (ms : List Msg) : Decidable (wfMsgs ms) := by unfold wfMsgs; infer_instance

/-- `to_io` with the range check of `struct.pack` -/
def encodeMsg? (m : Msg) : Option Bytes := if wfMsg m then some (encodeMsg m) else none

/-- the wire image of a sequence of frames -/
def encodeAll (ms : List Msg) : Bytes := ms.flatMap encodeMsg

/-- The receiver loop `while 1: Message.from_io(io)` over a finite byte stream followed by EOF:
the messages decoded and the way the stream ends.  A negative length field makes `io.read(payload)`
return `b""` in both read loops (`while numbytes > len(buf)` is false at once) — hence `toNat`. -/
def decodeStream (bs : Bytes) : List Msg × Ending :=
  if bs.length = 0 then ([], .eof)
  else if _h9 : bs.length < 9 then ([], .midHeader)
  else
    match unpackHeader (bs.take 9) with
    | none => ([], .badHeader)  -- unreachable: a 9-byte header always unpacks (`unpackHeader_of_length`)
    | some (t, cid, len) =>
      let rest := bs.drop 9
      let n := len.toNat
      if rest.length < n then ([], .midPayload)
      else
        let r := decodeStream (rest.drop n)
        (⟨t, cid, rest.take n⟩ :: r.1, r.2)
termination_by bs.length
decreasing_by
  simp only [List.length_drop]
  omega

/-! ### cutting the stream (C04, byte level) -/

def frameLen (m : Msg) : Nat := 9 + m.data.length

/-- Specification of a cut after `k` bytes of the wire image of `ms`, stated on the *frames* (no
byte decoding): the frames lying completely before the cut, and where the cut falls. -/
def framesBefore : List Msg → Nat → List Msg × Ending
  | [], _ => ([], .eof)
  | m :: ms, k =>
    if k = 0 then ([], .eof)
    else if k < 9 then ([], .midHeader)
    else if k < frameLen m then ([], .midPayload)
    else
      let r := framesBefore ms (k - frameLen m)
      (m :: r.1, r.2)

/-- number of frames of `ms` that end at or before byte offset `k` -/
def completeWithin : List Msg → Nat → Nat
  | [], _ => 0
  | m :: ms, k => if frameLen m ≤ k then completeWithin ms (k - frameLen m) + 1 else 0

/-! ### rendering for the driver -/

def Ending.render : Ending → String
  | .eof => "eof"
  | .midHeader => "eof-mid-header"
  | .midPayload => "eof-mid-payload"
  | .badHeader => "struct-error"

def Msg.render (m : Msg) : String := s!"{m.typ} {m.cid} {toHex m.data}"

def renderDecoded (r : List Msg × Ending) : String :=
  " ".intercalate (["ok", toString r.1.length] ++ r.1.map Msg.render ++ [r.2.render])

end ExecnetVerif
