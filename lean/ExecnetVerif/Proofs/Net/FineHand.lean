/-
The invariant of a channel whose ENDMARKER is in the hand of a receiver (`HandOK`) and its preservation by
the helper functions of the `Net` model and by the frame handler.
-/
import ExecnetVerif.Proofs.Net.FineAbs
namespace ExecnetVerif.Net.Fine
open ExecnetVerif.Net
set_option linter.unusedSimpArgs false

/-- a channel record whose ENDMARKER a receiver holds: alive, no longer registered, nothing but ENDMARKERs queued -/
def HandOK (c : Chan) : Prop :=
  c.alive = true ∧ c.registered = false ∧ ∃ m, c.queue = some (List.replicate m QItem.endmarker)

theorem pushEnd_replicate (m : Nat) :
    pushEnd (some (List.replicate m QItem.endmarker)) = some (List.replicate (m + 1) QItem.endmarker) := by
  simp only [pushEnd, Option.map, List.replicate_succ']

theorem HandOK.of_eq {c c' : Chan} (h : HandOK c) (ha : c'.alive = c.alive) (hr : c'.registered = false)
    (hq : c'.queue = c.queue ∨ c'.queue = pushEnd c.queue) : HandOK c' := by
  obtain ⟨h1, _, m, h3⟩ := h
  refine ⟨ha.trans h1, hr, ?_⟩
  cases hq with
  | inl hq => exact ⟨m, hq.trans h3⟩
  | inr hq => exact ⟨m + 1, by rw [hq, h3, pushEnd_replicate]⟩

theorem handOK_upd {ch : Nat → Chan} {k id : Nat} {c' : Chan} (h1 : k = id → HandOK c')
    (h2 : k ≠ id → HandOK (ch id)) : HandOK (upd ch k c' id) := by
  by_cases h : id = k
  · subst h; rw [upd_same]; exact h1 rfl
  · rw [upd_ne _ _ h]; exact h2 (Ne.symm h)

theorem createAt_chans_ne (x : SideSt) {id k : Nat} (h : k ≠ id) : (createAt x k).chans id = x.chans id :=
  upd_ne _ _ (Ne.symm h)

theorem registerAll_chans_not_mem (x : SideSt) (id : Nat) (ids : List Nat) (h : id ∉ ids) :
    (registerAll x ids).chans id = x.chans id := by
  induction ids generalizing x with
  | nil => rfl
  | cons k t ih =>
    have hk : k ≠ id := fun e => h (by simp [e])
    have ht : id ∉ t := fun e => h (by simp [e])
    show (registerAll (createAt x k) t).chans id = x.chans id
    rw [ih _ ht, createAt_chans_ne x hk]

theorem noLongerOpened_handOK (x : SideSt) (id k : Nat) (h : HandOK (x.chans id)) :
    HandOK ((noLongerOpened x k).chans id) := by
  show HandOK (upd x.chans k { x.chans k with registered := false } id)
  apply handOK_upd
  · intro hk; subst hk; exact h.of_eq rfl rfl (Or.inl rfl)
  · intro _; exact h

theorem localClose_handOK (x : SideSt) (id k : Nat) (err : Option Nat) (so : Bool) (h : HandOK (x.chans id)) :
    HandOK ((localClose x k err so).chans id) := by
  cases hr : (x.chans k).registered
  · rw [localClose_unreg _ _ _ _ hr]
    exact noLongerOpened_handOK _ id k h
  · rw [localClose_reg _ _ _ _ hr]
    apply noLongerOpened_handOK
    apply handOK_upd
    · intro hk; subst hk; rw [h.2.1] at hr; cases hr
    · intro _; exact h

theorem doClose_handOK (x : SideSt) (id k : Nat) (fr : Frame) (h : HandOK (x.chans id)) :
    HandOK ((doClose x k fr).2.chans id) := by
  unfold doClose
  simp only
  split
  · exact h
  · apply noLongerOpened_handOK
    show HandOK (upd (if x.ioOpen = true then _ else x).chans k _ id)
    have hx : (if x.ioOpen = true then
        ({ x with out := x.out ++ [fr], closeSent := upd x.closeSent k true } : SideSt) else x).chans = x.chans := by
      split <;> rfl
    rw [hx]
    apply handOK_upd
    · intro hk; subst hk; exact h.of_eq rfl h.2.1 (Or.inr rfl)
    · intro _; exact h

theorem chanClose_handOK (x : SideSt) (id k : Nat) (err : Option Nat) (h : HandOK (x.chans id)) :
    HandOK ((chanClose x k err).2.chans id) := by
  unfold chanClose
  simp only
  split
  · exact h
  · split
    · exact h
    · exact doClose_handOK x id k _ h

theorem epilogue_chans_unreg (x : SideSt) (id : Nat) (isCut : Bool) (h : (x.chans id).registered = false) :
    (epilogue x isCut).chans id = x.chans id := by
  show (if (x.chans id).registered = true then _ else x.chans id) = x.chans id
  rw [if_neg (by simp [h])]

theorem epilogue_handOK (x : SideSt) (id : Nat) (isCut : Bool) (h : HandOK (x.chans id)) :
    HandOK ((epilogue x isCut).chans id) := by
  rw [epilogue_chans_unreg x id isCut h.2.1]; exact h

theorem dataCb'_handOK (fails : Item → Bool) (x : SideSt) (id k : Nat) (v : Item) (h : HandOK (x.chans id)) :
    HandOK ((dataCb' fails x k v).chans id) := by
  unfold dataCb'
  split
  · split
    · exact localClose_handOK (withCloseErr x k v) id k _ _ h
    · exact epilogue_handOK x id false h
  · exact h

theorem dataQ_handOK (x : SideSt) (id k : Nat) (v : Item) (hv : id ∉ v.chans) (h : HandOK (x.chans id)) :
    HandOK ((dataQ x k v).chans id) := by
  unfold dataQ
  simp only
  split
  · next _ hreg _ =>
    show HandOK (upd (registerAll x v.chans).chans k _ id)
    apply handOK_upd
    · intro hk; subst hk; rw [h.2.1] at hreg; cases hreg
    · intro _; rw [registerAll_chans_not_mem x id v.chans hv]; exact h
  · exact h

theorem handle_handOK (fails : Item → Bool) (x : SideSt) (w : Bool) (id : Nat) (fr : Frame)
    (hfr : frameAvoids id fr) (h : HandOK (x.chans id)) : HandOK ((handle fails x w fr).chans id) := by
  cases fr with
  | data k v =>
    rw [handle_data_eq]
    have hv : id ∉ v.chans := hfr
    split
    · apply dataCb'_handOK
      show HandOK ((registerAll (withDelivered x k v) v.chans).chans id)
      rw [registerAll_chans_not_mem _ id v.chans hv]; exact h
    · exact dataQ_handOK _ id k v hv h
  | close k => exact localClose_handOK _ id k _ _ h
  | closeErr k e => exact localClose_handOK _ id k _ _ h
  | lastMsg k => exact localClose_handOK _ id k _ _ h
  | exec k =>
    cases w with
    | false => exact h
    | true =>
      have hk : k ≠ id := hfr
      show HandOK (upd (createAt x k).chans k _ id)
      apply handOK_upd
      · intro e; exact absurd e hk
      · intro _; rw [createAt_chans_ne x hk]; exact h
  | terminate => exact epilogue_handOK x id false h

end ExecnetVerif.Net.Fine
