import ExecnetVerif.Model.Proxy
import ExecnetVerif.Proofs.FrameLemmas
namespace ExecnetVerif

/-- the fill loop does nothing when the buffer already holds `n` bytes -/
theorem pxFill_enough (n : Int) (buf : Bytes) (items : List Bytes) (h : ¬ (buf.length : Int) < n) :
    pxFill n buf items = (buf, items) := by
  cases items with
  | nil => rfl
  | cons it rest => simp [pxFill, h]

theorem pySliceIdx_nat (k len : Nat) : pySliceIdx (k : Int) len = min k len := by
  simp [pySliceIdx]

/-- `read(9)` at a frame boundary, next item = one whole frame: exactly the header -/
theorem pxRead_header (m : Msg) (rest : List Bytes) :
    pxRead 9 ⟨some [], encodeMsg m :: rest⟩ =
      (packHeader m.typ m.cid m.data.length, ⟨some m.data, rest⟩) := by
  have hlen : (packHeader m.typ m.cid m.data.length).length = 9 := packHeader_length _ _ _
  have hfill : pxFill 9 [] (encodeMsg m :: rest) = (encodeMsg m, rest) := by
    have h1 : ((([] : Bytes).length : Nat) : Int) < 9 := by simp
    rw [pxFill, if_pos h1, List.nil_append]
    apply pxFill_enough
    rw [encodeMsg_length]; unfold frameLen; omega
  have hidx : pySliceIdx 9 (encodeMsg m).length = 9 := by
    rw [encodeMsg_length]; unfold frameLen pySliceIdx
    simp only [show (0 : Int) ≤ 9 by omega, if_true, show (9 : Int).toNat = 9 from rfl]
    omega
  simp only [pxRead, hfill, hidx]
  unfold encodeMsg
  rw [List.take_append_of_le_length (by omega), List.take_of_length_le (by omega),
    List.drop_append_of_le_length (by omega), List.drop_of_length_le (by omega)]
  simp

/-- `read(len)` with exactly the payload in the buffer: the payload, buffer empty afterwards -/
theorem pxRead_payload (data : Bytes) (rest : List Bytes) :
    pxRead (data.length : Int) ⟨some data, rest⟩ = (data, ⟨some [], rest⟩) := by
  have hfill : pxFill (data.length : Int) data rest = (data, rest) :=
    pxFill_enough _ _ _ (by omega)
  simp only [pxRead, hfill, pySliceIdx_nat, Nat.min_self, List.take_length, List.drop_length]

theorem pxRead_exhausted (n : Int) :
    pxRead n ⟨some [], []⟩ = ([], ⟨some [], []⟩) := by
  simp [pxRead, pxFill]

/-- frame-aligned items are decoded as the frames, then "empty read" -/
theorem decodeItemsFuel_frames : ∀ (ms : List Msg) (fuel : Nat), wfMsgs ms → ms.length < fuel →
    decodeItemsFuel fuel ⟨some [], ms.map encodeMsg⟩ = (ms, .eof) := by
  intro ms
  induction ms with
  | nil =>
    intro fuel _ hf
    obtain ⟨f, rfl⟩ : ∃ f, fuel = f + 1 := ⟨fuel - 1, by omega⟩
    simp [decodeItemsFuel, pxRead_exhausted]
  | cons m t ih =>
    intro fuel h hf
    obtain ⟨f, rfl⟩ : ∃ f, fuel = f + 1 := ⟨fuel - 1, by omega⟩
    have hm : wfMsg m := h m (by simp)
    have ht : wfMsgs t := fun x hx => h x (by simp [hx])
    obtain ⟨h1, h2, h3⟩ := hm
    simp only [decodeItemsFuel, List.map_cons, pxRead_header, packHeader_length,
      unpack_pack _ _ _ h1 h2 h3, pxRead_payload]
    rw [ih f ht (by simp at hf; omega)]
    simp

theorem decodeItems_frames (ms : List Msg) (h : wfMsgs ms) :
    decodeItems ⟨some [], ms.map encodeMsg⟩ = (ms, .eof) := by
  unfold decodeItems
  apply decodeItemsFuel_frames ms _ h
  have : ms.length ≤ totalLen (ms.map encodeMsg) := by
    induction ms with
    | nil => simp [totalLen]
    | cons m t ih =>
      have ht : wfMsgs t := fun x hx => h x (by simp [hx])
      have := ih ht
      simp only [totalLen, List.map_cons, List.sum_cons, encodeMsg_length, List.length_cons] at this ⊢
      unfold frameLen; omega
  simp only [PxReader.total]
  omega

/-- the master's `io.read(1)` during bootstrap takes the forwarded boot byte and nothing else -/
theorem pxRead_boot (items : List Bytes) :
    pxRead 1 ⟨none, [bootByte] :: items⟩ = ([bootByte], ⟨some [], items⟩) := by
  have hfill : pxFill 1 [bootByte] items = ([bootByte], items) :=
    pxFill_enough _ _ _ (by simp)
  simp [pxRead, hfill, pySliceIdx]

/-- every message the decoder returns could be written again by `to_io` … for a well-formed input -/
theorem proxyUpStream_frames (ms : List Msg) (bs : Bytes) (h : wfMsgs ms)
    (hd : (decodeStream bs).1 = ms) :
    proxyUpStream (bootByte :: bs) = ([bootByte], ms, .eof) := by
  simp only [proxyUpStream, forwarderItems, if_true, hd, pxRead_boot, decodeItems_frames ms h]

theorem forwarderItemsChunked_eq (chunks : List Bytes) (hne : ∀ c ∈ chunks, c ≠ []) :
    forwarderItemsChunked chunks = forwarderItems chunks.flatten := by
  unfold forwarderItemsChunked
  cases hf : chunks.flatten with
  | nil =>
    have := readExact_short chunks 1 [] hne (by rw [hf]; simp)
    simp [this, forwarderItems]
  | cons b rest =>
    obtain ⟨chunks1, he, hf1, hn1⟩ := readExact_ok chunks 1 [] hne (by rw [hf]; simp)
    rw [hf] at he hf1
    simp only [he, List.nil_append, List.take_succ_cons, List.take_zero, forwarderItems,
      List.cons.injEq, and_true]
    rw [decodeStreamChunked_eq chunks1 hn1, hf1]
    simp

end ExecnetVerif
