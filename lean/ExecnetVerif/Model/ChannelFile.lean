/-
L6 — channel files (`ChannelFile`, `ChannelFileWrite`, `ChannelFileRead`, `Channel.makefile` in
src/execnet/gateway_base.py), modelled as coded after the `fix:` commit for D15 (readline uses the
newline of the buffer's type, so the code is generic over str items and bytes items).

Everything is generic over the element type `α` (a `str` item is a `List Char`-like sequence of code
points, a `bytes` item a sequence of byte values); `nl : α` is the designated newline element
(`"\n"` resp. `b"\n"`, chosen by `_newline(data)` in the code).

  * `Reader`  — `ChannelFileRead` together with the receiving end of its channel: the items still
    queued (followed by ENDMARKER, i.e. end-of-channel), `_buffer`, `_proxyclose`, and whether the channel
    is closed on this side.
  * `File`    — the reference: an ordinary file holding the concatenation, a position, `read n` = take n,
    `readline` = up to and including the first newline.
  * `Writer`  — `ChannelFileWrite` together with the sending end of its channel.

No Mathlib (linked into the native driver).
-/
namespace ExecnetVerif
namespace ChannelFile

/-- one call of the reading API: `f.read(n)` with `n ≥ 0`, or `f.readline()` -/
inductive Call where
  | read (n : Nat)
  | readline
  deriving Repr, DecidableEq

section
variable {α : Type} [DecidableEq α]

/-! ### Python primitives used by the code -/

/-- `buffer.find(newline)`: index of the first occurrence, `none` for Python's `-1` -/
def find? (nl : α) : List α → Option Nat
  | [] => none
  | x :: xs => if x = nl then some 0 else (find? nl xs).map (· + 1)

/-! ### The reader, as coded -/

/-- `ChannelFileRead` + receiving end of the channel.
`rest` are the items `channel.receive()` will still return, in order; when `rest = []` the next
`receive()` raises `EOFError` (the ENDMARKER is put back, so it does so forever). -/
structure Reader (α : Type) where
  /-- `self._buffer` (`None` until the first `receive()` succeeded) -/
  buf : Option (List α)
  /-- items still queued in `channel._items` before the ENDMARKER -/
  rest : List (List α)
  /-- `self._proxyclose` -/
  proxyclose : Bool
  /-- `channel.isclosed()` on this side -/
  closed : Bool
  deriving Repr, DecidableEq

/-- `makefile('r', proxyclose)` on a channel that will deliver `items` and then end;
`closed0` = the channel is already closed on this side (the peer sent CHANNEL_CLOSE) as opposed to
merely ended (CHANNEL_LAST_MESSAGE / connection loss: "sendonly") -/
def Reader.init (items : List (List α)) (proxyclose closed0 : Bool) : Reader α :=
  { buf := none, rest := items, proxyclose := proxyclose, closed := closed0 }

/-- the receive loop of `read`:
```
while len(self._buffer) < n:
    self._buffer += self.channel.receive()      # EOFError leaves the loop
```
returns the buffer, the items left, and whether `EOFError` was raised -/
def fill (n : Nat) : List α → List (List α) → List α × List (List α) × Bool
  | buf, [] => (buf, [], decide (buf.length < n))
  | buf, it :: r => if buf.length < n then fill n (buf ++ it) r else (buf, it :: r, false)

/-- `ChannelFileRead.read(n)`:
```
try:
    if self._buffer is None:
        self._buffer = self.channel.receive()
    while len(self._buffer) < n:
        self._buffer += self.channel.receive()
except EOFError:
    self.close()                                  # closes the channel iff proxyclose
if self._buffer is None:
    ret = ""
else:
    ret = self._buffer[:n]
    self._buffer = self._buffer[n:]
return ret
``` -/
def Reader.read (n : Nat) (s : Reader α) : List α × Reader α :=
  match s.buf, s.rest with
  | none, [] => ([], { s with closed := s.closed || s.proxyclose })
  | none, it :: r =>
    let p := fill n it r
    (p.1.take n, { s with buf := some (p.1.drop n), rest := p.2.1,
                          closed := s.closed || (p.2.2 && s.proxyclose) })
  | some b, rest =>
    let p := fill n b rest
    (p.1.take n, { s with buf := some (p.1.drop n), rest := p.2.1,
                          closed := s.closed || (p.2.2 && s.proxyclose) })

/-- what is still unread: buffer followed by the queued items -/
def Reader.pending (s : Reader α) : List α := s.buf.getD [] ++ s.rest.flatten

/-- the tail loop of `readline`:
```
while line and not line.endswith(newline):
    c = self.read(1)
    if not c:
        break
    line += c
return line
```
`fuel` bounds the number of iterations (Lean needs a terminating definition); `Reader.readline` passes
`pending.length + 1`, and `C19_read` shows that this never cuts the loop short. -/
def lineLoop (nl : α) : Nat → Reader α → List α → List α × Reader α
  | 0, s, line => (line, s)
  | fuel + 1, s, line =>
    if line = [] ∨ line.getLast? = some nl then (line, s)
    else
      let p := s.read 1
      if p.1 = [] then (line, p.2) else lineLoop nl fuel p.2 (line ++ p.1)

/-- `ChannelFileRead.readline()`:
```
if self._buffer is not None:
    i = self._buffer.find(newline)
    if i != -1:
        return self.read(i + 1)
    line = self.read(len(self._buffer) + 1)
else:
    line = self.read(1)
<tail loop>
``` -/
def Reader.readline (nl : α) (s : Reader α) : List α × Reader α :=
  match s.buf with
  | some b =>
    match find? nl b with
    | some i => s.read (i + 1)
    | none =>
      let p := s.read (b.length + 1)
      lineLoop nl (p.2.pending.length + 1) p.2 p.1
  | none =>
    let p := s.read 1
    lineLoop nl (p.2.pending.length + 1) p.2 p.1

def Reader.step (nl : α) (s : Reader α) : Call → List α × Reader α
  | .read n => s.read n
  | .readline => s.readline nl

/-- run a sequence of calls; returns the list of results and the final state -/
def Reader.run (nl : α) : Reader α → List Call → List (List α) × Reader α
  | s, [] => ([], s)
  | s, c :: cs =>
    let p := s.step nl c
    let q := Reader.run nl p.2 cs
    (p.1 :: q.1, q.2)

/-- the channel has ended and everything was handed out: nothing queued, buffer `None` or empty -/
def Reader.atEnd (s : Reader α) : Prop := s.rest = [] ∧ s.buf.getD [] = []

instance (s : Reader α) : Decidable s.atEnd := by unfold Reader.atEnd; infer_instance

/-- `ChannelFile.close()` on the reader: `if self._proxyclose: self.channel.close()`.
(Closing the channel puts an ENDMARKER *behind* the queued items, so `rest` is unchanged.) -/
def Reader.close (s : Reader α) : Reader α := { s with closed := s.closed || s.proxyclose }

/-! ### The reference: a file over the concatenation -/

/-- an ordinary file object opened for reading: content and position -/
structure File (α : Type) where
  data : List α
  pos : Nat
  deriving Repr, DecidableEq

def File.open (data : List α) : File α := { data := data, pos := 0 }

/-- the unread part -/
def File.rem (f : File α) : List α := f.data.drop f.pos

/-- a line: up to and including the first newline, or everything if there is none -/
def takeLine (nl : α) : List α → List α
  | [] => []
  | x :: xs => if x = nl then [x] else x :: takeLine nl xs

/-- `file.read(n)`: the next `n` elements (fewer at end of file) -/
def File.read (n : Nat) (f : File α) : List α × File α :=
  (f.rem.take n, { f with pos := f.pos + (f.rem.take n).length })

/-- `file.readline()` -/
def File.readline (nl : α) (f : File α) : List α × File α :=
  (takeLine nl f.rem, { f with pos := f.pos + (takeLine nl f.rem).length })

def File.step (nl : α) (f : File α) : Call → List α × File α
  | .read n => f.read n
  | .readline => f.readline nl

def File.run (nl : α) : File α → List Call → List (List α) × File α
  | f, [] => ([], f)
  | f, c :: cs =>
    let p := f.step nl c
    let q := File.run nl p.2 cs
    (p.1 :: q.1, q.2)

/-- `runReader items calls`: `makefile('r')` on a channel that receives `items` then ends -/
def runReader (nl : α) (items : List (List α)) (proxyclose closed0 : Bool) (calls : List Call) :
    List (List α) × Reader α :=
  Reader.run nl (Reader.init items proxyclose closed0) calls

/-- `runFile data calls`: the same calls on a file holding `data` -/
def runFile (nl : α) (data : List α) (calls : List Call) : List (List α) × File α :=
  File.run nl (File.open data) calls

/-- the list of values returned by the calls -/
abbrev outputs {σ : Type} (r : List (List α) × σ) : List (List α) := r.1

/-! ### The writer, as coded -/

/-- `ChannelFileWrite` + sending end of the channel -/
structure Writer (α : Type) where
  /-- items handed to the connection for the peer (CHANNEL_DATA messages), in order -/
  sent : List (List α)
  /-- `self._proxyclose` -/
  proxyclose : Bool
  /-- `channel.isclosed()` -/
  closed : Bool
  deriving Repr, DecidableEq

def Writer.init (proxyclose : Bool) : Writer α := { sent := [], proxyclose := proxyclose, closed := false }

/-- operations on a `makefile('w')` object (and, for "write after close", the channel being closed by
other means: `channel.close()` or the peer's CHANNEL_CLOSE) -/
inductive WOp (α : Type) where
  | write (x : List α)
  | flush
  | close
  | channelClosed
  deriving Repr, DecidableEq

inductive WOut where
  | ok
  | oserror
  deriving Repr, DecidableEq

/-- `write(x)` = `channel.send(x)` (`OSError` if `channel.isclosed()`), `flush()` = `pass`,
`close()` = `if self._proxyclose: self.channel.close()` -/
def Writer.step (w : Writer α) : WOp α → WOut × Writer α
  | .write x => if w.closed then (.oserror, w) else (.ok, { w with sent := w.sent ++ [x] })
  | .flush => (.ok, w)
  | .close => (.ok, { w with closed := w.closed || w.proxyclose })
  | .channelClosed => (.ok, { w with closed := true })

def Writer.run : Writer α → List (WOp α) → List WOut × Writer α
  | w, [] => ([], w)
  | w, o :: os =>
    let p := w.step o
    let q := Writer.run p.2 os
    (p.1 :: q.1, q.2)

/-- the items of the `write` calls that were accepted, in call order -/
def acceptedWrites : List (WOp α) → List WOut → List (List α)
  | .write x :: os, .ok :: rs => x :: acceptedWrites os rs
  | _ :: os, _ :: rs => acceptedWrites os rs
  | _, _ => []

end
end ChannelFile
end ExecnetVerif
