/-
Invariant of the concurrent makegateway model (`Model/MakeGatewayConc.lean`) for the configuration
"reserve before the try, error path releases" and its preservation by every operation.
-/
import ExecnetVerif.Model.MakeGatewayConc
namespace ExecnetVerif.MakeGatewayConc

structure Inv (w : W) : Prop where
  /-- a call in flight holds the reservation of its id -/
  held : ∀ c id, (c, id) ∈ w.inflight → id ∈ w.reserved
  /-- a reserved id is not a member's id -/
  fresh : ∀ id, id ∈ w.reserved → id ∉ w.members
  /-- no two calls in flight for one id -/
  uniq : ∀ c id c', (c, id) ∈ w.inflight → (c', id) ∈ w.inflight → c = c'
  /-- every reservation belongs to a call in flight (no reservation is ever leaked) -/
  owned : ∀ id, id ∈ w.reserved → ∃ c, (c, id) ∈ w.inflight
  /-- one entry per call -/
  cuniq : ∀ c id id', (c, id) ∈ w.inflight → (c, id') ∈ w.inflight → id = id'
  rnodup : w.reserved.Nodup
  mnodup : w.members.Nodup
  /-- every process the group created is a member's process: nothing unknown to the group -/
  procs : w.procs = w.members
  noOrphans : w.orphans = []

theorem inv_init : Inv init := by
  constructor <;> simp [init]

theorem not_taken {w : W} {id : Nat} (h : taken w id = false) : id ∉ w.reserved ∧ id ∉ w.members := by
  simp [taken] at h
  exact h

theorem inv_reserve {w : W} (h : Inv w) (c id : Nat) (ctr : Nat) (ht : taken w id = false)
    (hc : (w.inflight.any (·.1 == c)) = false) :
    Inv { w with counter := ctr, reserved := id :: w.reserved, inflight := (c, id) :: w.inflight } := by
  obtain ⟨hr, hm⟩ := not_taken ht
  constructor
  · intro c' id' hmem
    simp only [List.mem_cons, Prod.mk.injEq] at hmem
    rcases hmem with ⟨_, rfl⟩ | hmem
    · simp
    · exact List.mem_cons_of_mem _ (h.held c' id' hmem)
  · intro id' hmem
    simp only [List.mem_cons] at hmem
    rcases hmem with rfl | hmem
    · exact hm
    · exact h.fresh id' hmem
  · intro c1 id1 c2 h1 h2
    simp only [List.mem_cons, Prod.mk.injEq] at h1 h2
    rcases h1 with ⟨rfl, rfl⟩ | h1 <;> rcases h2 with ⟨rfl, h2e⟩ | h2
    · rfl
    · exact absurd (h.held _ _ h2) hr
    · subst h2e; exact absurd (h.held _ _ h1) hr
    · exact h.uniq _ _ _ h1 h2
  · intro id' hmem
    simp only [List.mem_cons] at hmem
    rcases hmem with rfl | hmem
    · exact ⟨c, by simp⟩
    · obtain ⟨c', hc'⟩ := h.owned id' hmem
      exact ⟨c', List.mem_cons_of_mem _ hc'⟩
  · intro c1 id1 id2 h1 h2
    have hno : ∀ i, (c, i) ∉ w.inflight := by
      intro i hi
      have := List.any_eq_false.mp hc (c, i) hi
      simp at this
    simp only [List.mem_cons, Prod.mk.injEq] at h1 h2
    rcases h1 with ⟨rfl, rfl⟩ | h1 <;> rcases h2 with ⟨h2c, rfl⟩ | h2
    · rfl
    · exact absurd h2 (hno _)
    · subst h2c; exact absurd h1 (hno _)
    · exact h.cuniq _ _ _ h1 h2
  · exact List.nodup_cons.mpr ⟨hr, h.rnodup⟩
  · exact h.mnodup
  · exact h.procs
  · exact h.noOrphans

theorem find_mem {w : W} {c c' id : Nat} (hf : w.inflight.find? (·.1 == c) = some (c', id)) :
    (c, id) ∈ w.inflight := by
  have h1 := List.mem_of_find?_eq_some hf
  have h2 := List.find?_some hf
  simp at h2
  subst h2
  exact h1

theorem inv_fail {w : W} (h : Inv w) (c id : Nat) (hin : (c, id) ∈ w.inflight) :
    Inv { w with inflight := w.inflight.filter (·.1 != c), reserved := w.reserved.erase id } := by
  constructor
  · intro c' id' hmem
    simp only [List.mem_filter, bne_iff_ne, ne_eq] at hmem
    obtain ⟨hmem, hne⟩ := hmem
    have hid : id' ≠ id := by
      intro e; subst e
      exact hne (h.uniq _ _ _ hmem hin)
    exact (List.mem_erase_of_ne hid).mpr (h.held _ _ hmem)
  · intro id' hmem
    exact h.fresh id' (List.mem_of_mem_erase hmem)
  · intro c1 id1 c2 h1 h2
    simp only [List.mem_filter] at h1 h2
    exact h.uniq _ _ _ h1.1 h2.1
  · intro id' hmem
    have hne : id' ≠ id := by
      intro e; subst e
      exact (List.Nodup.not_mem_erase h.rnodup) hmem
    obtain ⟨c', hc'⟩ := h.owned id' (List.mem_of_mem_erase hmem)
    refine ⟨c', ?_⟩
    simp only [List.mem_filter, bne_iff_ne, ne_eq]
    refine ⟨hc', ?_⟩
    intro e; subst e
    exact hne (h.cuniq _ _ _ hc' hin)
  · intro c1 id1 id2 h1 h2
    simp only [List.mem_filter] at h1 h2
    exact h.cuniq _ _ _ h1.1 h2.1
  · exact h.rnodup.erase id
  · exact h.mnodup
  · exact h.procs
  · exact h.noOrphans

theorem inv_register {w : W} (h : Inv w) (c id : Nat) (hin : (c, id) ∈ w.inflight) :
    Inv { w with inflight := w.inflight.filter (·.1 != c), procs := w.procs ++ [id],
                 members := w.members ++ [id], reserved := w.reserved.erase id } := by
  have hnm : id ∉ w.members := h.fresh id (h.held _ _ hin)
  constructor
  · intro c' id' hmem
    simp only [List.mem_filter, bne_iff_ne, ne_eq] at hmem
    obtain ⟨hmem, hne⟩ := hmem
    have hid : id' ≠ id := by
      intro e; subst e
      exact hne (h.uniq _ _ _ hmem hin)
    exact (List.mem_erase_of_ne hid).mpr (h.held _ _ hmem)
  · intro id' hmem
    have hne : id' ≠ id := by
      intro e; subst e
      exact (List.Nodup.not_mem_erase h.rnodup) hmem
    have := h.fresh id' (List.mem_of_mem_erase hmem)
    simp only [List.mem_append, List.mem_singleton, not_or]
    exact ⟨this, hne⟩
  · intro c1 id1 c2 h1 h2
    simp only [List.mem_filter] at h1 h2
    exact h.uniq _ _ _ h1.1 h2.1
  · intro id' hmem
    have hne : id' ≠ id := by
      intro e; subst e
      exact (List.Nodup.not_mem_erase h.rnodup) hmem
    obtain ⟨c', hc'⟩ := h.owned id' (List.mem_of_mem_erase hmem)
    refine ⟨c', ?_⟩
    simp only [List.mem_filter, bne_iff_ne, ne_eq]
    refine ⟨hc', ?_⟩
    intro e; subst e
    exact hne (h.cuniq _ _ _ hc' hin)
  · intro c1 id1 id2 h1 h2
    simp only [List.mem_filter] at h1 h2
    exact h.cuniq _ _ _ h1.1 h2.1
  · exact h.rnodup.erase id
  · show (w.members ++ [id]).Nodup
    rw [List.nodup_append]
    refine ⟨h.mnodup, by simp, ?_⟩
    intro a ha b hb
    simp only [List.mem_singleton] at hb
    subst hb
    intro e; subst e; exact hnm ha
  · show w.procs ++ [id] = w.members ++ [id]
    rw [h.procs]
  · exact h.noOrphans

theorem inv_step {w : W} (h : Inv w) (op : Op) : Inv (step good w op).2 := by
  cases op with
  | «begin» c req =>
    simp only [step]
    split
    · exact h
    · rename_i hc
      have hc : (w.inflight.any (·.1 == c)) = false := Bool.eq_false_iff.mpr hc
      cases req with
      | none =>
        simp only
        split
        · exact { h with }
        · rename_i ht
          have ht' : taken w w.counter = false := by simpa using ht
          exact inv_reserve h c w.counter (w.counter + 1) ht' hc
      | some id =>
        simp only
        split
        · simpa [good] using h
        · rename_i ht
          have ht' : taken w id = false := by simpa using ht
          have := inv_reserve h c id w.counter ht' hc
          simpa using this
  | finish c fault =>
    simp only [step]
    split
    · exact h
    · rename_i c' id hf
      have hin := find_mem hf
      split
      · simpa [release, good] using inv_fail h c id hin
      · have hnm : id ∉ w.members := h.fresh id (h.held _ _ hin)
        have : (w.members.contains id) = false := by simpa using hnm
        simp only [this]
        simpa using inv_register h c id hin

theorem inv_run (w : W) (h : Inv w) (ops : List Op) : Inv (run good w ops).2 := by
  induction ops generalizing w with
  | nil => simpa [run] using h
  | cons op ops ih =>
    simp only [run]
    exact ih _ (inv_step h op)

end ExecnetVerif.MakeGatewayConc
