/-
L0: byte-level primitives shared by the serializer (C01/C12/C13) and the frame
layer (C04/C08).  Models `struct.pack('!i')`, `struct.pack('!d')` (as a raw 64-bit
pattern), Python's `str(int)` / `int(bytes)` grammar, UTF-8 and latin-1.

No Mathlib import: this file is linked into the native driver.
-/
namespace ExecnetVerif

abbrev Bytes := List UInt8

/-- 2^31, kept behind a `def` so that `simp` never normalises with the literal. -/
def two31 : Nat := 2147483648
def two32 : Nat := 4294967296
def two64 : Nat := 18446744073709551616

theorem two31_eq : two31 = 2147483648 := rfl
theorem two32_eq : two32 = 4294967296 := rfl
theorem two64_eq : two64 = 18446744073709551616 := rfl

/-- big-endian 4 bytes of `n % 2^32` (struct.pack('!I', n)) -/
def be4 (n : Nat) : Bytes :=
  [UInt8.ofNat (n / 16777216 % 256), UInt8.ofNat (n / 65536 % 256),
   UInt8.ofNat (n / 256 % 256), UInt8.ofNat (n % 256)]

/-- value of 4 big-endian bytes -/
def val4 (a b c d : UInt8) : Nat :=
  a.toNat * 16777216 + b.toNat * 65536 + c.toNat * 256 + d.toNat

/-- two's complement image of a signed 32-bit integer -/
def toU32 (i : Int) : Nat := (i % (4294967296 : Int)).toNat

/-- signed reading of an unsigned 32-bit number (struct.unpack('!i')) -/
def ofU32 (n : Nat) : Int := if n < 2147483648 then (n : Int) else (n : Int) - 4294967296

def inI32 (i : Int) : Prop := -2147483648 ≤ i ∧ i ≤ 2147483647
instance (i : Int) : Decidable (inI32 i) := by unfold inI32; infer_instance

/-- struct.pack('!i', i) for i in range -/
def packI32 (i : Int) : Bytes := be4 (toU32 i)

/-- big-endian 8 bytes of `n % 2^64` -/
def be8 (n : Nat) : Bytes := be4 (n / 4294967296 % 4294967296) ++ be4 (n % 4294967296)

/-- exact-length read: the first `n` bytes and the rest, or `none` when the input is short -/
def readN (n : Nat) (bs : Bytes) : Option (Bytes × Bytes) :=
  if n ≤ bs.length then some (bs.take n, bs.drop n) else none

def rd4 (bs : Bytes) : Option (Nat × Bytes) :=
  match bs with
  | a :: b :: c :: d :: rest => some (val4 a b c d, rest)
  | _ => none

def rd8 (bs : Bytes) : Option (Nat × Bytes) :=
  match rd4 bs with
  | some (hi, r1) =>
    match rd4 r1 with
    | some (lo, r2) => some (hi * 4294967296 + lo, r2)
    | none => none
  | none => none

/-! ### decimal text of integers (`str(i)`), and Python's `int(bytes)` -/

def digitByte (d : Nat) : UInt8 := UInt8.ofNat (48 + d)

/-- decimal digits of a natural number, most significant first, as ASCII -/
def natDigits (n : Nat) : Bytes :=
  if h : n < 10 then [digitByte n] else natDigits (n / 10) ++ [digitByte (n % 10)]
termination_by n
decreasing_by omega

/-- `str(i).encode('ascii')` -/
def intText (i : Int) : Bytes :=
  if i < 0 then 45 :: natDigits (-i).toNat else natDigits i.toNat

def isDigit (b : UInt8) : Bool := 48 ≤ b.toNat && b.toNat ≤ 57
/-- `Py_ISSPACE`: space, \t \n \v \f \r -/
def isSpace (b : UInt8) : Bool := b.toNat = 32 || (9 ≤ b.toNat && b.toNat ≤ 13)

/-- digits with single underscores allowed *between* digits; returns value and the digit count.
`prevDigit` says whether the previous character was a digit (an underscore is legal only then
and must be followed by a digit). -/
def parseDigits : Bytes → (acc : Nat) → (ndig : Nat) → (prevDigit : Bool) → Option (Nat × Nat × Bytes)
  | [], acc, nd, prev => if prev then some (acc, nd, []) else none
  | b :: rest, acc, nd, prev =>
    if isDigit b then parseDigits rest (acc * 10 + (b.toNat - 48)) (nd + 1) true
    else if b.toNat = 95 then
      (if prev then
        match rest with
        | c :: _ => if isDigit c then parseDigits rest acc nd false else none
        | [] => none
      else none)
    else if prev then some (acc, nd, b :: rest) else none

def dropSpaces : Bytes → Bytes
  | [] => []
  | b :: rest => if isSpace b then dropSpaces rest else b :: rest

/-- CPython's limit on decimal digits for int<->str conversion (`sys.get_int_max_str_digits()`);
the correspondence harness asserts the running interpreter uses this default. -/
def maxStrDigits : Nat := 4300

/-- digits (with single underscores), optional trailing whitespace, digit-count limit -/
def parseUnsigned (s : Bytes) : Option Nat :=
  match s with
  | [] => none
  | c :: _ =>
    if isDigit c then
      match parseDigits s 0 0 false with
      | some (v, nd, rest) =>
        if dropSpaces rest = [] then (if nd > maxStrDigits then none else some v) else none
      | none => none
    else none

/-- Python `int(b)` for a bytes object, base 10: optional surrounding whitespace, optional sign,
digits with single underscores.  `none` = ValueError. -/
def parseInt (bs : Bytes) : Option Int :=
  match dropSpaces bs with
  | 45 :: r => (parseUnsigned r).map fun v => -(v : Int)
  | 43 :: r => (parseUnsigned r).map fun v => (v : Int)
  | r => (parseUnsigned r).map fun v => (v : Int)

/-- number of decimal digits of |i| -/
def numDigits (i : Int) : Nat := (natDigits i.natAbs).length

/-! ### strings -/

def utf8Encode (s : String) : Bytes := s.toUTF8.data.toList
def utf8Decode (bs : Bytes) : Option String := String.fromUTF8? (ByteArray.mk bs.toArray)

/-- latin-1 decoding never fails: each byte is the code point -/
def latin1Decode (bs : Bytes) : String := String.ofList (bs.map fun b => Char.ofNat b.toNat)

/-! ### hex rendering for the driver's line protocol -/

def hexDigit (n : Nat) : Char :=
  if n < 10 then Char.ofNat (48 + n) else Char.ofNat (87 + n)

def toHex (bs : Bytes) : String :=
  if bs.isEmpty then "-" else
  String.ofList (bs.flatMap fun b => [hexDigit (b.toNat / 16), hexDigit (b.toNat % 16)])

def hexVal (c : Char) : Option Nat :=
  if '0' ≤ c ∧ c ≤ '9' then some (c.toNat - 48)
  else if 'a' ≤ c ∧ c ≤ 'f' then some (c.toNat - 87)
  else if 'A' ≤ c ∧ c ≤ 'F' then some (c.toNat - 55)
  else none

def ofHexChars : List Char → Option Bytes
  | [] => some []
  | a :: b :: rest => do
    let x ← hexVal a
    let y ← hexVal b
    let r ← ofHexChars rest
    pure (UInt8.ofNat (x * 16 + y) :: r)
  | _ => none

def ofHex (s : String) : Option Bytes :=
  if s = "-" then some [] else ofHexChars s.toList

end ExecnetVerif
