import ExecnetVerif.Model.Serializer
namespace ExecnetVerif

theorem run_nil (cfg : Cfg) (st) : run cfg [] st = .error .eof := by
  rw [run]

theorem run_cont {cfg : Cfg} {op : UInt8} {rest st r' st'}
    (h : step cfg op rest st = .cont r' st') : run cfg (op :: rest) st = run cfg r' st' := by
  rw [run]
  split
  · rename_i r2 s2 h2
    rw [h] at h2; cases h2; rfl
  · rename_i s2 h2; rw [h] at h2; cases h2
  · rename_i e h2; rw [h] at h2; cases h2

theorem run_stop {cfg : Cfg} {op : UInt8} {rest st st'}
    (h : step cfg op rest st = .stop st') :
    run cfg (op :: rest) st = finish st' := by
  rw [run]
  split
  · rename_i r2 s2 h2; rw [h] at h2; cases h2
  · rename_i s2 h2; rw [h] at h2; cases h2; rfl
  · rename_i e h2; rw [h] at h2; cases h2

theorem run_err {cfg : Cfg} {op : UInt8} {rest st e}
    (h : step cfg op rest st = .err e) : run cfg (op :: rest) st = .error e := by
  rw [run]
  split
  · rename_i r2 s2 h2; rw [h] at h2; cases h2
  · rename_i s2 h2; rw [h] at h2; cases h2
  · rename_i e h2; rw [h] at h2; cases h2; rfl


/-! ### `step`, one equation per opcode (definitional) -/
section
variable (cfg : Cfg) (rest : Bytes) (st : List PyVal)

theorem step_NONE : step cfg opNONE rest st = .cont rest (.none :: st) := rfl
theorem step_TRUE : step cfg opTRUE rest st = .cont rest (.bool true :: st) := rfl
theorem step_FALSE : step cfg opFALSE rest st = .cont rest (.bool false :: st) := rfl
theorem step_INT : step cfg opINT rest st = rdI32 rest fun i r => .cont r (.int i :: st) := rfl
theorem step_LONG : step cfg opLONG rest st = rdI32 rest fun i r => .cont r (.int i :: st) := rfl
theorem step_LONGINT : step cfg opLONGINT rest st = rdBytes rest fun b r =>
    match parseInt b with
    | some i => .cont r (.int i :: st)
    | Option.none => .err .dataFormat := rfl
theorem step_LONGLONG : step cfg opLONGLONG rest st = rdBytes rest fun b r =>
    match parseInt b with
    | some i => .cont r (.int i :: st)
    | Option.none => .err .dataFormat := rfl
theorem step_FLOAT : step cfg opFLOAT rest st =
    match rd8 rest with
    | some (b, r) => .cont r (.float b :: st)
    | Option.none => .err .eof := rfl
theorem step_COMPLEX : step cfg opCOMPLEX rest st =
    match rd8 rest with
    | some (re, r1) =>
      match rd8 r1 with
      | some (im, r2) => .cont r2 (.complex re im :: st)
      | Option.none => .err .eof
    | Option.none => .err .eof := rfl
theorem step_BYTES : step cfg opBYTES rest st = rdBytes rest fun b r => .cont r (.bytes b :: st) := rfl
theorem step_PY3STRING : step cfg opPY3STRING rest st = rdBytes rest fun b r =>
    if cfg.py3str_as_py2str then .cont r (.bytes b :: st)
    else match utf8Decode b with
      | some s => .cont r (.str s :: st)
      | Option.none => .err .dataFormat := rfl
theorem step_PY2STRING : step cfg opPY2STRING rest st = rdBytes rest fun b r =>
    if cfg.py2str_as_py3str then .cont r (.str (latin1Decode b) :: st)
    else .cont r (.bytes b :: st) := rfl
theorem step_UNICODE : step cfg opUNICODE rest st = rdBytes rest fun b r =>
    match utf8Decode b with
    | some s => .cont r (.str s :: st)
    | Option.none => .err .dataFormat := rfl
theorem step_NEWLIST : step cfg opNEWLIST rest st =
    rdI32 rest fun n r =>
      if memExceeded cfg n.toNat then .err .memory else .cont r (.list (List.replicate n.toNat .none) :: st) := rfl
theorem step_NEWDICT : step cfg opNEWDICT rest st = .cont rest (.dict [] :: st) := rfl
theorem step_SETITEM : step cfg opSETITEM rest st = setItem rest st := rfl
theorem step_BUILDTUPLE : step cfg opBUILDTUPLE rest st =
    rdI32 rest fun n r => buildColl .tuple n r st := rfl
theorem step_SET : step cfg opSET rest st = rdI32 rest fun n r => buildColl .set n r st := rfl
theorem step_FROZENSET : step cfg opFROZENSET rest st =
    rdI32 rest fun n r => buildColl .frozenset n r st := rfl
theorem step_CHANNEL : step cfg opCHANNEL rest st = rdI32 rest fun id r =>
    if cfg.hasFactory then .cont r (.channel id :: st) else .err .dataFormat := rfl
theorem step_STOP : step cfg opSTOP rest st = .stop st := rfl
end

end ExecnetVerif
