/-
Driver commands for the L3 `Net` model.
  net.run <op> ; <op> ; ...      → "<out> ; <out> ; ... | <digest>"
ops:   new S | rexec | send S id val [c1,c2] | close S id (-|eN) | recv S id | wait S id | setcb S id (0|1)
       | drop S id | isclosed S id | deliver S | finish id (ret|raiseN) | cut S
The callback-failure predicate is fixed: an item fails iff `val % 100 = 99`.
-/
import ExecnetVerif.Model.Net
namespace ExecnetVerif.Net

def failsDefault (v : Item) : Bool := v.val % 100 == 99

def parseSide : String → Option Side
  | "A" => some .A
  | "B" => some .B
  | _ => none

def parseIds (s : String) : Option (List Nat) :=
  if s = "-" then some [] else (s.splitOn ",").mapM String.toNat?

def parseOp : List String → Option Op
  | ["new", s] => do pure (.newchannel (← parseSide s))
  | ["rexec"] => some .remoteExec
  | ["send", s, id, v] => do pure (.send (← parseSide s) (← id.toNat?) ⟨← v.toNat?, []⟩)
  | ["send", s, id, v, cs] => do pure (.send (← parseSide s) (← id.toNat?) ⟨← v.toNat?, ← parseIds cs⟩)
  | ["close", s, id, e] => do
    let err ← if e = "-" then pure none else (e.drop 1).toString.toNat?.map some
    pure (.close (← parseSide s) (← id.toNat?) err)
  | ["recv", s, id] => do pure (.receive (← parseSide s) (← id.toNat?))
  | ["wait", s, id] => do pure (.waitclose (← parseSide s) (← id.toNat?))
  | ["setcb", s, id, w] => do pure (.setcallback (← parseSide s) (← id.toNat?) (w == "1"))
  | ["drop", s, id] => do pure (.drop (← parseSide s) (← id.toNat?))
  | ["isclosed", s, id] => do pure (.isclosed (← parseSide s) (← id.toNat?))
  | ["deliver", s] => do pure (.deliver (← parseSide s))
  | ["finish", id, "ret"] => do pure (.execFinish (← id.toNat?) .ret)
  | ["finish", id, o] => do
    if o.startsWith "raise" then pure (.execFinish (← id.toNat?) (.raise (← (o.drop 5).toString.toNat?))) else none
  | ["cut", s] => do pure (.cut (← parseSide s))
  | _ => none

def renderIds (l : List Nat) : String := if l.isEmpty then "-" else ",".intercalate (l.map toString)

def Item.render (v : Item) : String := s!"{v.val}:{renderIds v.chans}"

def Out.render : Out → String
  | .ok => "ok"
  | .chan id => s!"chan {id}"
  | .item v => s!"item {v.render}"
  | .bool b => if b then "true" else "false"
  | .osError => "OSError"
  | .eofError => "EOFError"
  | .remoteError e => s!"RemoteError {e}"
  | .cbRaised => "cbRaised"
  | .wouldBlock => "block"
  | .notEnabled => "noten"

def Frame.render : Frame → String
  | .data id v => s!"data:{id}:{v.val}"
  | .close id => s!"close:{id}"
  | .closeErr id e => s!"closeErr:{id}:{e}"
  | .lastMsg id => s!"last:{id}"
  | .exec id => s!"exec:{id}"
  | .terminate => "term"

def CbEvent.render : CbEvent → String
  | .item v => s!"i{v.render}"
  | .endmarker => "E"

def sideDigest (nm : String) (x : SideSt) (maxId : Nat) : String :=
  let ids := (List.range (maxId + 1))
  let reg := ids.filter fun i => (x.chans i).registered
  let cbs := ids.filter fun i => (x.cbs i).isSome
  let logs := ids.filterMap fun i =>
    if (x.cbLog i).isEmpty then none else some (s!"{i}=" ++ "+".intercalate ((x.cbLog i).map CbEvent.render))
  let outs := if x.out.isEmpty then "-" else ",".intercalate (x.out.map Frame.render)
  s!"{nm} count={x.count} fin={if x.finished then 1 else 0} reg={renderIds reg} cbs={renderIds cbs} " ++
    s!"out={outs} cblog={if logs.isEmpty then "-" else " ".intercalate logs}"

def splitSemi : List String → List String → List (List String) → List (List String)
  | [], cur, acc => (cur.reverse :: acc).reverse
  | t :: ts, cur, acc => if t == ";" then splitSemi ts [] (cur.reverse :: acc) else splitSemi ts (t :: cur) acc

def netHandle : List String → Option String
  | "net.run" :: toks =>
    let groups := (splitSemi toks [] []).filter (· ≠ [])
    match groups.mapM parseOp with
    | none => some "bad-op"
    | some ops =>
      let (outs, st) := run failsDefault init ops
      let maxId := max st.a.count st.b.count
      some (" ; ".intercalate (outs.map Out.render) ++ " | " ++ sideDigest "A" st.a maxId ++ " | " ++
        sideDigest "B" st.b maxId)
  | _ => none

end ExecnetVerif.Net
