/-
L2: the read-until-n loops of `Popen2IO.read` / `SocketIO.read` under an adversarial low-level read,
and interleavings of writers (C08, C16).

  def read(self, numbytes):                      # Popen2IO            | SocketIO
      buf = b""
      while numbytes > len(buf):                 #                     | while len(buf) < numbytes:
          data = self._read(numbytes - len(buf)) #                     |   t = self.sock.recv(numbytes - len(buf))
          if not data: raise EOFError(...)       #                     |   if not t: raise EOFError(...)
          buf += data
      return buf

The adversary is a list of chunks: what the pipe/socket hands over, piece by piece.  A low-level
`read(k)` returns the next chunk if it has at most `k` bytes, else its first `k` bytes (the remainder
stays available).  Since the chunk list is arbitrary this covers every sequence of non-empty results
a low-level read may produce ("any non-empty prefix of what is available").  An empty chunk is a
low-level read returning `b""`, which both loops take for EOF.

No Mathlib import: linked into the native driver.
-/
import ExecnetVerif.Model.Frame
namespace ExecnetVerif

/-- The read-until-n loop.  `need` = bytes still missing, `acc` = `buf` so far.
`.error k` = `EOFError("expected n bytes, got k")`; `.ok (buf, remaining chunks)`. -/
def readExact : List Bytes → Nat → Bytes → Except Nat (Bytes × List Bytes)
  | [], need, acc => if need = 0 then .ok (acc, []) else .error acc.length
  | c :: cs, need, acc =>
    if need = 0 then .ok (acc, c :: cs)
    else if c.length = 0 then .error acc.length
    else if c.length ≤ need then readExact cs (need - c.length) (acc ++ c)
    else .ok (acc ++ c.take need, c.drop need :: cs)

/-- one low-level `stream.read(k)` against the adversary: the next chunk if it has at most `k` bytes, else its first `k` bytes
(the remainder stays available); nothing left = `b""` -/
def lowRead : List Bytes → Nat → Bytes × List Bytes
  | [], _ => ([], [])
  | c :: cs, k => if c.length ≤ k then (c, cs) else (c.take k, c.drop k :: cs)

/-- `Unserializer._read_exact(numbytes)` (numbytes ≥ 0): one `read(numbytes)`, then `read(numbytes - len(buf))` until complete

    buf = self.stream.read(numbytes)
    while len(buf) < numbytes:
        data = self.stream.read(numbytes - len(buf))
        if not data: raise EOFError("expected %d bytes, got %d")
        buf += data
    return buf
-/
def unserReadExact (chunks : List Bytes) (n : Nat) : Except Nat (Bytes × List Bytes) :=
  let r := lowRead chunks n
  if n ≤ r.1.length then .ok r else readExact r.2 (n - r.1.length) r.1

def totalLen (chunks : List Bytes) : Nat := (chunks.map List.length).sum

/-- `while 1: Message.from_io(io)` where `io.read` is the loop above; `fuel` bounds the number of
frames (every frame consumes at least its 9 header bytes, see `decodeStreamChunked`). -/
def decodeChunkedFuel : Nat → List Bytes → List Msg × Ending
  | 0, _ => ([], .eof)
  | fuel + 1, chunks =>
    match readExact chunks 9 [] with
    | .error 0 => ([], .eof)
    | .error _ => ([], .midHeader)
    | .ok (h, chunks1) =>
      match unpackHeader h with
      | none => ([], .badHeader)
      | some (t, cid, len) =>
        match readExact chunks1 len.toNat [] with
        | .error _ => ([], .midPayload)
        | .ok (p, chunks2) =>
          let r := decodeChunkedFuel fuel chunks2
          (⟨t, cid, p⟩ :: r.1, r.2)

/-- the receiver loop over a chunked stream followed by EOF -/
def decodeStreamChunked (chunks : List Bytes) : List Msg × Ending :=
  decodeChunkedFuel (totalLen chunks + 1) chunks

/-- cut a byte string into chunks of the given sizes (a size 0 or a missing size takes the rest) -/
def chunkBy : List Nat → Bytes → List Bytes
  | _, [] => []
  | [], bs => [bs]
  | k :: ks, bs =>
    if k = 0 then [bs] else bs.take k :: chunkBy ks (bs.drop k)

/-! ### interleavings of writers -/

/-- `Interleaving seqs out`: `out` is obtained by repeatedly taking the head of one of the
sequences — every element of every sequence exactly once, the order inside each sequence kept. -/
inductive Interleaving {α : Type} : List (List α) → List α → Prop
  | done {seqs : List (List α)} : (∀ s ∈ seqs, s = []) → Interleaving seqs []
  | step {seqs : List (List α)} {out : List α} (i : Nat) (x : α) (s : List α) :
      seqs[i]? = some (x :: s) → Interleaving (seqs.set i s) out → Interleaving seqs (x :: out)

end ExecnetVerif
