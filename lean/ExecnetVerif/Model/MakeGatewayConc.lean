/-
Concurrent `Group.makegateway` calls (C05: "no process is left behind, unknown to the group").

`Model/MakeGateway.lean` is one call in isolation.  Here several calls overlap: every call first passes
`_reserve_id` (one critical section under `_autoidlock`: allocate or check the id, add it to `_reserved_ids`),
then creates its process and bootstraps it outside the lock (slow: other calls run meanwhile), and at last
`_register`s the gateway (second critical section).  An error after the reservation runs the error path
(`_reserved_ids.discard(spec.id)`).  The two critical sections are the atomic operations of the model:

  `begin c req`      — call `c` enters makegateway and passes (or is refused by) `_reserve_id`
  `finish c fault`   — the rest of call `c`: create the process and bootstrap (`fault`: that fails, no process is
                        left — `Model/MakeGateway.lean`), then `_register`

WHERE the reservation happens relative to the `try` block and what the error path releases is read off the
source by the translator (`Generated/Tables.lean`: `makegatewayBeforeTry`, `makegatewayErrorPath`) — `codeCfg`.
A reservation made inside the `try` makes a *refused* call release the id, i.e. the reservation of the call that is
still in flight: a third call then creates a second process for the same id and `_register` refuses one of the two
with its process left running, unknown to the group (`orphans`).
-/
import ExecnetVerif.Generated.Tables
namespace ExecnetVerif.MakeGatewayConc

structure Cfg where
  /-- `_reserve_id` is called before the `try:` whose handler releases `spec.id` -/
  reserveBeforeTry : Bool
  /-- the error path discards `spec.id` from `_reserved_ids` -/
  errorPathReleases : Bool
  deriving DecidableEq, Repr

def good : Cfg := { reserveBeforeTry := true, errorPathReleases := true }

/-- what the current source does -/
def codeCfg : Cfg :=
  { reserveBeforeTry := Generated.makegatewayBeforeTry.contains "_reserve_id" && !Generated.makegatewayInTry.contains "_reserve_id"
    errorPathReleases := Generated.makegatewayErrorPath.contains "self._reserved_ids.discard(spec.id)" }

structure W where
  members : List Nat := []          -- ids of the registered gateways (`_gateways`)
  reserved : List Nat := []         -- `_reserved_ids`
  counter : Nat := 0                -- `_autoidcounter`
  inflight : List (Nat × Nat) := [] -- (call, id): calls between `_reserve_id` and `_register`
  procs : List Nat := []            -- ids of the live worker processes this group created
  orphans : List Nat := []          -- ... of which these are unknown to the group (`_register` refused them)
  deriving DecidableEq, Repr

inductive Op where
  | begin (c : Nat) (req : Option Nat)
  | finish (c : Nat) (fault : Bool)
  deriving DecidableEq, Repr

inductive Out where
  | reserved (id : Nat)
  | idTaken
  | ok (id : Nat)
  | failed          -- the process could not be created / died during the bootstrap: nothing is left
  | registerRefused -- `_register` found the id among the members: the process stays, unknown to the group
  | notInFlight
  deriving DecidableEq, Repr

def taken (w : W) (id : Nat) : Bool := w.reserved.contains id || w.members.contains id

/-- the error path of makegateway for a call whose `spec.id` is `id` -/
def release (cfg : Cfg) (w : W) (id : Nat) : W :=
  if cfg.errorPathReleases then { w with reserved := w.reserved.erase id } else w

def step (cfg : Cfg) (w : W) : Op → Out × W
  | .begin c req =>
    if w.inflight.any (·.1 == c) then (.notInFlight, w) else
    match req with
    | none =>
      -- `_allocate_id`: "gw<counter>", counter incremented first, refused when taken (spec.id stays None: the error
      -- path has nothing to release)
      let id := w.counter
      let w1 := { w with counter := w.counter + 1 }
      if taken w id then (.idTaken, w1)
      else (.reserved id, { w1 with reserved := id :: w1.reserved, inflight := (c, id) :: w1.inflight })
    | some id =>
      if taken w id then
        -- refused.  With the reservation inside the `try` the handler runs and releases `spec.id` — the reservation
        -- of whoever holds it
        (.idTaken, if cfg.reserveBeforeTry then w else release cfg w id)
      else (.reserved id, { w with reserved := id :: w.reserved, inflight := (c, id) :: w.inflight })
  | .finish c fault =>
    match w.inflight.find? (·.1 == c) with
    | none => (.notInFlight, w)
    | some (_, id) =>
      let w1 := { w with inflight := w.inflight.filter (·.1 != c) }
      if fault then (.failed, release cfg w1 id)
      else
        -- the process exists from here on
        let w2 := { w1 with procs := w1.procs ++ [id] }
        if w2.members.contains id then
          (.registerRefused, release cfg { w2 with orphans := w2.orphans ++ [id] } id)
        else (.ok id, { w2 with members := w2.members ++ [id], reserved := w2.reserved.erase id })

def run (cfg : Cfg) (w : W) : List Op → List Out × W
  | [] => ([], w)
  | op :: ops =>
    let (o, w1) := step cfg w op
    let (os, w2) := run cfg w1 ops
    (o :: os, w2)

def init : W := {}

end ExecnetVerif.MakeGatewayConc
