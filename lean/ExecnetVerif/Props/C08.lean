/-
C08 — Message frames survive any chunking and never interleave on the wire.
Property theorems only (helper lemmas live in Proofs/FrameLemmas, Proofs/InterleaveLemmas).
-/
import ExecnetVerif.Proofs.FrameLemmas
import ExecnetVerif.Proofs.InterleaveLemmas
import ExecnetVerif.Proofs.SendDeferLemmas
import ExecnetVerif.Generated.Tables
namespace ExecnetVerif

/-- **C08 (header).** `struct.unpack("!bii", struct.pack("!bii", t, cid, len)) == (t, cid, len)` for
every type code in the signed-byte range, every channel id in the signed 32-bit range and every
payload length a `bytes` object can have below 2^31: the receiver sees the type, channel id and
length the sender wrote; the header always has 9 bytes. -/
theorem C08_header (t cid : Int) (len : Nat) (ht : inI8 t) (hc : inI32 cid) (hl : len < two31) :
    unpackHeader (packHeader t cid len) = some (t, cid, (len : Int)) ∧
      (packHeader t cid len).length = headerSize :=
  ⟨unpack_pack t cid len ht hc hl, packHeader_length t cid len⟩

/-- **C08 (stream).** Any sequence of messages `to_io` accepts, written one after the other, is read
back by the peer's `from_io` loop as exactly that sequence — same types, channel ids and payloads,
nothing merged, split or left over — and then a clean EOF at a frame boundary. -/
theorem C08_stream (ms : List Msg) (h : wfMsgs ms) :
    decodeStream (ms.flatMap encodeMsg) = (ms, .eof) := by
  have := decodeStream_encodeAll_append ms [] h
  simpa [encodeAll, decodeStream_nil] using this

/-- **C08 (framing is unambiguous).** Two sequences of messages `to_io` accepts that put the same bytes on
the wire are the same sequence: the byte stream determines the number of messages, their boundaries, types,
channel ids and payloads — no payload content can be mistaken for a frame boundary. -/
theorem C08_stream_injective (ms ms' : List Msg) (h : wfMsgs ms) (h' : wfMsgs ms')
    (hw : ms.flatMap encodeMsg = ms'.flatMap encodeMsg) : ms = ms' := by
  have h1 := C08_stream ms h
  have h2 := C08_stream ms' h'
  rw [hw, h2] at h1
  exact (Prod.mk.inj h1).1.symm

/-- **C08 (re-entrant sends, fix D30).** A send may be re-entered while its frame is being written (a finaliser run by
the garbage collector sends CLOSE / LAST_MESSAGE from the writing thread itself), to any depth (`SendDefer.SendTree`).
`_send` defers such messages and writes them behind the frame in progress (`SendDefer.drain` is its loop): the peer
decodes whole messages only, the message of the outer call first, and altogether exactly the messages that anybody
attempted to send — each once, none lost, none torn. -/
theorem C08_reentrant_sends (f : Msg) (ks : List (SendDefer.SendTree Msg))
    (h : wfMsgs (SendDefer.sendOne (.node f ks))) :
    decodeStream ((SendDefer.sendOne (.node f ks)).flatMap encodeMsg) = (SendDefer.sendOne (.node f ks), .eof) ∧
    (SendDefer.sendOne (.node f ks)).head? = some f ∧
    (SendDefer.sendOne (.node f ks)).Perm (SendDefer.SendTree.frames (.node f ks)) := by
  refine ⟨C08_stream _ h, ?_, ?_⟩
  · simp [SendDefer.sendOne, SendDefer.drain]
  · have := SendDefer.drain_perm [SendDefer.SendTree.node f ks]
    simpa [SendDefer.sendOne, SendDefer.SendTree.framesList] using this

/-- a finaliser fires while the frame of `a` is written and sends `b`; while `b` is written later another one sends `c` -/
example : SendDefer.sendOne (.node 1 [.node 2 [.node 4 []], .node 3 []]) = [1, 2, 3, 4] := by
  simp [SendDefer.sendOne, SendDefer.drain]

/-- **C08 (chunking).** However the pipe or socket splits or coalesces the bytes — every low-level
`read`/`recv` returning any non-empty part of what is available — the read-until-n loops of
`Popen2IO.read`/`SocketIO.read` make `from_io` decode exactly what it would decode from the
contiguous stream (for *every* byte stream `bs`, well-formed or not, complete or cut). -/
theorem C08_chunking (chunks : List Bytes) (bs : Bytes) (hflat : chunks.flatten = bs)
    (hne : ∀ c ∈ chunks, c ≠ []) : decodeStreamChunked chunks = decodeStream bs := by
  rw [← hflat]; exact decodeStreamChunked_eq chunks hne

/-- **C08 (atomic writers).** `frames t` is what sender thread `t` sends, in its order.  If each frame
reaches the wire as ONE atomic write (what the send lock of `BaseGateway._send` establishes for every
transport), then for any interleaving `wire` of the writers the peer decodes a sequence `m` of
messages ending in a clean EOF, where `m` is an interleaving of the frames sent: every message sent
is decoded exactly once (`Interleaving.perm`), unmodified, and each sender's messages stay in order
(`Interleaving.sublist`). -/
theorem C08_atomic_writers (frames : List (List Msg)) (wire : List Bytes)
    (hwf : ∀ t ∈ frames, wfMsgs t)
    (hwire : Interleaving (frames.map (List.map encodeMsg)) wire) :
    ∃ m, decodeStream wire.flatten = (m, .eof) ∧ Interleaving frames m ∧
      m.Perm frames.flatten ∧ (∀ t ∈ frames, t.Sublist m) := by
  obtain ⟨m, hm, hint⟩ := hwire.map_inv encodeMsg frames rfl
  refine ⟨m, ?_, hint, hint.perm, ?_⟩
  · have hwfm : wfMsgs m := by
      intro x hx
      obtain ⟨s, hs, hxs⟩ := hint.mem x hx
      exact hwf s hs x hxs
    rw [hm, ← List.flatMap_def]
    exact C08_stream m hwfm
  · intro t ht
    obtain ⟨i, hi, hget⟩ := List.mem_iff_getElem.mp ht
    exact hint.sublist i t (by rw [List.getElem?_eq_getElem hi, hget])

/-- the two messages of the witness below -/
def splitWitnessA : Msg := ⟨4, 1, [0xAA]⟩
def splitWitnessB : Msg := ⟨4, 3, [0xBB]⟩

/-- **C08 (atomicity is necessary).** Two senders whose frames each reach the wire in two pieces
(header, then payload — e.g. an unlocked `sendall` that is pre-empted, or a `to_io` that writes header
and payload separately): the interleaving A.header, B.header, A.payload, B.payload is a legal
interleaving of the *pieces*, but the peer decodes neither `[A, B]` nor `[B, A]` — the first message
it sees carries a byte of B's header as payload.  So "one atomic write per frame" cannot be dropped
from `C08_atomic_writers`; the correspondence has to establish it for every transport. -/
theorem C08_split_writes_break :
    ∃ (pa1 pa2 pb1 pb2 : Bytes) (wire : List Bytes),
      wfMsg splitWitnessA ∧ wfMsg splitWitnessB ∧
      pa1 ++ pa2 = encodeMsg splitWitnessA ∧ pb1 ++ pb2 = encodeMsg splitWitnessB ∧
      Interleaving [[pa1, pa2], [pb1, pb2]] wire ∧
      (decodeStream wire.flatten).1.head? = some ⟨4, 1, [4]⟩ ∧
      ∀ m, Interleaving [[splitWitnessA], [splitWitnessB]] m → decodeStream wire.flatten ≠ (m, .eof) := by
  refine ⟨packHeader 4 1 1, [0xAA], packHeader 4 3 1, [0xBB],
    [packHeader 4 1 1, packHeader 4 3 1, [0xAA], [0xBB]], by decide, by decide, rfl, rfl, ?_, ?_, ?_⟩
  · exact .step 0 _ [[0xAA]] rfl (.step 1 _ [[0xBB]] rfl (.step 0 _ [] rfl (.step 1 _ [] rfl
      (.done (by simp)))))
  all_goals
    have hw : ([packHeader 4 1 1, packHeader 4 3 1, [0xAA], [0xBB]] : List Bytes).flatten
        = encodeMsg ⟨4, 1, [4]⟩ ++ [0, 0, 0, 3, 0, 0, 0, 1, 0xAA, 0xBB] := by decide
    rw [hw, decodeStream_encode_append _ _ (by decide)]
  · rfl
  · intro m hm heq
    have h1 := congrArg (fun r => r.1.head?) heq
    simp only [List.head?_cons] at h1
    have hmem := hm.mem
    cases m with
    | nil => simp at h1
    | cons x xs =>
      simp only [List.head?_cons, Option.some.injEq] at h1
      obtain ⟨s, hs, hx⟩ := hmem x (by simp)
      simp only [List.mem_cons, List.not_mem_nil, or_false] at hs
      rcases hs with rfl | rfl
      · simp only [List.mem_cons, List.not_mem_nil, or_false] at hx
        rw [hx] at h1; revert h1; decide
      · simp only [List.mem_cons, List.not_mem_nil, or_false] at hx
        rw [hx] at h1; revert h1; decide

/-! ### the constants of the code the model is stated over (regenerated from the source) -/

/-- `from_io` reads a 9-byte header; both directions use the format `"!bii"` -/
theorem C08_pins :
    Generated.headerSize = (headerSize : Int) ∧
    (Generated.structFormats.filter (fun e => e.1 == "Message.from_io" || e.1 == "Message.to_io")) =
      [("Message.from_io", "unpack", "!bii"), ("Message.to_io", "pack", "!bii")] ∧
    Generated.messageTable.map (fun e => (e.1, e.2.1)) =
      [("STATUS", 0), ("RECONFIGURE", 1), ("GATEWAY_TERMINATE", 2), ("CHANNEL_EXEC", 3),
       ("CHANNEL_DATA", 4), ("CHANNEL_CLOSE", 5), ("CHANNEL_CLOSE_ERROR", 6),
       ("CHANNEL_LAST_MESSAGE", 7)] ∧
    (∀ e ∈ Generated.messageTable, inI8 e.2.1) := by
  decide

/-- `BaseGateway._send`, statement by statement with the lock each runs under: the re-entrant call is recognised and deferred
under the send lock, the frame and then the deferred frames are written under it (`SendDefer.drain` transcribes this loop) -/
theorem C08_send_pinned :
    Generated.lockScopes.lookup "BaseGateway._send" = some
      [("-", "message = Message(msgcode, channelid, data)"), ("self._sendlock", "if self._sending"),
       ("self._sendlock", "self._send_deferred.append(message)"), ("self._sendlock", "return"),
       ("self._sendlock", "self._sending = True"), ("self._sendlock", "message.to_io(self._io)"),
       ("self._sendlock", "loop"), ("self._sendlock", "self._send_deferred.pop(0).to_io(self._io)"),
       ("self._sendlock", "finally"), ("self._sendlock", "self._sending = False"),
       ("-", "except (OSError, ValueError)"), ("-", "raise OSError")] := by
  decide

/-! ### non-vacuity -/

def exampleMsgs : List Msg :=
  [⟨4, 2147483647, [1, 2, 3]⟩, ⟨-128, -2147483648, []⟩, ⟨127, -1, [0, 255]⟩, ⟨5, 0, []⟩]

example : wfMsgs exampleMsgs := by decide
example : Interleaving [[(1 : Nat), 2], [3]] [1, 3, 2] :=
  .step 0 1 [2] rfl (.step 1 3 [] rfl (.step 0 2 [] rfl (.done (by simp))))
example : (∀ c ∈ ([[1, 2], [3]] : List Bytes), c ≠ []) := by decide

end ExecnetVerif
