/-
The one-sided operations of the `Net` model as functions of the side state (`sideStep`), and the shape of the
two-sided ones (`deliver`, `cut`).
-/
import ExecnetVerif.Proofs.Net.FineHandle
namespace ExecnetVerif.Net.Fine
open ExecnetVerif.Net
set_option linter.unusedSimpArgs false

/-- the side an operation works on -/
def opSide : Op → Side
  | .newchannel s => s
  | .remoteExec => .A
  | .send s _ _ => s
  | .close s _ _ => s
  | .receive s _ => s
  | .waitclose s _ => s
  | .setcallback s _ _ => s
  | .drop s _ => s
  | .isclosed s _ => s
  | .deliver p => p
  | .execFinish _ _ => .B
  | .cut p => p

def oneSided : Op → Bool
  | .deliver _ => false
  | .cut _ => false
  | _ => true

/-- the effect of a one-sided operation on its side -/
def sideStep (fails : Item → Bool) (x : SideSt) : Op → Out × SideSt
  | .newchannel _ =>
    if x.finished then (.osError, x)
    else (.chan x.count, { createAt x x.count with count := x.count + 2 })
  | .remoteExec =>
    if x.finished then (.osError, x)
    else if !x.ioOpen then (.osError, { x with count := x.count + 2 })
    else (.chan x.count, { createAt x x.count with count := x.count + 2, out := x.out ++ [.exec x.count] })
  | .send _ id v =>
    let c := x.chans id
    if !c.alive || !(v.chans.all fun k => (x.chans k).alive) then (.notEnabled, x)
    else if c.closed then (.osError, x)
    else if !x.ioOpen then (.osError, x)
    else (.ok, { x with out := x.out ++ [.data id v], sent := upd x.sent id (x.sent id ++ [v]) })
  | .close _ id err =>
    if !(x.chans id).alive then (.notEnabled, x) else chanClose x id err
  | .receive _ id =>
    let c := x.chans id
    if !c.alive then (.notEnabled, x)
    else match c.queue with
      | none => (.osError, x)
      | some [] => (.wouldBlock, x)
      | some (.item v :: q) =>
        (.item v, { x with chans := upd x.chans id { c with queue := some q },
                           got := upd x.got id (x.got id ++ [v]) })
      | some (.endmarker :: q) =>
        let c1 := { c with queue := some (q ++ [.endmarker]) }
        match c.rerrs with
        | e :: es => (.remoteError e, { x with chans := upd x.chans id { c1 with rerrs := es } })
        | [] => (.eofError, { x with chans := upd x.chans id c1 })
  | .waitclose _ id =>
    let c := x.chans id
    if !c.alive then (.notEnabled, x)
    else if !c.rclosed then (.wouldBlock, x)
    else match c.rerrs with
      | e :: es => (.remoteError e, { x with chans := upd x.chans id { c with rerrs := es } })
      | [] => if x.gwerr then (.eofError, x) else (.ok, x)
  | .setcallback _ id w =>
    let c := x.chans id
    if !c.alive then (.notEnabled, x)
    else match c.queue with
      | none => (.osError, x)
      | some q =>
        let (vs, raised, sawEnd) := drain fails q
        let x := { x with chans := upd x.chans id { c with queue := none },
                          cbWants := upd x.cbWants id (some w),
                          got := upd x.got id (x.got id ++ vs),
                          cbLog := upd x.cbLog id (x.cbLog id ++ vs.map .item ++
                            (if sawEnd && w then [.endmarker] else [])) }
        if raised then (.cbRaised, { x with broken := upd x.broken id true })
        else if sawEnd then (.ok, x)
        else if c.closed || c.rclosed then (.ok, x)
        else (.ok, { x with cbs := upd x.cbs id (some w) })
  | .drop _ id =>
    let c := x.chans id
    if !c.alive || c.executing then (.notEnabled, x)
    else
      let x1 := { x with chans := upd x.chans id { c with alive := false, registered := false } }
      if c.closed || !x.ioOpen then (.ok, x1)
      else
        let frame : Frame := if c.rclosed then .close id else if c.queue.isNone then .lastMsg id else .close id
        (.ok, { x1 with out := x1.out ++ [frame], closeSent := upd x1.closeSent id true })
  | .isclosed _ id =>
    if !(x.chans id).alive then (.notEnabled, x) else (.bool (x.chans id).closed, x)
  | .execFinish id o =>
    let c := x.chans id
    if !c.executing then (.notEnabled, x)
    else
      let x := { x with chans := upd x.chans id { c with executing := false } }
      let err := match o with
        | .ret => none
        | .raise e => if x.finished then none else some e
      chanClose x id err
  | .deliver _ => (.notEnabled, x)
  | .cut _ => (.notEnabled, x)

theorem step_eq_sideStep (fails : Item → Bool) (st : State) (op : Op) (h : oneSided op = true) :
    step fails st op =
      ((sideStep fails (st.side (opSide op)) op).1, st.set (opSide op) (sideStep fails (st.side (opSide op)) op).2) := by
  cases op with
  | deliver p => cases h
  | cut p => cases h
  | newchannel s => simp only [step, sideStep, opSide]; split <;> simp [*]
  | remoteExec =>
    show step fails st .remoteExec = ((sideStep fails st.a .remoteExec).1, st.set .A (sideStep fails st.a .remoteExec).2)
    simp only [step, sideStep]; split
    · simp [*]; cases st; rfl
    · split <;> simp [*]
  | send s id v => simp only [step, sideStep, opSide]; (repeat' split) <;> simp [*]
  | close s id err => simp only [step, sideStep, opSide]; split <;> simp [*]
  | receive s id => simp only [step, sideStep, opSide]; (repeat' split) <;> simp [*]
  | waitclose s id => simp only [step, sideStep, opSide]; (repeat' split) <;> simp [*]
  | setcallback s id w =>
    simp only [step, sideStep, opSide]
    split
    · simp [*]
    · split
      · simp [*]
      · next q hq =>
        simp only [*]
        rcases drain fails q with ⟨vs, raised, sawEnd⟩
        cases raised <;> cases sawEnd <;> simp <;> split <;> simp
  | drop s id => simp only [step, sideStep, opSide]; (repeat' split) <;> simp [*]
  | isclosed s id => simp only [step, sideStep, opSide]; split <;> simp [*]
  | execFinish id o =>
    show step fails st (.execFinish id o) =
      ((sideStep fails st.b (.execFinish id o)).1, st.set .B (sideStep fails st.b (.execFinish id o)).2)
    simp only [step, sideStep]; split
    · simp [*]; cases st; rfl
    · rfl

end ExecnetVerif.Net.Fine
