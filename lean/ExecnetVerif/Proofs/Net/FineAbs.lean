/-
The abstraction `FState.abs` (all in-hand ENDMARKERs put back): what it preserves, how a coarse step
commutes with it, how one key can be pulled out of it.
-/
import ExecnetVerif.Proofs.Net.FineComm
namespace ExecnetVerif.Net.Fine
open ExecnetVerif.Net
set_option linter.unusedSimpArgs false

/-! ### one put-back: what it leaves alone -/

theorem putBack_side (st : State) (k : Side × Nat) (s : Side) :
    (putBack st k).side s = if s = k.1 then pb (st.side s) k.2 else st.side s := by
  obtain ⟨p, id⟩ := k
  rw [putBack_eq, side_set]
  split
  · next h => subst h; rfl
  · rfl

@[simp] theorem putBack_count (st : State) (k : Side × Nat) (s : Side) :
    ((putBack st k).side s).count = (st.side s).count := by
  rw [putBack_side]; split <;> rfl

@[simp] theorem putBack_out (st : State) (k : Side × Nat) (s : Side) :
    ((putBack st k).side s).out = (st.side s).out := by
  rw [putBack_side]; split <;> rfl

@[simp] theorem putBack_alive (st : State) (k : Side × Nat) (s : Side) (i : Nat) :
    (((putBack st k).side s).chans i).alive = ((st.side s).chans i).alive := by
  rw [putBack_side]; split
  · exact pb_chans_alive _ _ _
  · rfl

@[simp] theorem putBack_created (st : State) (k : Side × Nat) (s : Side) (i : Nat) :
    (((putBack st k).side s).chans i).created = ((st.side s).chans i).created := by
  rw [putBack_side]; split
  · exact pb_chans_created _ _ _
  · rfl

@[simp] theorem putBack_registered (st : State) (k : Side × Nat) (s : Side) (i : Nat) :
    (((putBack st k).side s).chans i).registered = ((st.side s).chans i).registered := by
  rw [putBack_side]; split
  · exact pb_chans_registered _ _ _
  · rfl

theorem putBack_queue (st : State) (k : Side × Nat) (s : Side) (i : Nat) :
    (((putBack st k).side s).chans i).queue =
      if (s, i) = k then pushEnd ((st.side s).chans i).queue else ((st.side s).chans i).queue := by
  obtain ⟨p, id⟩ := k
  rw [putBack_side]
  by_cases hs : s = p
  · subst hs
    simp only [if_true, pb_chans_apply]
    by_cases hi : i = id
    · subst hi; simp
    · simp [hi]
  · simp [hs]

theorem putBack_queue_ne_nil (st : State) (k : Side × Nat) (s : Side) (i : Nat)
    (h : ((st.side s).chans i).queue ≠ some []) : (((putBack st k).side s).chans i).queue ≠ some [] := by
  rw [putBack_queue]
  split
  · cases hq : ((st.side s).chans i).queue with
    | none => simp [pushEnd]
    | some q => simp [pushEnd]
  · exact h

theorem Comm.putBack {st : State} {k : Side × Nat} {op : Op} (h : Comm st k op) (k' : Side × Nat) :
    Comm (putBack st k') k op := by
  cases op with
  | deliver p =>
    intro hp
    obtain ⟨h1, h2⟩ := h hp
    refine ⟨by rw [putBack_registered]; exact h1, ?_⟩
    intro fr rest hout
    rw [putBack_out] at hout
    exact h2 fr rest hout
  | cut p => trivial
  | newchannel s => intro hs; have := h hs; simpa [SideComm] using this
  | remoteExec => intro hs; have := h hs; simpa [SideComm] using this
  | receive s id =>
    intro hs hid
    exact putBack_queue_ne_nil st k' k.1 k.2 (h hs hid)
  | setcallback s id w => intro hs; exact h hs
  | send s id v => intro _; trivial
  | close s id err => intro _; trivial
  | waitclose s id => intro _; trivial
  | drop s id => intro _; trivial
  | isclosed s id => intro _; trivial
  | execFinish id o => intro _; trivial

/-! ### the fold -/

/-- a coarse step that respects every key in the hand commutes with the abstraction -/
theorem step_foldl_putBack (fails : Item → Bool) (hand : List (Side × Nat)) (st : State) (op : Op)
    (h : ∀ k ∈ hand, Comm st k op) :
    step fails (hand.foldl putBack st) op =
      ((step fails st op).1, hand.foldl putBack (step fails st op).2) := by
  induction hand generalizing st with
  | nil => rfl
  | cons k t ih =>
    simp only [List.foldl_cons]
    rw [ih (putBack st k) (fun k' hk' => (h k' (List.mem_cons_of_mem _ hk')).putBack k)]
    rw [step_putBack fails st k op (h k (List.mem_cons_self ..))]

theorem foldl_putBack_comm (hand : List (Side × Nat)) (st : State) (k : Side × Nat) :
    hand.foldl putBack (putBack st k) = putBack (hand.foldl putBack st) k := by
  induction hand generalizing st with
  | nil => rfl
  | cons k' t ih =>
    simp only [List.foldl_cons]
    rw [putBack_comm st k k', ih]

/-- a key of the hand can be put back first -/
theorem foldl_putBack_erase (hand : List (Side × Nat)) (st : State) (k : Side × Nat) (h : k ∈ hand) :
    hand.foldl putBack st = (eraseOne k hand).foldl putBack (putBack st k) := by
  induction hand generalizing st with
  | nil => cases h
  | cons x t ih =>
    simp only [eraseOne]
    by_cases hx : x = k
    · subst hx; simp
    · simp only [hx, if_false, List.foldl_cons]
      have hk : k ∈ t := by
        cases h with
        | head => exact absurd rfl hx
        | tail _ h => exact h
      rw [ih (putBack st x) hk, putBack_comm]

theorem mem_of_mem_eraseOne {k x : Side × Nat} {l : List (Side × Nat)} (h : x ∈ eraseOne k l) : x ∈ l := by
  induction l with
  | nil => cases h
  | cons y t ih =>
    simp only [eraseOne] at h
    split at h
    · exact List.mem_cons_of_mem _ h
    · cases h with
      | head => exact List.mem_cons_self ..
      | tail _ h => exact List.mem_cons_of_mem _ (ih h)

/-! ### what the abstraction preserves -/

@[simp] theorem foldl_putBack_count (hand : List (Side × Nat)) (st : State) (s : Side) :
    ((hand.foldl putBack st).side s).count = (st.side s).count := by
  induction hand generalizing st with
  | nil => rfl
  | cons k t ih => simp only [List.foldl_cons, ih, putBack_count]

@[simp] theorem foldl_putBack_alive (hand : List (Side × Nat)) (st : State) (s : Side) (i : Nat) :
    (((hand.foldl putBack st).side s).chans i).alive = ((st.side s).chans i).alive := by
  induction hand generalizing st with
  | nil => rfl
  | cons k t ih => simp only [List.foldl_cons, ih, putBack_alive]

@[simp] theorem foldl_putBack_created (hand : List (Side × Nat)) (st : State) (s : Side) (i : Nat) :
    (((hand.foldl putBack st).side s).chans i).created = ((st.side s).chans i).created := by
  induction hand generalizing st with
  | nil => rfl
  | cons k t ih => simp only [List.foldl_cons, ih, putBack_created]

/-- the queue of the abstraction: the in-hand ENDMARKERs appended -/
theorem foldl_putBack_queue (hand : List (Side × Nat)) (st : State) (s : Side) (i : Nat) :
    ∃ n, (((hand.foldl putBack st).side s).chans i).queue =
      ((st.side s).chans i).queue.map (· ++ List.replicate n QItem.endmarker) := by
  induction hand generalizing st with
  | nil =>
    refine ⟨0, ?_⟩
    simp only [List.foldl_nil]
    cases ((st.side s).chans i).queue <;> simp
  | cons k t ih =>
    obtain ⟨n, hn⟩ := ih (putBack st k)
    simp only [List.foldl_cons]
    rw [hn, putBack_queue]
    split
    · refine ⟨n + 1, ?_⟩
      cases ((st.side s).chans i).queue with
      | none => rfl
      | some q =>
        simp only [pushEnd, Option.map, List.append_assoc, Option.some.injEq, List.append_cancel_left_eq]
        exact (List.replicate_succ ..).symm
    · exact ⟨n, rfl⟩

end ExecnetVerif.Net.Fine
