"""C15 translator: what execnet ships to the other side, as tables (DESIGN.md §4 C15).

`analyse(repo) -> dict` reads the *current* source with stdlib `ast`/`symtable` only (never imports
execnet) and `gen_shipped(repo) -> str` renders it as `lean/ExecnetVerif/Generated/Shipped.lean`.

Shipped units (found, not listed by hand):
  * every argument of the `sendexec(io, …)` call of `gateway_bootstrap.bootstrap_exec/_socket/_import`
    (`inspect.getsource(<module or class>)` pieces and literal lines),
  * `gateway_io.popen_bootstrapline` (what `python -c` runs),
  * the argument of every `….remote_exec(<x>)` call in the package where `<x>` is a module of the package,
    a module-level function of the calling file, or a string literal,
  * `script/socketserver.py` run as a stand-alone script (`__name__ == "__main__"`).

For each unit: imports on the executed path (module and function level), fallback imports
(`try: import … except ImportError: …`), names defined at module level, free global names,
and everything that was left out with the reason.  A construct the extractor does not
understand is emitted as an `unknown` exclusion or makes a table empty, so the closure theorem
fails rather than the translator guessing.
"""
from __future__ import annotations

import ast
import builtins
import os
import symtable
import sys

PKG = "execnet"
# names a module namespace has before any code runs (CPython `python -c` / script); modelled, not extracted
MAIN_DUNDERS = ["__name__", "__doc__", "__package__", "__loader__", "__spec__", "__annotations__", "__builtins__"]
IMPORT_ERRORS = {"ImportError", "ModuleNotFoundError", "Exception", "BaseException"}


def _read(repo, rel):
    with open(os.path.join(repo, "src", PKG, rel), encoding="utf-8") as f:
        return f.read()


def _has_future_annotations(tree) -> bool:
    for node in tree.body:
        if isinstance(node, ast.ImportFrom) and node.module == "__future__":
            if any(a.name == "annotations" for a in node.names):
                return True
    return False


# ---------------------------------------------------------------------------------------
# pruning: keep only what runs on the remote path
# ---------------------------------------------------------------------------------------
class Pruner(ast.NodeTransformer):
    """drops `if TYPE_CHECKING:` bodies and the `__name__ == …` branches of another mode; splices
    module-level `exec("<literal>")` in place (it runs in the same namespace)"""

    def __init__(self, mode):
        self.mode = mode
        self.excluded = []  # (line, what, reason)
        self.dynamic = []  # names bound through exec("<literal>")
        self.depth = 0

    def static_test(self, test):
        if isinstance(test, ast.Name) and test.id == "TYPE_CHECKING":
            return False, "TYPE_CHECKING"
        if isinstance(test, ast.Attribute) and test.attr == "TYPE_CHECKING":
            return False, "TYPE_CHECKING"
        if isinstance(test, ast.UnaryOp) and isinstance(test.op, ast.Not):
            r = self.static_test(test.operand)
            if r is not None:
                return (not r[0]), "not " + r[1]
        if (
            self.mode is not None
            and isinstance(test, ast.Compare)
            and len(test.ops) == 1
            and isinstance(test.ops[0], (ast.Eq, ast.NotEq))
            and isinstance(test.left, ast.Name)
            and test.left.id == "__name__"
            and isinstance(test.comparators[0], ast.Constant)
            and isinstance(test.comparators[0].value, str)
        ):
            eq = self.mode == test.comparators[0].value
            val = eq if isinstance(test.ops[0], ast.Eq) else not eq
            return val, "__name__ is %r here, test is %s" % (self.mode, ast.unparse(test))
        return None

    def _visit_list(self, stmts):
        out = []
        for s in stmts:
            r = self.visit(s)
            if r is None:
                continue
            out.extend(r if isinstance(r, list) else [r])
        return out

    def _drop(self, stmts, reason):
        for s in stmts:
            for sub in ast.walk(s):
                if isinstance(sub, ast.Import):
                    for a in sub.names:
                        self.excluded.append((sub.lineno, "import " + a.name, reason))
                elif isinstance(sub, ast.ImportFrom):
                    mod = "." * sub.level + (sub.module or "")
                    self.excluded.append((sub.lineno, "from %s import %s" % (mod, ", ".join(a.name for a in sub.names)), reason))
        if stmts:
            self.excluded.append((stmts[0].lineno, "branch of %d statement(s)" % len(stmts), reason))

    def visit_If(self, node):
        r = self.static_test(node.test)
        if r is None:
            self.generic_visit(node)
            return node
        val, reason = r
        taken, dropped = (node.body, node.orelse) if val else (node.orelse, node.body)
        self._drop(dropped, reason)
        return self._visit_list(taken) or [ast.Pass()]

    def _scoped(self, node):
        self.depth += 1
        self.generic_visit(node)
        self.depth -= 1
        return node

    visit_FunctionDef = visit_AsyncFunctionDef = visit_ClassDef = visit_Lambda = _scoped

    def visit_Expr(self, node):
        v = node.value
        if (
            self.depth == 0
            and isinstance(v, ast.Call)
            and isinstance(v.func, ast.Name)
            and v.func.id == "exec"
            and len(v.args) == 1
            and not v.keywords
            and isinstance(v.args[0], ast.Constant)
            and isinstance(v.args[0].value, str)
        ):
            try:
                sub = ast.parse(v.args[0].value)
            except SyntaxError:
                self.excluded.append((node.lineno, "exec(<literal>)", "unknown: literal does not parse"))
                return node
            for s in sub.body:
                if isinstance(s, (ast.FunctionDef, ast.AsyncFunctionDef, ast.ClassDef)):
                    self.dynamic.append(s.name)
            return self._visit_list(sub.body) or [ast.Pass()]
        self.generic_visit(node)
        return node


# ---------------------------------------------------------------------------------------
# imports
# ---------------------------------------------------------------------------------------
def _handler_catches_import_error(h):
    t = h.type
    if t is None:
        return True
    names = []
    if isinstance(t, ast.Tuple):
        names = [e.id for e in t.elts if isinstance(e, ast.Name)]
    elif isinstance(t, ast.Name):
        names = [t.id]
    return any(n in IMPORT_ERRORS for n in names)


def _import_records(node):
    """one record per `import a.b` / per `from m import …` statement"""
    if isinstance(node, ast.Import):
        for a in node.names:
            bound = a.asname or a.name.split(".")[0]
            yield dict(module=a.name, root=a.name.split(".")[0], relative=False, fromnames=[], bound=[bound], line=node.lineno)
    else:
        if node.module == "__future__":
            return
        rel = node.level > 0
        mod = ("." * node.level) + (node.module or "")
        root = PKG if rel else (node.module or "").split(".")[0]
        yield dict(
            module=mod, root=root, relative=rel,
            fromnames=[a.name for a in node.names], bound=[a.asname or a.name for a in node.names], line=node.lineno,
        )


class ImportCollector(ast.NodeVisitor):
    def __init__(self):
        self.scope = []  # qualname parts
        self.funcdepth = 0
        self.imports = []
        self.guards = []  # stack of Try nodes whose body we are in
        self.in_handler = 0
        self.cond = 0  # inside if/for/while/try/with of the current scope: may not run
        self.trys = {}  # id(Try) -> info

    def _scoped(self, node, is_func):
        self.scope.append(getattr(node, "name", "<lambda>"))
        self.funcdepth += is_func
        saved, self.guards = self.guards, []  # a try around a def does not guard imports run later
        saved_h, self.in_handler = self.in_handler, 0
        saved_c, self.cond = self.cond, 0
        self.generic_visit(node)
        self.cond = saved_c
        self.guards, self.in_handler = saved, saved_h
        self.funcdepth -= is_func
        self.scope.pop()

    def visit_FunctionDef(self, node):
        self._scoped(node, 1)

    visit_AsyncFunctionDef = visit_FunctionDef

    def visit_Lambda(self, node):
        self._scoped(node, 1)

    def visit_ClassDef(self, node):
        self._scoped(node, 0)

    def _add(self, node):
        for rec in _import_records(node):
            rec["scope"] = ".".join(self.scope)
            rec["level"] = "function" if self.funcdepth else "module"
            rec["cls"] = self.scope[0] if self.scope else ""
            rec["guarded"] = bool(self.guards)
            rec["fallback"] = bool(self.in_handler)
            rec["conditional"] = bool(self.cond)
            rec["try"] = id(self.guards[-1]) if self.guards else None
            self.imports.append(rec)

    visit_Import = visit_ImportFrom = _add

    def _conditional(self, node):
        self.cond += 1
        self.generic_visit(node)
        self.cond -= 1

    visit_If = visit_For = visit_While = visit_With = visit_AsyncFor = visit_AsyncWith = visit_Match = _conditional

    def visit_Try(self, node):
        self.cond += 1
        try:
            self._visit_try(node)
        finally:
            self.cond -= 1

    def _visit_try(self, node):
        has_import = any(isinstance(s, (ast.Import, ast.ImportFrom)) for s in node.body)
        catches = [h for h in node.handlers if _handler_catches_import_error(h)] if has_import else []
        if catches:
            self.trys[id(node)] = node
            self.guards.append(node)
            for s in node.body:
                self.visit(s)
            self.guards.pop()
        else:
            for s in node.body:
                self.visit(s)
        for h in node.handlers:
            if h in catches:
                self.in_handler += 1
                self.visit(h)
                self.in_handler -= 1
            else:
                self.visit(h)
        for s in node.orelse + node.finalbody:
            self.visit(s)

    visit_TryStar = visit_Try


def _stores(stmts):
    out = set()
    for s in stmts:
        for sub in ast.walk(s):
            if isinstance(sub, ast.Name) and isinstance(sub.ctx, ast.Store):
                out.add(sub.id)
            elif isinstance(sub, (ast.Import, ast.ImportFrom)):
                for rec in _import_records(sub):
                    out.update(rec["bound"])
            elif isinstance(sub, (ast.FunctionDef, ast.AsyncFunctionDef, ast.ClassDef)):
                out.add(sub.name)
    return out


def _loads_outside(tree, name, inside_nodes):
    skip = set()
    for n in inside_nodes:
        for sub in ast.walk(n):
            skip.add(id(sub))
    for sub in ast.walk(tree):
        if isinstance(sub, ast.Name) and sub.id == name and isinstance(sub.ctx, ast.Load) and id(sub) not in skip:
            return True
    return False


# ---------------------------------------------------------------------------------------
# one unit
# ---------------------------------------------------------------------------------------
def analyse_text(name, text, mode, deferred_annotations=False, origin="", backends=None):
    """tables of one shipped text; `mode` = value of __name__ while it runs (None: unknown)"""
    tree = ast.parse(text)
    future = _has_future_annotations(tree) or deferred_annotations
    pr = Pruner(mode)
    tree = pr.visit(tree)
    ast.fix_missing_locations(tree)
    ic = ImportCollector()
    ic.visit(tree)
    backends = backends or {}
    imports = []
    fallbacks = []
    for rec in ic.imports:
        rec = dict(rec)
        rec["backends"] = sorted(backends.get(rec["cls"], [])) if rec["level"] == "function" else []
        tryid = rec.pop("try")
        if rec["guarded"] and tryid is not None:
            t = ic.trys[tryid]
            hstmts = [s for h in t.handlers if _handler_catches_import_error(h) for s in h.body]
            himports = [r for s in hstmts for sub in ast.walk(s) if isinstance(sub, (ast.Import, ast.ImportFrom)) for r in _import_records(sub)]
            hbound = _stores(hstmts)
            via_main, via_other, assigned, unprovided = [], [], [], []
            for b in rec["bound"]:
                src = [r for r in himports if b in r["bound"]]
                if src:
                    if src[0]["module"] == "__main__":
                        via_main.append(src[0]["fromnames"][src[0]["bound"].index(b)])
                    else:
                        via_other.append(src[0]["root"] if not src[0]["relative"] else "." + src[0]["root"])
                elif b in hbound:
                    assigned.append(b)
                elif _loads_outside(tree, b, list(t.body) + list(t.orelse)):
                    unprovided.append(b)
            fallbacks.append(dict(module=rec["module"], root=rec["root"], relative=rec["relative"], names=rec["bound"],
                                  viaMain=via_main, viaOther=sorted(set(via_other)), assigned=assigned, unprovided=unprovided,
                                  line=rec["line"]))
        imports.append(rec)
    # names: symtable of the pruned text
    pruned = ast.unparse(tree)
    if future and not _has_future_annotations(ast.parse(pruned)):
        pruned = "from __future__ import annotations\n" + pruned
    top = symtable.symtable(pruned, name, "exec")
    defined = set()
    refs = set()

    def walk(t, is_top):
        for s in t.get_symbols():
            nm = s.get_name()
            if is_top:
                if s.is_assigned() or s.is_imported() or s.is_namespace():
                    defined.add(nm)
                if s.is_referenced():
                    refs.add(nm)
            else:
                if s.is_global():
                    if s.is_assigned() or s.is_imported():
                        defined.add(nm)  # `global x; x = …` inside a function
                    if s.is_referenced():
                        refs.add(nm)
        for c in t.get_children():
            walk(c, False)

    walk(top, True)
    defined.discard("annotations") if future and "annotations" not in _stores(tree.body) else None
    free = sorted(refs - defined)
    return dict(
        name=name, origin=origin, mode=mode or "", deferredAnnotations=bool(future),
        imports=imports, fallbacks=fallbacks,
        excluded=[dict(line=l, what=w, reason=r) for (l, w, r) in pr.excluded],
        dynamicDefs=sorted(set(pr.dynamic)),
        defined=sorted(defined), freeGlobals=free, text=text, pruned=pruned,
    )


# ---------------------------------------------------------------------------------------
# the package: what is shipped, from where, into which namespace
# ---------------------------------------------------------------------------------------
def _find_func(tree, name, cls=None):
    body = tree.body
    if cls:
        for n in body:
            if isinstance(n, ast.ClassDef) and n.name == cls:
                body = n.body
                break
        else:
            return None
    for n in body:
        if isinstance(n, (ast.FunctionDef, ast.AsyncFunctionDef)) and n.name == name:
            return n
    return None


def _segment(text, node):
    """source lines of a top-level def/class incl. decorators, as inspect.getsource returns them"""
    lines = text.splitlines(True)
    start = min([node.lineno] + [d.lineno for d in getattr(node, "decorator_list", [])])
    return "".join(lines[start - 1 : node.end_lineno])


def _module_aliases(tree, relpath):
    """local name -> package-relative file of a module of the package, for the imports of one file"""
    pkgdir = os.path.dirname(relpath)
    out = {}
    for n in ast.walk(tree):
        if isinstance(n, ast.ImportFrom):
            if n.level > 0:
                base = pkgdir
                for _ in range(n.level - 1):
                    base = os.path.dirname(base)
                base = os.path.join(base, *(n.module.split(".") if n.module else []))
            elif n.module and (n.module == PKG or n.module.startswith(PKG + ".")):
                base = os.path.join(*n.module.split(".")[1:]) if "." in n.module else ""
            else:
                continue
            for a in n.names:
                out[a.asname or a.name] = os.path.join(base, a.name + ".py") if base else a.name + ".py"
        elif isinstance(n, ast.Import):
            for a in n.names:
                if a.name.startswith(PKG + "."):
                    rel = os.path.join(*a.name.split(".")[1:]) + ".py"
                    out[a.asname or a.name] = rel
    return out


def _format_sample(node):
    """text of a literal line of sendexec: 'fmt' or 'fmt' % expr (placeholders filled with samples)"""
    if isinstance(node, ast.Constant) and isinstance(node.value, str):
        return node.value, node.value
    if isinstance(node, ast.BinOp) and isinstance(node.op, ast.Mod) and isinstance(node.left, ast.Constant) and isinstance(node.left.value, str):
        fmt = node.left.value
        return fmt.replace("%r", "'thread'").replace("%s", "gw0"), fmt
    if isinstance(node, ast.JoinedStr):
        sample, fmt = "", ""
        for v in node.values:
            if isinstance(v, ast.Constant) and isinstance(v.value, str):
                sample += v.value
                fmt += v.value.replace("%", "%%")
            elif isinstance(v, ast.FormattedValue) and v.format_spec is None:
                r = v.conversion == 114
                sample += "'thread'" if r else "gw0"
                fmt += "%r" if r else "%s"
            else:
                return None, None
        return sample, fmt
    return None, None


def _select_tree(stmts):
    """if/elif chain of a selector function -> nested ('ite', cond, then, else) / ('call', f) / ('raise', exc)"""

    def cond(e):
        if isinstance(e, ast.Attribute) and isinstance(e.value, ast.Name) and e.value.id == "spec":
            return ("flag", e.attr)
        if isinstance(e, ast.BoolOp):
            parts = [cond(v) for v in e.values]
            if any(p is None for p in parts):
                return None
            acc = parts[0]
            for p in parts[1:]:
                acc = ("or" if isinstance(e.op, ast.Or) else "and", acc, p)
            return acc
        if isinstance(e, ast.UnaryOp) and isinstance(e.op, ast.Not):
            c = cond(e.operand)
            return None if c is None else ("not", c)
        return None

    def action(body):
        for k, s in enumerate(body):
            if isinstance(s, ast.Assert):
                c = cond(s.test)
                if c is not None:
                    return ("ite", c, action(body[k + 1 :]), ("raise", "AssertionError"))
            if isinstance(s, ast.If):
                return chain(s)
            if isinstance(s, ast.Raise) and s.exc is not None:
                f = s.exc.func if isinstance(s.exc, ast.Call) else s.exc
                return ("raise", ast.unparse(f))
            if isinstance(s, ast.Assert) and isinstance(s.test, ast.Constant) and not s.test.value:
                return ("raise", "AssertionError")
            for sub in ast.walk(s):
                if isinstance(sub, ast.Call):
                    nm = ast.unparse(sub.func)
                    if nm.split(".")[-1].startswith(("bootstrap_", "create_io", "ProxyIO", "Popen2IOMaster", "SocketIO")):
                        return ("call", nm)
        return ("unknown", ast.unparse(body[0])[:60] if body else "")

    def chain(ifnode):
        c = cond(ifnode.test)
        if c is None:
            return ("unknown", ast.unparse(ifnode.test)[:60])
        els = action(ifnode.orelse) if ifnode.orelse else ("fallthrough",)
        return ("ite", c, action(ifnode.body), els)

    def flat(body):
        # a selector chain may be wrapped in try/except (clean-up on failure): look through it
        out = []
        for st in body:
            if isinstance(st, ast.Try):
                out += flat(st.body)
            else:
                out.append(st)
        return out

    stmts = flat(stmts)
    for s in stmts:
        if isinstance(s, ast.If) and cond(s.test) is not None:
            t = chain(s)
            # a final `raise` after the chain is the else branch of the last test
            rest = stmts[stmts.index(s) + 1 :]

            def fill(t):
                if t == ("fallthrough",):
                    return action(rest) if rest else ("unknown", "falls through")
                if t[0] == "ite":
                    return ("ite", t[1], fill(t[2]), fill(t[3]))
                return t

            return fill(t)
    return ("unknown", "no if chain")


def analyse(repo) -> dict:
    files = {}
    for root, _d, fns in os.walk(os.path.join(repo, "src", PKG)):
        for fn in fns:
            if fn.endswith(".py"):
                rel = os.path.relpath(os.path.join(root, fn), os.path.join(repo, "src", PKG))
                files[rel] = _read(repo, rel)
    trees = {rel: ast.parse(txt) for rel, txt in files.items()}
    gb_text = files["gateway_base.py"]
    gb_tree = trees["gateway_base.py"]

    # --- execmodel table of get_execmodel and the classes only it instantiates
    execmodels = []
    ge = _find_func(gb_tree, "get_execmodel")
    if ge is not None:
        for n in ast.walk(ge):
            if isinstance(n, ast.If) and isinstance(n.test, ast.Compare) and isinstance(n.test.left, ast.Name) \
                    and n.test.left.id == "backend" and isinstance(n.test.comparators[0], ast.Constant):
                for s in n.body:
                    if isinstance(s, ast.Return) and isinstance(s.value, ast.Call) and isinstance(s.value.func, ast.Name):
                        execmodels.append((n.test.comparators[0].value, s.value.func.id))
    bases = {}
    for n in gb_tree.body:
        if isinstance(n, ast.ClassDef):
            bases[n.name] = [b.id for b in n.bases if isinstance(b, ast.Name)]

    def ancestors(c):
        out = [c]
        for b in bases.get(c, []):
            out += ancestors(b)
        return out

    backend_of_class = {}
    for b, c in execmodels:
        for a in ancestors(c):
            backend_of_class.setdefault(a, set()).add(b)
    # a class referenced anywhere else (not as a base, not in get_execmodel) runs unconditionally
    elsewhere = set()
    skip = set()
    if ge is not None:
        skip = {id(x) for x in ast.walk(ge)}
    for n in gb_tree.body:
        if isinstance(n, ast.ClassDef):
            for b in n.bases:
                skip.update(id(x) for x in ast.walk(b))
    for n in ast.walk(gb_tree):
        if isinstance(n, ast.Name) and id(n) not in skip and n.id in backend_of_class and isinstance(n.ctx, ast.Load):
            elsewhere.add(n.id)
    for c in elsewhere:
        backend_of_class.pop(c, None)
    # abstract base: its methods hold no imports anyway; keep only classes that some backend selects
    backends = {c: sorted(bs) for c, bs in backend_of_class.items()}

    # --- namespaces the shipped code is executed in
    gio_tree = trees["gateway_io.py"]
    bootline = None
    for n in gio_tree.body:
        if isinstance(n, ast.Assign) and isinstance(n.targets[0], ast.Name) and n.targets[0].id == "popen_bootstrapline" \
                and isinstance(n.value, ast.Constant):
            bootline = n.value.value

    def dict_keys_of(fn, varname):
        """keys of `var = {…}` plus later `var["k"] = …` (conditional ones separately)"""
        sure, maybe = [], []
        if fn is None:
            return sure, maybe
        for n in ast.walk(fn):
            if isinstance(n, (ast.Assign, ast.AnnAssign)):
                tgt = n.targets[0] if isinstance(n, ast.Assign) else n.target
                if isinstance(tgt, ast.Name) and tgt.id == varname and isinstance(n.value, ast.Dict):
                    sure += [k.value for k in n.value.keys if isinstance(k, ast.Constant)]
                if isinstance(tgt, ast.Subscript) and isinstance(tgt.value, ast.Name) and tgt.value.id == varname \
                        and isinstance(tgt.slice, ast.Constant):
                    maybe.append(tgt.slice.value)
        return sure, maybe

    def exec_call(fn, callee_names):
        """(number of arguments, name of the namespace argument) of the exec-like call in fn"""
        if fn is None:
            return 0, None
        for n in ast.walk(fn):
            if isinstance(n, ast.Call) and isinstance(n.func, ast.Name) and n.func.id in callee_names:
                ns = n.args[1].id if len(n.args) > 1 and isinstance(n.args[1], ast.Name) else None
                return len(n.args), ns
        return 0, None

    # `executetask` may be a thin wrapper (try: self._executetask(item) finally: …) around the function that does the work
    et = _find_func(gb_tree, "_executetask", "WorkerGateway") or _find_func(gb_tree, "executetask", "WorkerGateway")
    nargs_task, ns_task = exec_call(et, ("exec",))
    inj_task, inj_task_maybe = dict_keys_of(et, ns_task) if ns_task else ([], [])
    ss_tree = trees[os.path.join("script", "socketserver.py")]
    ec = _find_func(ss_tree, "exec_from_one_connection")
    nargs_sock, ns_sock = exec_call(ec, ("exec_", "exec"))
    inj_sock, inj_sock_maybe = dict_keys_of(ec, ns_sock) if ns_sock else ([], [])
    nargs_line = 0
    if bootline:
        for n in ast.walk(ast.parse(bootline)):
            if isinstance(n, ast.Call) and isinstance(n.func, ast.Name) and n.func.id == "exec":
                nargs_line = len(n.args)
    channelexec_name = ""
    if et is not None:
        for n in ast.walk(et):
            if isinstance(n, ast.Dict):
                for k, v in zip(n.keys, n.values):
                    if isinstance(k, ast.Constant) and k.value == "__name__" and isinstance(v, ast.Constant):
                        channelexec_name = v.value

    units = []
    sequences = []  # (name, kind, inMain, injected, maybeInjected, unit names)

    def add_unit(u):
        units.append(u)
        return u["name"]

    # --- the three bootstraps
    bs_tree = trees["gateway_bootstrap.py"]
    bs_alias = _module_aliases(bs_tree, "gateway_bootstrap.py")
    tails = []
    pieces_of = {}
    for kind, fname in (("import", "bootstrap_import"), ("exec", "bootstrap_exec"), ("socket", "bootstrap_socket")):
        fn = _find_func(bs_tree, fname)
        pieces = []
        if fn is not None:
            local_alias = dict(bs_alias)
            local_alias.update(_module_aliases(fn, "gateway_bootstrap.py"))
            for n in ast.walk(fn):
                if isinstance(n, ast.Call) and isinstance(n.func, ast.Name) and n.func.id == "sendexec":
                    for arg in n.args[1:]:
                        if isinstance(arg, ast.Call) and ast.unparse(arg.func) == "inspect.getsource" and isinstance(arg.args[0], ast.Name):
                            what = arg.args[0].id
                            if what in local_alias and local_alias[what] in files:
                                pieces.append(("module", local_alias[what]))
                            else:
                                # a class imported from a module of the package
                                found = None
                                for m in ast.walk(fn):
                                    if isinstance(m, ast.ImportFrom) and any((a.asname or a.name) == what for a in m.names):
                                        rel = os.path.join(*m.module.split(".")[1:]) + ".py" if m.module and m.module.startswith(PKG + ".") else None
                                        if rel in files:
                                            found = rel
                                pieces.append(("class", found, what) if found else ("unknown", ast.unparse(arg)))
                        else:
                            sample, fmt = _format_sample(arg)
                            pieces.append(("line", sample, fmt) if sample is not None else ("unknown", ast.unparse(arg)))
        pieces_of[kind] = pieces
        # units of this sequence: consecutive literal lines are one unit
        seq_units = []
        if kind in ("import", "exec") and bootline:
            seq_units.append(add_unit(analyse_text(f"{kind}:bootstrapline", bootline, "__main__", origin="gateway_io.popen_bootstrapline")))
        first_future = False
        buf = []

        def flush(idx):
            if buf:
                seq_units.append(add_unit(analyse_text(f"{kind}:lines{idx}", "\n".join(buf), None, deferred_annotations=first_future,
                                                        origin=f"gateway_bootstrap.{fname} literal lines")))
                buf.clear()

        for i, p in enumerate(pieces):
            if p[0] == "line":
                buf.append(p[1])
                continue
            flush(i)
            if p[0] == "module":
                u = analyse_text(f"{kind}:{p[1][:-3]}", files[p[1]], "__main__" if kind == "exec" else "builtins",
                                 origin=f"inspect.getsource({p[1]})", backends=backends)
                if i == 0:
                    first_future = u["deferredAnnotations"]
                seq_units.append(add_unit(u))
            elif p[0] == "class":
                cls = next((n for n in trees[p[1]].body if isinstance(n, ast.ClassDef) and n.name == p[2]), None)
                txt = _segment(files[p[1]], cls) if cls is not None else "raise NameError('class not found')"
                seq_units.append(add_unit(analyse_text(f"{kind}:{p[2]}", txt, None, deferred_annotations=first_future,
                                                        origin=f"inspect.getsource({p[1][:-3]}.{p[2]})")))
            else:
                seq_units.append(add_unit(dict(name=f"{kind}:unknown{i}", origin=p[1], mode="", deferredAnnotations=False, imports=[],
                                               fallbacks=[], excluded=[dict(line=0, what=p[1], reason="unknown: not understood")],
                                               dynamicDefs=[], defined=[], freeGlobals=["<unknown>"], text="", pruned="")))
        flush(len(pieces))
        if kind == "socket":
            inj, maybe, in_main = inj_sock, inj_sock_maybe, nargs_sock == 1
        else:
            inj, maybe, in_main = list(MAIN_DUNDERS), [], nargs_line == 1
        sequences.append(dict(name=kind, inMain=in_main, injected=inj, maybeInjected=maybe, units=seq_units))
        # tail: the last literal line, `io` resolved through the lines before it
        lits = [p for p in pieces if p[0] == "line"]
        callee = ioexpr = idtmpl = emexpr = "?"
        if lits:
            try:
                last = ast.parse(lits[-1][2]).body[0].value
                callee = ast.unparse(last.func)
                ioexpr = ast.unparse(last.args[0])
                for kw in last.keywords:
                    if kw.arg == "id":
                        idtmpl = kw.value.value if isinstance(kw.value, ast.Constant) else ast.unparse(kw.value)
                env = {}
                for p in lits[:-1]:
                    try:
                        for s in ast.parse(p[2]).body:
                            if isinstance(s, ast.Assign) and isinstance(s.targets[0], ast.Name):
                                env[s.targets[0].id] = ast.unparse(s.value)
                    except SyntaxError:
                        pass  # `try: execmodel` etc. are not single statements
                    if p[2].strip().startswith("execmodel ="):
                        emexpr = p[2].strip()[len("execmodel =") :].strip()
                ioexpr = env.get(ioexpr, ioexpr)
            except (SyntaxError, AttributeError, IndexError):
                pass
        tails.append(dict(kind=kind, callee=callee, io=ioexpr, idTemplate=idtmpl, execmodel=emexpr,
                          shippedModule=next((p[1][:-3].replace(os.sep, ".") for p in pieces if p[0] == "module"), ""),
                          importedFrom=next((r["module"] for u in units if u["name"] == f"{kind}:lines{len(pieces)}" for r in u["imports"] if r["root"] == PKG), "")))

    # --- remote_exec(<module | function | literal>) call sites of the package
    remote = []
    for rel, tree in sorted(trees.items()):
        alias = _module_aliases(tree, rel)
        for n in ast.walk(tree):
            if isinstance(n, ast.Call) and isinstance(n.func, ast.Attribute) and n.func.attr == "remote_exec" and n.args:
                a = n.args[0]
                key = ast.unparse(a)
                if isinstance(a, (ast.Name, ast.Attribute)) and key in alias and alias[key] in files:
                    remote.append((rel, n.lineno, "module", alias[key]))
                elif isinstance(a, ast.Name) and _find_func(tree, a.id) is not None:
                    remote.append((rel, n.lineno, "function", a.id))
                elif isinstance(a, ast.Constant) and isinstance(a.value, str):
                    remote.append((rel, n.lineno, "literal", a.value))
                elif isinstance(a, ast.Name) and a.id == "source":
                    continue  # pass-through of the caller's argument (Group.remote_exec)
                else:
                    remote.append((rel, n.lineno, "unknown", key))
    import textwrap

    for rel, line, what, arg in remote:
        if what == "module":
            nm = "remote_exec:" + arg[:-3].replace(os.sep, ".")
            u = analyse_text(nm, files[arg], channelexec_name, origin=f"{rel}:{line} remote_exec({arg[:-3]})")
        elif what == "function":
            fn = _find_func(trees[rel], arg)
            nm = f"remote_exec:{rel[:-3]}.{arg}"
            u = analyse_text(nm, textwrap.dedent(_segment(files[rel], fn)), channelexec_name, origin=f"{rel}:{line} remote_exec({arg})")
            u["calledWith"] = ["channel"]
        elif what == "literal":
            nm = f"remote_exec:{rel[:-3]}:{line}"
            u = analyse_text(nm, textwrap.dedent(arg), channelexec_name, origin=f"{rel}:{line} remote_exec(<literal>)")
        else:
            nm = f"remote_exec:{rel[:-3]}:{line}"
            u = dict(name=nm, origin=arg, mode="", deferredAnnotations=False, imports=[], fallbacks=[],
                     excluded=[dict(line=line, what=arg, reason="unknown: not understood")], dynamicDefs=[], defined=[],
                     freeGlobals=["<unknown>"], text="", pruned="")
        if any(x["name"] == u["name"] for x in units):
            continue
        add_unit(u)
        sequences.append(dict(name=u["name"], inMain=nargs_task == 1, injected=inj_task, maybeInjected=inj_task_maybe, units=[u["name"]]))

    # --- the socket server as a stand-alone script
    ss_rel = os.path.join("script", "socketserver.py")
    u = analyse_text("script:socketserver", files[ss_rel], "__main__", origin="python socketserver.py")
    add_unit(u)
    sequences.append(dict(name="script:socketserver", inMain=True, injected=MAIN_DUNDERS + ["__file__", "__cached__"], maybeInjected=[], units=[u["name"]]))

    # --- selection
    bfn = _find_func(bs_tree, "bootstrap")
    select = _select_tree(bfn.body) if bfn is not None else ("unknown", "bootstrap() not found")
    mk = _find_func(trees["multi.py"], "makegateway", "Group")
    ioselect = _select_tree(mk.body) if mk is not None else ("unknown", "makegateway not found")
    flags = sorted({c[1] for t in (select, ioselect) for c in _walk_conds(t)})

    return dict(
        stdlib=sorted(sys.stdlib_module_names), builtins=sorted(dir(builtins)),
        execmodels=execmodels, backendClasses=backends, units=units, sequences=sequences, tails=tails,
        bootstrapSelect=select, ioSelect=ioselect, flags=flags, bootline=bootline or "",
        channelexecName=channelexec_name, pieces=pieces_of, gatewayBaseText=gb_text,
    )


def _walk_conds(t):
    if t[0] == "ite":
        yield from _walk_cond(t[1])
        yield from _walk_conds(t[2])
        yield from _walk_conds(t[3])


def _walk_cond(c):
    if c[0] == "flag":
        yield c
    else:
        for x in c[1:]:
            yield from _walk_cond(x)


# ---------------------------------------------------------------------------------------
# rendering
# ---------------------------------------------------------------------------------------
def _s(s):
    return '"' + s.replace("\\", "\\\\").replace('"', '\\"').replace("\n", "\\n") + '"'


def _l(items, f=_s):
    return "[" + ", ".join(f(x) for x in items) + "]"


def _b(x):
    return "true" if x else "false"


def _cond(c):
    if c[0] == "flag":
        return f"(.flag {_s(c[1])})"
    if c[0] == "not":
        return f"(.not {_cond(c[1])})"
    return f"(.{c[0]} {_cond(c[1])} {_cond(c[2])})"


def _sel(t):
    if t[0] == "ite":
        return f"(.ite {_cond(t[1])} {_sel(t[2])} {_sel(t[3])})"
    if t[0] == "call":
        return f"(.call {_s(t[1])})"
    if t[0] == "raise":
        return f"(.raise {_s(t[1])})"
    return f"(.unknown {_s(str(t[1:]))})"


def gen_shipped(repo) -> str:
    a = analyse(repo)
    out = []
    w = out.append
    w("/- GENERATED by translator/extract_shipped.py from src/execnet (gateway_bootstrap.py, gateway_base.py,")
    w("   gateway_io.py, gateway_socket.py, script/socketserver.py, rsync_remote.py, multi.py, gateway.py, rsync.py)")
    w("   — do not edit; regenerated on every check run.  Tables of what is shipped to the other side. -/")
    w("import ExecnetVerif.Model.Bootstrap")
    w("namespace ExecnetVerif.Generated")
    w("open ExecnetVerif.Bootstrap")
    w("")
    w("/-- sys.stdlib_module_names of the translating interpreter -/")
    w("def stdlibModules : List String := " + _l(a["stdlib"]))
    w("/-- dir(builtins) -/")
    w("def builtinNames : List String := " + _l(a["builtins"]))
    w("/-- get_execmodel: (backend name, class) -/")
    w("def execmodelTable : List (String × String) := " + _l(a["execmodels"], lambda p: f"({_s(p[0])}, {_s(p[1])})"))
    w("")
    for u in a["units"]:
        ident = _ident(u["name"])
        w(f"/-- {u['name']} — {u['origin']}; __name__ = {u['mode'] or '(not tested)'}; excluded: "
          + ("; ".join(f"line {e['line']}: {e['what']} [{e['reason']}]" for e in u["excluded"]) or "nothing").replace("-/", "- /") + " -/")
        w(f"def {ident} : SUnit where")
        w(f"  name := {_s(u['name'])}")
        w("  imports := " + _l(u["imports"], lambda r: "{ module := %s, root := %s, relative := %s, bound := %s, names := %s, scope := %s, funcLevel := %s, guarded := %s, fallback := %s, backends := %s }" % (
            _s(r["module"]), _s(r["root"]), _b(r["relative"]), _l(r["bound"]), _l(r["fromnames"]), _s(r["scope"]), _b(r["level"] == "function"),
            _b(r["guarded"]), _b(r["fallback"]), _l(r["backends"]))))
        w("  fallbacks := " + _l(u["fallbacks"], lambda r: "{ module := %s, names := %s, viaMain := %s, viaOther := %s, assigned := %s, unprovided := %s }" % (
            _s(r["module"]), _l(r["names"]), _l(r["viaMain"]), _l(r["viaOther"]), _l(r["assigned"]), _l(r["unprovided"]))))
        w("  excluded := " + _l(u["excluded"], lambda e: f"({e['line']}, {_s(e['what'])}, {_s(e['reason'])})"))
        w("  defined := " + _l(u["defined"]))
        w("  freeGlobals := " + _l(u["freeGlobals"]))
        w("")
    w("def units : List SUnit := " + _l(a["units"], lambda u: _ident(u["name"])))
    w("")
    w("/-- one entry per namespace something is executed in: the units run there in order, what the namespace")
    w("    holds before (`injected`; `maybeInjected` only on some paths), and whether it is `__main__` -/")
    w("def sequences : List Sequence := " + _l(a["sequences"], lambda q: "{ name := %s, inMain := %s, injected := %s, maybeInjected := %s, units := %s }" % (
        _s(q["name"]), _b(q["inMain"]), _l(q["injected"]), _l(q["maybeInjected"]), _l(q["units"], _ident))))
    w("")
    w("/-- gateway_bootstrap.bootstrap(io, spec) -/")
    w("def bootstrapSelect : Sel := " + _sel(a["bootstrapSelect"]))
    w("/-- Group.makegateway: which IO is created -/")
    w("def ioSelect : Sel := " + _sel(a["ioSelect"]))
    w("def specFlags : List String := " + _l(a["flags"]))
    w("")
    w("/-- last line each bootstrap sends, `io`/`execmodel` resolved through the lines before it -/")
    w("def bootstrapTails : List Tail := " + _l(a["tails"], lambda t: "{ kind := %s, callee := %s, io := %s, idTemplate := %s, execmodel := %s, shippedModule := %s, importedFrom := %s }" % (
        _s(t["kind"]), _s(t["callee"]), _s(t["io"]), _s(t["idTemplate"]), _s(t["execmodel"]), _s(t["shippedModule"]), _s(t["importedFrom"]))))
    # the transmitted source is one repr()'d line that the child decodes with its locale encoding (sys.stdin.readline()):
    # it survives every locale only while it is pure ASCII
    non_ascii = []
    for rel in ("gateway_base.py", "gateway_io.py", "gateway_socket.py", "rsync_remote.py", os.path.join("script", "socketserver.py")):
        try:
            text = _read(repo, rel)
        except OSError:
            continue
        if not text.isascii():
            non_ascii.append(rel)
    w("/-- shipped source files that contain a non-ASCII character -/")
    w("def nonAsciiShipped : List String := " + _l(non_ascii))
    w("def popenBootstrapLine : String := " + _s(a["bootline"]))
    w("def channelexecName : String := " + _s(a["channelexecName"]))
    w("")
    w("end ExecnetVerif.Generated")
    return "\n".join(out) + "\n"


def _ident(name):
    return "u_" + "".join(ch if ch.isalnum() else "_" for ch in name)


if __name__ == "__main__":
    import json

    a = analyse(sys.argv[1])
    for u in a["units"]:
        u = dict(u)
        u.pop("text")
        print(json.dumps(u, indent=1)[:3000])
    print(json.dumps({k: a[k] for k in ("sequences", "tails", "bootstrapSelect", "ioSelect", "flags", "execmodels", "pieces")}, indent=1, default=str)[:6000])
