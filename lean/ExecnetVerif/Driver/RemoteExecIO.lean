/-
Driver commands of the remote_exec model (C06).  Not part of any theorem.
  <func> = name closure(0/1) hassrc(0/1) firstlineno margin <L args> <L names> <L varnames> <L srclines as hex utf-8>
  <L x>  = count followed by that many tokens; hex of the empty string is `-`
  rexec.check <L builtins> <func>
      -> ok <hex of the shipped text> | err lambda|firstarg|closure|nosource | err globals <L names>
  rexec.remote <count> <L builtins> text <hex text> <value tokens of the kwargs dict>
  rexec.remote <count> <L builtins> module <hex text> <hex file> <value tokens of the kwargs dict>
  rexec.remote <count> <L builtins> func <hex file | none> <func> <value tokens of the kwargs dict>
      -> ok <id> <count'> <hex payload> | err ValueError <kind> <count'> <frames> | err TypeError <count'> <frames>
         | err DumpError <count'> <frames>
  fd.init <size> <one token per descriptor: I O R W C X<n>>
      -> in=<a> out=<b> stdin=<c> stdout=<d> <size'> <tokens>
-/
import ExecnetVerif.Model.RemoteExec
import ExecnetVerif.Driver.ValueIO
import ExecnetVerif.Driver.BootstrapIO
namespace ExecnetVerif
open RemoteExec

def pNat : P Nat := fun r => do
  let (t, r) ← pTok r
  let n ← t.toNat?
  pure (n, r)

def pHexStr : P String := fun r => do
  let (t, r) ← pTok r
  let b ← ofHex t
  let s ← utf8Decode b
  pure (s, r)

def pFunc : P FuncInfo := fun r => do
  let (name, r) ← pTok r
  let (hasClosure, r) ← pBit r
  let (hasSource, r) ← pBit r
  let (firstlineno, r) ← pNat r
  let (margin, r) ← pNat r
  let (args, r) ← pList pTok r
  let (names, r) ← pList pTok r
  let (varnames, r) ← pList pTok r
  let (srcLines, r) ← pList pHexStr r
  pure ({ name, args, hasClosure, hasSource, names, varnames, firstlineno, margin, srcLines }, r)

def RemoteExec.Reject.render : Reject → String
  | .lambda => "lambda"
  | .firstArg => "firstarg"
  | .closure => "closure"
  | .noSource => "nosource"
  | .globals ns => s!"globals {ns.length}" ++ String.join (ns.map (" " ++ ·))

def hexOfStrRx (s : String) : String := toHex (utf8Encode s)

def rexecCheck (toks : List String) : Option String := do
  let (bi, r) ← pList pTok toks
  let (f, r) ← pFunc r
  if r ≠ [] then none
  match remoteExecCheck bi f with
  | .ok () => pure s!"ok {hexOfStrRx (shippedText f)}"
  | .error e => pure s!"err {e.render}"

def pSource : P Source
  | "text" :: r => do
    let (s, r) ← pHexStr r
    pure (.text s, r)
  | "module" :: r => do
    let (s, r) ← pHexStr r
    let (f, r) ← pHexStr r
    pure (.module s f, r)
  | "func" :: "none" :: r => do
    let (f, r) ← pFunc r
    pure (.function f none, r)
  | "func" :: r => do
    let (file, r) ← pHexStr r
    let (f, r) ← pFunc r
    pure (.function f (some file), r)
  | _ => none

def rexecRemote (toks : List String) : Option String := do
  let (count, r) ← pNat toks
  let (bi, r) ← pList pTok r
  let (src, r) ← pSource r
  let kw ← parseValAll r
  let kwargs ← match kw with
    | .dict kvs => some kvs
    | _ => none
  let g : Gw := { count, channels := [], wire := [] }
  let (g', res) := remoteExec bi g src kwargs
  let frames := g'.wire.length
  match res with
  | .ok id =>
    match g'.wire with
    | [(_, b)] => pure s!"ok {id} {g'.count} {toHex b}"
    | _ => pure "model-error"
  | .error (.value e) => pure s!"err ValueError {(e.render.splitOn " ").headD ""} {g'.count} {frames}"
  | .error .type => pure s!"err TypeError {g'.count} {frames}"
  | .error .dump => pure s!"err DumpError {g'.count} {frames}"

def pResource : P Resource
  | "I" :: r => some (.pipeIn, r)
  | "O" :: r => some (.pipeOut, r)
  | "R" :: r => some (.devnullR, r)
  | "W" :: r => some (.devnullW, r)
  | "C" :: r => some (.closed, r)
  | t :: r => if t.startsWith "X" then (t.drop 1).toString.toNat?.map fun n => (.other n, r) else none
  | [] => none

def RemoteExec.Resource.render : Resource → String
  | .pipeIn => "I" | .pipeOut => "O" | .devnullR => "R" | .devnullW => "W" | .closed => "C"
  | .other n => s!"X{n}"

def fdInit (toks : List String) : Option String := do
  let (size, r) ← pNat toks
  let (rs, r) ← pMany pResource size r
  if r ≠ [] then none
  let s : Fds := ⟨fun n => rs.getD n .closed, size⟩
  let io := initPopenIO s
  let table := (List.range io.fds.size).map fun n => (io.fds.get n).render
  pure (s!"in={io.protoIn} out={io.protoOut} stdin={io.sysStdin} stdout={io.sysStdout} {io.fds.size}"
    ++ String.join (table.map (" " ++ ·)))

def rexecHandle : List String → Option String
  | "rexec.check" :: toks => some ((rexecCheck toks).getD "bad-op")
  | "rexec.remote" :: toks => some ((rexecRemote toks).getD "bad-op")
  | "fd.init" :: toks => some ((fdInit toks).getD "bad-op")
  | _ => none

end ExecnetVerif
