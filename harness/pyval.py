"""Python values <-> the driver's token syntax; canonical forms; the value generator."""
from __future__ import annotations

import math
import struct

from . import common


class Foreign:
    """an unsupported leaf (any object whose exact type is not one of the supported ones)"""


def f2bits(x: float) -> int:
    return struct.unpack("!Q", struct.pack("!d", x))[0]


def bits2f(b: int) -> float:
    return struct.unpack("!d", struct.pack("!Q", b))[0]


def hexs(b: bytes) -> str:
    return b.hex() if b else "-"


def unhex(s: str) -> bytes:
    return b"" if s == "-" else bytes.fromhex(s)


_CH = 10**4000


def dec(v: int) -> str:
    """str(v) without CPython's int->str digit limit"""
    if -_CH < v < _CH:
        return str(v)
    neg = v < 0
    a = -v if neg else v
    parts = []
    while a >= _CH:
        a, r = divmod(a, _CH)
        parts.append(str(r).rjust(4000, "0"))
    parts.append(str(a))
    return ("-" if neg else "") + "".join(reversed(parts))


def undec(s: str) -> int:
    """int(s) without the digit limit (s: optional '-' then ASCII digits)"""
    neg = s.startswith("-")
    d = s[1:] if neg else s
    if len(d) <= 4000:
        v = int(d)
    else:
        v = 0
        first = len(d) % 4000
        if first:
            v = int(d[:first])
        for i in range(first, len(d), 4000):
            v = v * _CH + int(d[i:i + 4000])
    return -v if neg else v


SUPPORTED = (type(None), bool, int, float, complex, bytes, str, list, tuple, dict, set, frozenset)


def to_tokens(v, out=None, channel_cls=None):
    """Render a Python value in the driver's syntax.  Sets are written in their actual iteration
    order (that is the order `dumps` emits them in)."""
    if out is None:
        out = []
    t = type(v)
    if v is None:
        out.append("N")
    elif t is bool:
        out.append("T" if v else "F")
    elif t is int:
        out += ["I", dec(v)]
    elif t is float:
        out += ["D", "%016x" % f2bits(v)]
    elif t is complex:
        out += ["C", "%016x" % f2bits(v.real), "%016x" % f2bits(v.imag)]
    elif t is bytes:
        out += ["B", hexs(v)]
    elif t is str:
        try:
            out += ["S", hexs(v.encode("utf-8"))]
        except UnicodeEncodeError:
            out.append("U")
    elif t is list:
        out += ["L", str(len(v))]
        for x in v:
            to_tokens(x, out, channel_cls)
    elif t is tuple:
        out += ["P", str(len(v))]
        for x in v:
            to_tokens(x, out, channel_cls)
    elif t is set:
        out += ["E", str(len(v))]
        for x in v:
            to_tokens(x, out, channel_cls)
    elif t is frozenset:
        out += ["Z", str(len(v))]
        for x in v:
            to_tokens(x, out, channel_cls)
    elif t is dict:
        out += ["M", str(len(v))]
        for k, x in v.items():
            to_tokens(k, out, channel_cls)
            to_tokens(x, out, channel_cls)
    elif channel_cls is not None and t is channel_cls:
        out += ["H", str(v.id)]
    else:
        out.append("X")
    return out


def render(v, channel_cls=None) -> str:
    import sys

    old = sys.getrecursionlimit()
    return " ".join(to_tokens(v, None, channel_cls))


class Chan:
    """stand-in for a decoded channel in canonical forms"""

    def __init__(self, id):
        self.id = id

    def __repr__(self):
        return f"Chan({self.id})"


def canon(v, channel_cls=None):
    """Type-exact canonical form: nested tuples tagged with the exact type; floats by bit pattern;
    dicts in insertion order; sets sorted by the canonical repr of their elements."""
    t = type(v)
    if v is None:
        return ("N",)
    if t is bool:
        return ("b", v)
    if t is int:
        return ("i", v)
    if t is float:
        return ("f", f2bits(v))
    if t is complex:
        return ("c", f2bits(v.real), f2bits(v.imag))
    if t is bytes:
        return ("y", v)
    if t is str:
        return ("s", v)
    if t is list:
        return ("l", tuple(canon(x, channel_cls) for x in v))
    if t is tuple:
        return ("t", tuple(canon(x, channel_cls) for x in v))
    if t is dict:
        return ("d", tuple((canon(k, channel_cls), canon(x, channel_cls)) for k, x in v.items()))
    if t is set:
        return ("S", tuple(sorted((canon(x, channel_cls) for x in v), key=repr)))
    if t is frozenset:
        return ("F", tuple(sorted((canon(x, channel_cls) for x in v), key=repr)))
    if t is Chan or (channel_cls is not None and t is channel_cls):
        return ("h", v.id)
    return ("X", t.__name__)


def parse_tokens(toks, pos=0):
    """driver tokens -> canonical form (same shape as `canon`)"""
    t = toks[pos]
    if t == "N":
        return ("N",), pos + 1
    if t == "T":
        return ("b", True), pos + 1
    if t == "F":
        return ("b", False), pos + 1
    if t == "I":
        return ("i", undec(toks[pos + 1])), pos + 2
    if t == "D":
        return ("f", int(toks[pos + 1], 16)), pos + 2
    if t == "C":
        return ("c", int(toks[pos + 1], 16), int(toks[pos + 2], 16)), pos + 3
    if t == "B":
        return ("y", unhex(toks[pos + 1])), pos + 2
    if t == "S":
        return ("s", unhex(toks[pos + 1]).decode("utf-8")), pos + 2
    if t == "H":
        return ("h", int(toks[pos + 1])), pos + 2
    if t in "LPEZ":
        n = int(toks[pos + 1])
        pos += 2
        items = []
        for _ in range(n):
            x, pos = parse_tokens(toks, pos)
            items.append(x)
        if t == "L":
            return ("l", tuple(items)), pos
        if t == "P":
            return ("t", tuple(items)), pos
        items.sort(key=repr)
        return ("S" if t == "E" else "F", tuple(items)), pos
    if t == "M":
        n = int(toks[pos + 1])
        pos += 2
        items = []
        for _ in range(n):
            k, pos = parse_tokens(toks, pos)
            x, pos = parse_tokens(toks, pos)
            items.append((k, x))
        return ("d", tuple(items)), pos
    if t == "U":
        return ("U",), pos + 1
    if t == "X":
        return ("X", "?"), pos + 1
    raise ValueError("bad token %r" % t)


def parse_line(s: str):
    toks = s.split()
    v, pos = parse_tokens(toks, 0)
    assert pos == len(toks), s
    return v


# ---------------------------------------------------------------------------------------
# generator
# ---------------------------------------------------------------------------------------
INT_POOL = [0, 1, -1, 2, 255, 256, -128, 2**31 - 2, 2**31 - 1, 2**31, 2**31 + 1, -(2**31) + 1, -(2**31), -(2**31) - 1,
            -(2**31) - 2, 2**32, -(2**32), 2**63 - 1, 2**63, -(2**63), -(2**63) - 1, 2**64, -(2**64), 10**18, 10**30, -(10**30),
            10**100 + 7, -(10**200), 10**4299, -(10**4299), 10**4300 - 1]
FLOAT_BITS = [0x0000000000000000, 0x8000000000000000, 0x3FF0000000000000, 0xBFF0000000000000, 0x7FF0000000000000,
              0xFFF0000000000000, 0x7FF8000000000000, 0xFFF8000000000001, 0x7FF0000000000001, 0x7FF4000000000abc,
              0x0000000000000001, 0x000FFFFFFFFFFFFF, 0x0010000000000000, 0x7FEFFFFFFFFFFFFF, 0x3FB999999999999A,
              0x4340000000000000, 0x4330000000000001, 0xC1E0000000000000, 0x41DFFFFFFFC00000, 0x41E0000000000000]
CODEPOINTS = [0, 1, 0x0A, 0x20, 0x41, 0x7F, 0x80, 0xE9, 0x7FF, 0x800, 0xD7FF, 0xE000, 0xFFFD, 0xFFFF, 0x10000, 0x1F600, 0x10FFFF]


class Gen:
    def __init__(self, rng, max_depth=5, max_size=60, allow_foreign=False, allow_badstr=False):
        self.rng = rng
        self.max_depth = max_depth
        self.budget = max_size
        self.allow_foreign = allow_foreign
        self.allow_badstr = allow_badstr
        self.kinds = {}

    def note(self, k):
        self.kinds[k] = self.kinds.get(k, 0) + 1

    def gint(self):
        r = self.rng
        c = r.random()
        if c < 0.45:
            return r.choice(INT_POOL)
        if c < 0.7:
            return r.randint(-300, 300)
        if c < 0.85:
            return r.choice([1, -1]) * (2**31 + r.randint(-3, 3))
        return r.choice([1, -1]) * r.getrandbits(r.choice([8, 31, 32, 33, 64, 100, 400]))

    def gfloat(self):
        r = self.rng
        if r.random() < 0.6:
            return bits2f(r.choice(FLOAT_BITS))
        if r.random() < 0.5:
            return float(r.randint(-5, 5))
        return bits2f(r.getrandbits(64))

    def gstr(self):
        r = self.rng
        n = r.choice([0, 0, 1, 1, 2, 3, 5, 17])
        cps = [r.choice(CODEPOINTS) if r.random() < 0.7 else r.randint(0x20, 0x7E) for _ in range(n)]
        s = "".join(map(chr, cps))
        if self.allow_badstr and r.random() < 0.5:
            i = r.randint(0, len(s))
            s = s[:i] + chr(r.choice([0xD800, 0xDBFF, 0xDC00, 0xDC80, 0xDCC3, 0xDCE9, 0xDCFF, 0xDFFF, r.randint(0xD800, 0xDFFF)])) + s[i:]
        return s

    def gbytes(self):
        r = self.rng
        n = r.choice([0, 0, 1, 2, 3, 9, 40])
        return bytes(r.getrandbits(8) for _ in range(n))

    def leaf(self, hashable_only=False):
        r = self.rng
        k = r.choice(["none", "bool", "int", "int", "float", "complex", "bytes", "str", "str"])
        self.note(k)
        if k == "none":
            return None
        if k == "bool":
            return r.random() < 0.5
        if k == "int":
            return self.gint()
        if k == "float":
            return self.gfloat()
        if k == "complex":
            return complex(self.gfloat(), self.gfloat())
        if k == "bytes":
            return self.gbytes()
        return self.gstr()

    def hashable(self, depth):
        """a hashable value (dict key / set element): leaf, tuple of hashables, frozenset"""
        r = self.rng
        self.budget -= 1
        if depth >= self.max_depth or self.budget <= 0 or r.random() < 0.6:
            if self.allow_foreign and r.random() < 0.05:
                return Foreign()
            return self.leaf()
        if r.random() < 0.6:
            self.note("tuple")
            return tuple(self.hashable(depth + 1) for _ in range(r.choice([0, 1, 2, 3])))
        self.note("frozenset")
        return self.mkset(frozenset, depth)

    def mkset(self, typ, depth):
        r = self.rng
        items = []
        for _ in range(r.choice([0, 1, 2, 3, 4])):
            x = self.hashable(depth + 1)
            try:
                hash(x)
            except TypeError:
                continue
            items.append(x)
        return typ(items)

    def value(self, depth=0):
        r = self.rng
        self.budget -= 1
        if depth >= self.max_depth or self.budget <= 0 or r.random() < 0.35:
            if self.allow_foreign and r.random() < 0.08:
                self.note("foreign")
                return Foreign()
            return self.leaf()
        k = r.choice(["list", "list", "tuple", "dict", "dict", "set", "frozenset"])
        self.note(k)
        n = r.choice([0, 1, 1, 2, 3, 5])
        if k == "list":
            return [self.value(depth + 1) for _ in range(n)]
        if k == "tuple":
            return tuple(self.value(depth + 1) for _ in range(n))
        if k == "dict":
            d = {}
            for _ in range(n):
                key = self.hashable(depth + 1)
                try:
                    hash(key)
                except TypeError:
                    continue
                d[key] = self.value(depth + 1)
            return d
        if k == "set":
            return self.mkset(set, depth)
        return self.mkset(frozenset, depth)


def is_nontrivial(v) -> bool:
    """non-trivial = a container, or a boundary leaf (not a small int / None / bool)"""
    t = type(v)
    if t in (list, tuple, dict, set, frozenset):
        return len(v) > 0
    if t is int:
        return abs(v) > 300
    return t in (float, complex, bytes, str) and v not in (0.0, b"", "")


def build(toks, pos=0):
    """driver tokens -> a real Python value (X -> Foreign(), U -> a str with a lone surrogate)"""
    t = toks[pos]
    if t == "N":
        return None, pos + 1
    if t == "T":
        return True, pos + 1
    if t == "F":
        return False, pos + 1
    if t == "I":
        return undec(toks[pos + 1]), pos + 2
    if t == "D":
        return bits2f(int(toks[pos + 1], 16)), pos + 2
    if t == "C":
        return complex(bits2f(int(toks[pos + 1], 16)), bits2f(int(toks[pos + 2], 16))), pos + 3
    if t == "B":
        return unhex(toks[pos + 1]), pos + 2
    if t == "S":
        return unhex(toks[pos + 1]).decode("utf-8"), pos + 2
    if t == "U":
        return "\ud800", pos + 1
    if t == "X":
        return Foreign(), pos + 1
    if t in "LPEZ":
        n = int(toks[pos + 1])
        pos += 2
        items = []
        for _ in range(n):
            x, pos = build(toks, pos)
            items.append(x)
        return {"L": list, "P": tuple, "E": set, "Z": frozenset}[t](items), pos
    if t == "M":
        n = int(toks[pos + 1])
        pos += 2
        d = {}
        for _ in range(n):
            k, pos = build(toks, pos)
            x, pos = build(toks, pos)
            d[k] = x
        return d, pos
    raise ValueError(t)


def build_line(s):
    v, pos = build(s.split(), 0)
    return v


def children(v):
    t = type(v)
    if t in (list, tuple, set, frozenset):
        return list(v)
    if t is dict:
        out = []
        for k, x in v.items():
            out += [k, x]
        return out
    return []


def shrink(v, fails, limit=200):
    """greedy minimisation: descend into any child that still fails; drop container elements"""
    steps = 0
    changed = True
    while changed and steps < limit:
        changed = False
        for c in children(v):
            steps += 1
            try:
                if fails(c):
                    v = c
                    changed = True
                    break
            except Exception:
                pass
        if changed:
            continue
        t = type(v)
        if t in (list, tuple) and len(v) > 1:
            for i in range(len(v)):
                w = t(list(v[:i]) + list(v[i + 1:]))
                steps += 1
                try:
                    if fails(w):
                        v = w
                        changed = True
                        break
                except Exception:
                    pass
    return v


def depth_of(v):
    d = 0
    stack = [(v, 1)]
    while stack:
        x, k = stack.pop()
        d = max(d, k)
        for c in children(x):
            stack.append((c, k + 1))
    return d


def max_int_digits(v):
    m = 0
    stack = [v]
    while stack:
        x = stack.pop()
        if type(x) is int:
            # number of decimal digits without str(): bit_length bound then exact by comparison
            a = abs(x)
            if a.bit_length() < 14000:
                m = max(m, len(str(a)))
            else:
                m = max(m, int(a.bit_length() * 0.30102999566398) + 1)
        else:
            stack.extend(children(x))
    return m
