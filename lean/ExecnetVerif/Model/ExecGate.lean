/-
L4 `ExecGate` — the `main_thread_only` gate of `WorkerGateway` (src/execnet/gateway_base.py:
`_local_schedulexec`, `executetask`, `serve`) AFTER the D11 fix (`Config.old = true` selects the pinned tree's
`executetask`, which sets `_executetask_complete` on the success path only; used for the documented
counterexample).

Threads: the initiator (submits `remote_exec` k = 0, 1, 2, … over one FIFO connection and observes channels
closing), the worker's receiver thread (handles CHANNEL_EXEC k: `complete.wait(1 s)`; timed out → close
channel k with the deadlock text; else `complete.clear()`, `spawn` → primary mailbox) and the worker's main
thread (runs body k, closes channel k, `complete.set()` in the `finally`).  The pool between `spawn` and the
body's begin is `Model/Pool.lean` (C09); here it is the FIFO `queue`.

The 1 s wait is a scheduler-controlled time-out.  `Config.timely` is the explicit timing assumption `Timely`:
the time-out does not expire while the main thread is between the end of a body and `complete.set()`.
-/
namespace ExecnetVerif.Gate

def upd {α β : Type} [DecidableEq α] (f : α → β) (k : α) (v : β) : α → β :=
  fun u => if u = k then v else f u

/-- how a body ended: returned, raised an exception, raised SystemExit, or was interrupted (KeyboardInterrupt) -/
inductive Outcome where
  | ret | raise | sysexit | kbd
  deriving DecidableEq, Repr

inductive EPhase where
  | unsent
  | sent                      -- CHANNEL_EXEC on the wire / not yet handled by the receiver
  | atGate                    -- receiver inside `_local_schedulexec`, not yet spawned
  | rejected                  -- channel closed with MAIN_THREAD_ONLY_DEADLOCK_TEXT
  | queued                    -- spawned to the pool (primary mailbox), body not begun
  | running                   -- body executing on the main thread
  | bodyDone (o : Outcome)    -- body ended, channel not yet closed
  | closed (o : Outcome)      -- CLOSE / CLOSE_ERROR sent, `complete` not yet set
  | finished (o : Outcome)
  deriving DecidableEq, Repr

inductive RPhase where
  | idle
  | waiting (k : Nat)         -- in `_executetask_complete.wait(timeout=1)`
  | woke (k : Nat)            -- wait returned True, before `clear()`
  | cleared (k : Nat)         -- after `clear()`, before `spawn`
  deriving DecidableEq, Repr

inductive MPhase where
  | idle
  | running (k : Nat)
  | bodyDone (k : Nat) (o : Outcome)
  | closedSt (k : Nat) (o : Outcome)     -- channel closed, about to run the `finally`
  deriving DecidableEq, Repr

structure Config where
  /-- the assumption `Timely` -/
  timely : Bool
  /-- pinned tree: `complete.set()` only after a body that returned -/
  old : Bool
  deriving DecidableEq, Repr

structure State where
  complete : Bool
  rq : List Nat
  queue : List Nat
  r : RPhase
  m : MPhase
  ph : Nat → EPhase
  submitted : Nat
  closeObs : Nat → Bool
  /-- ghost: at submission time every earlier channel had been observed closed (sequential submission) -/
  seqOk : Nat → Bool
  /-- ghost: bodies begun, in order; the only step that begins a body is the main thread's `mStart` -/
  started : List Nat

inductive Action where
  | submit | observe (k : Nat)
  | rTake | rWake | rClear | rTimeout | rSpawn
  | mStart | mFinish (o : Outcome) | mClose | mSet
  deriving DecidableEq, Repr

def init : State where
  complete := true
  rq := []
  queue := []
  r := .idle
  m := .idle
  ph := fun _ => .unsent
  submitted := 0
  closeObs := fun _ => false
  seqOk := fun _ => false
  started := []

/-- the initiator can see channel `k` closed -/
def isClosed : EPhase → Bool
  | .rejected | .closed _ | .finished _ => true
  | _ => false

/-- the main thread is between the end of a body and `complete.set()` -/
def inEpilogue : MPhase → Bool
  | .bodyDone _ _ | .closedSt _ _ => true
  | _ => false

def step (c : Config) (s : State) : Action → Option State
  | .submit =>
    some { s with ph := upd s.ph s.submitted .sent, rq := s.rq ++ [s.submitted], submitted := s.submitted + 1, seqOk := upd s.seqOk s.submitted ((List.range s.submitted).all s.closeObs) }
  | .observe k =>
    if isClosed (s.ph k) = true then some { s with closeObs := upd s.closeObs k true } else none
  | .rTake =>
    match s.r, s.rq with
    | .idle, k :: rest => some { s with r := .waiting k, rq := rest, ph := upd s.ph k .atGate }
    | _, _ => none
  | .rWake =>
    match s.r with
    | .waiting k => if s.complete = true then some { s with r := .woke k } else none
    | _ => none
  | .rClear =>
    match s.r with
    | .woke k => some { s with r := .cleared k, complete := false }
    | _ => none
  | .rTimeout =>
    match s.r with
    | .waiting k =>
      if s.complete = false ∧ (c.timely = true → inEpilogue s.m = false) then
        some { s with r := .idle, ph := upd s.ph k .rejected }
      else none
    | _ => none
  | .rSpawn =>
    match s.r with
    | .cleared k => some { s with r := .idle, queue := s.queue ++ [k], ph := upd s.ph k .queued }
    | _ => none
  | .mStart =>
    match s.m, s.queue with
    | .idle, k :: rest => some { s with m := .running k, queue := rest, ph := upd s.ph k .running, started := s.started ++ [k] }
    | _, _ => none
  | .mFinish o =>
    match s.m with
    | .running k => some { s with m := .bodyDone k o, ph := upd s.ph k (.bodyDone o) }
    | _ => none
  | .mClose =>
    match s.m with
    | .bodyDone k o => some { s with m := .closedSt k o, ph := upd s.ph k (.closed o) }
    | _ => none
  | .mSet =>
    match s.m with
    | .closedSt k o =>
      if c.old = true ∧ o ≠ .ret then some { s with m := .idle, ph := upd s.ph k (.finished o) }
      else some { s with m := .idle, ph := upd s.ph k (.finished o), complete := true }
    | _ => none

def runSteps (c : Config) : State → List Action → Option State
  | s, [] => some s
  | s, a :: rest => match step c s a with
    | some s' => runSteps c s' rest
    | none => none

inductive Reachable (c : Config) : State → Prop where
  | init : Reachable c init
  | step {s s' a} : Reachable c s → step c s a = some s' → Reachable c s'

end ExecnetVerif.Gate
