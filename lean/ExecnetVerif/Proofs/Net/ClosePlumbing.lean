/-
Plumbing for `Fin.lean`, `Close.lean`, `Isolation.lean`: simp lemmas about `State.side/set`, `upd`,
and the field-frame lemmas of the helpers (`createAt`, `registerAll`, `noLongerOpened`, `localClose`,
`doClose`, `chanClose`, `epilogue`, `handle`).  Everything lives in the sub-namespace `CP` so that the
names cannot clash with the plumbing files written in parallel for the other invariant groups.
-/
import ExecnetVerif.Proofs.Net.Defs
namespace ExecnetVerif.Net.CP
open ExecnetVerif.Net

/-! ### sides -/

@[simp] theorem peer_peer (s : Side) : s.peer.peer = s := by cases s <;> rfl
@[simp] theorem peer_ne (s : Side) : s.peer ≠ s := by cases s <;> simp [Side.peer]
@[simp] theorem ne_peer (s : Side) : s ≠ s.peer := by cases s <;> simp [Side.peer]
theorem eq_or_peer (s t : Side) : t = s ∨ t = s.peer := by cases s <;> cases t <;> simp [Side.peer]

@[simp] theorem side_set_same (st : State) (s : Side) (x : SideSt) : (st.set s x).side s = x := by
  cases s <;> rfl
@[simp] theorem side_set_peer (st : State) (s : Side) (x : SideSt) :
    (st.set s x).side s.peer = st.side s.peer := by cases s <;> rfl
@[simp] theorem side_peer_set (st : State) (s : Side) (x : SideSt) :
    (st.set s.peer x).side s = st.side s := by cases s <;> rfl
@[simp] theorem side_A (st : State) : st.a = st.side .A := rfl
@[simp] theorem side_B (st : State) : st.b = st.side .B := rfl
@[simp] theorem peer_A : Side.A.peer = .B := rfl
@[simp] theorem peer_B : Side.B.peer = .A := rfl
@[simp] theorem side_set_AB (st : State) (x : SideSt) : (st.set .A x).side .B = st.side .B := rfl
@[simp] theorem side_set_BA (st : State) (x : SideSt) : (st.set .B x).side .A = st.side .A := rfl

/-! ### `upd` -/

theorem upd_apply {α : Type} (f : Nat → α) (k : Nat) (v : α) (i : Nat) :
    upd f k v i = if i = k then v else f i := rfl
@[simp] theorem upd_same {α : Type} (f : Nat → α) (k : Nat) (v : α) : upd f k v k = v := by
  simp [upd]
theorem upd_ne {α : Type} (f : Nat → α) {k i : Nat} (v : α) (h : i ≠ k) : upd f k v i = f i := by
  simp [upd, h]

/-! ### `createAt` -/

section createAt
variable (x : SideSt) (id : Nat)
@[simp] theorem createAt_cbs : (createAt x id).cbs = x.cbs := rfl
@[simp] theorem createAt_count : (createAt x id).count = x.count := rfl
@[simp] theorem createAt_finished : (createAt x id).finished = x.finished := rfl
@[simp] theorem createAt_gwerr : (createAt x id).gwerr = x.gwerr := rfl
@[simp] theorem createAt_ioOpen : (createAt x id).ioOpen = x.ioOpen := rfl
@[simp] theorem createAt_out : (createAt x id).out = x.out := rfl
@[simp] theorem createAt_sent : (createAt x id).sent = x.sent := rfl
@[simp] theorem createAt_got : (createAt x id).got = x.got := rfl
@[simp] theorem createAt_kept : (createAt x id).kept = x.kept := rfl
@[simp] theorem createAt_delivered : (createAt x id).delivered = x.delivered := rfl
@[simp] theorem createAt_cbLog : (createAt x id).cbLog = x.cbLog := rfl
@[simp] theorem createAt_dropped : (createAt x id).dropped = x.dropped := rfl
@[simp] theorem createAt_cbWants : (createAt x id).cbWants = x.cbWants := rfl
@[simp] theorem createAt_ended : (createAt x id).ended = x.ended := rfl
@[simp] theorem createAt_closeSeen : (createAt x id).closeSeen = x.closeSeen := rfl
@[simp] theorem createAt_closeSent : (createAt x id).closeSent = x.closeSent := rfl
theorem createAt_chans : (createAt x id).chans = upd x.chans id (createChan (x.chans id)) := rfl
theorem createAt_broken : (createAt x id).broken = upd x.broken id
    (x.broken id || (((x.chans id).created || x.ended id) && !(x.chans id).registered)) := rfl
theorem createAt_chans_ne {j : Nat} (h : j ≠ id) : (createAt x id).chans j = x.chans j := by
  simp [createAt_chans, upd_ne, h]
theorem createAt_broken_ne {j : Nat} (h : j ≠ id) : (createAt x id).broken j = x.broken j := by
  simp [createAt_broken, upd_ne, h]
theorem createAt_broken_mono (j : Nat) (h : x.broken j = true) : (createAt x id).broken j = true := by
  by_cases hj : j = id
  · subst hj; simp [createAt_broken, h]
  · rw [createAt_broken_ne x id hj]; exact h
theorem createAt_chans_registered {j : Nat} (h : (x.chans j).registered = true) :
    (createAt x id).chans j = x.chans j := by
  by_cases hj : j = id
  · subst hj; simp [createAt_chans, createChan, h]
  · exact createAt_chans_ne x id hj
end createAt

/-! ### `registerAll` -/

@[simp] theorem registerAll_nil (x : SideSt) : registerAll x [] = x := rfl
@[simp] theorem registerAll_cons (x : SideSt) (i : Nat) (ids : List Nat) :
    registerAll x (i :: ids) = registerAll (createAt x i) ids := rfl

section registerAll
variable (x : SideSt) (ids : List Nat)
@[simp] theorem registerAll_cbs : (registerAll x ids).cbs = x.cbs := by
  induction ids generalizing x <;> simp_all
@[simp] theorem registerAll_count : (registerAll x ids).count = x.count := by
  induction ids generalizing x <;> simp_all
@[simp] theorem registerAll_finished : (registerAll x ids).finished = x.finished := by
  induction ids generalizing x <;> simp_all
@[simp] theorem registerAll_gwerr : (registerAll x ids).gwerr = x.gwerr := by
  induction ids generalizing x <;> simp_all
@[simp] theorem registerAll_ioOpen : (registerAll x ids).ioOpen = x.ioOpen := by
  induction ids generalizing x <;> simp_all
@[simp] theorem registerAll_out : (registerAll x ids).out = x.out := by
  induction ids generalizing x <;> simp_all
@[simp] theorem registerAll_sent : (registerAll x ids).sent = x.sent := by
  induction ids generalizing x <;> simp_all
@[simp] theorem registerAll_got : (registerAll x ids).got = x.got := by
  induction ids generalizing x <;> simp_all
@[simp] theorem registerAll_kept : (registerAll x ids).kept = x.kept := by
  induction ids generalizing x <;> simp_all
@[simp] theorem registerAll_delivered : (registerAll x ids).delivered = x.delivered := by
  induction ids generalizing x <;> simp_all
@[simp] theorem registerAll_cbLog : (registerAll x ids).cbLog = x.cbLog := by
  induction ids generalizing x <;> simp_all
@[simp] theorem registerAll_dropped : (registerAll x ids).dropped = x.dropped := by
  induction ids generalizing x <;> simp_all
@[simp] theorem registerAll_cbWants : (registerAll x ids).cbWants = x.cbWants := by
  induction ids generalizing x <;> simp_all
@[simp] theorem registerAll_ended : (registerAll x ids).ended = x.ended := by
  induction ids generalizing x <;> simp_all
@[simp] theorem registerAll_closeSeen : (registerAll x ids).closeSeen = x.closeSeen := by
  induction ids generalizing x <;> simp_all
@[simp] theorem registerAll_closeSent : (registerAll x ids).closeSent = x.closeSent := by
  induction ids generalizing x <;> simp_all

theorem registerAll_chans_not_mem {j : Nat} (h : j ∉ ids) : (registerAll x ids).chans j = x.chans j := by
  induction ids generalizing x with
  | nil => rfl
  | cons i t ih =>
    simp only [List.mem_cons, not_or] at h
    rw [registerAll_cons, ih _ h.2, createAt_chans_ne _ _ h.1]

theorem registerAll_broken_not_mem {j : Nat} (h : j ∉ ids) :
    (registerAll x ids).broken j = x.broken j := by
  induction ids generalizing x with
  | nil => rfl
  | cons i t ih =>
    simp only [List.mem_cons, not_or] at h
    rw [registerAll_cons, ih _ h.2, createAt_broken_ne _ _ h.1]

theorem registerAll_broken_mono (j : Nat) (h : x.broken j = true) :
    (registerAll x ids).broken j = true := by
  induction ids generalizing x with
  | nil => exact h
  | cons i t ih => exact ih _ (createAt_broken_mono x i j h)

theorem registerAll_chans_registered {j : Nat} (h : (x.chans j).registered = true) :
    (registerAll x ids).chans j = x.chans j := by
  induction ids generalizing x with
  | nil => rfl
  | cons i t ih =>
    have h1 := createAt_chans_registered x i h
    rw [registerAll_cons, ih _ (by rw [h1]; exact h), h1]

/-- a record is either untouched by `registerAll` or registered afterwards -/
theorem registerAll_chans_cases (j : Nat) :
    (registerAll x ids).chans j = x.chans j ∨ ((registerAll x ids).chans j).registered = true := by
  induction ids generalizing x with
  | nil => left; rfl
  | cons i t ih =>
    rw [registerAll_cons]
    rcases ih (createAt x i) with h | h
    · rw [h]
      by_cases hj : j = i
      · subst hj
        by_cases hr : (x.chans j).registered = true
        · left; exact createAt_chans_registered x j hr
        · right; simp [createAt_chans, createChan, hr]
      · left; exact createAt_chans_ne x i hj
    · right; exact h
end registerAll

/-! ### `noLongerOpened` -/

section noLongerOpened
variable (x : SideSt) (id : Nat)
@[simp] theorem nlo_count : (noLongerOpened x id).count = x.count := rfl
@[simp] theorem nlo_finished : (noLongerOpened x id).finished = x.finished := rfl
@[simp] theorem nlo_gwerr : (noLongerOpened x id).gwerr = x.gwerr := rfl
@[simp] theorem nlo_ioOpen : (noLongerOpened x id).ioOpen = x.ioOpen := rfl
@[simp] theorem nlo_out : (noLongerOpened x id).out = x.out := rfl
@[simp] theorem nlo_sent : (noLongerOpened x id).sent = x.sent := rfl
@[simp] theorem nlo_got : (noLongerOpened x id).got = x.got := rfl
@[simp] theorem nlo_kept : (noLongerOpened x id).kept = x.kept := rfl
@[simp] theorem nlo_delivered : (noLongerOpened x id).delivered = x.delivered := rfl
@[simp] theorem nlo_dropped : (noLongerOpened x id).dropped = x.dropped := rfl
@[simp] theorem nlo_broken : (noLongerOpened x id).broken = x.broken := rfl
@[simp] theorem nlo_cbWants : (noLongerOpened x id).cbWants = x.cbWants := rfl
@[simp] theorem nlo_ended : (noLongerOpened x id).ended = x.ended := rfl
@[simp] theorem nlo_closeSeen : (noLongerOpened x id).closeSeen = x.closeSeen := rfl
@[simp] theorem nlo_closeSent : (noLongerOpened x id).closeSent = x.closeSent := rfl
theorem nlo_chans : (noLongerOpened x id).chans =
    upd x.chans id { x.chans id with registered := false } := rfl
theorem nlo_cbs : (noLongerOpened x id).cbs = upd x.cbs id none := rfl
@[simp] theorem nlo_chans_same : (noLongerOpened x id).chans id = { x.chans id with registered := false } := by
  simp [nlo_chans]
@[simp] theorem nlo_cbs_same : (noLongerOpened x id).cbs id = none := by simp [nlo_cbs]
theorem nlo_chans_ne {j : Nat} (h : j ≠ id) : (noLongerOpened x id).chans j = x.chans j := by
  simp [nlo_chans, upd_ne, h]
theorem nlo_cbs_ne {j : Nat} (h : j ≠ id) : (noLongerOpened x id).cbs j = x.cbs j := by
  simp [nlo_cbs, upd_ne, h]
theorem nlo_cbLog_ne {j : Nat} (h : j ≠ id) : (noLongerOpened x id).cbLog j = x.cbLog j := by
  simp [noLongerOpened, upd_ne, h]
end noLongerOpened

/-! ### `localClose` -/

section localClose
variable (x : SideSt) (id : Nat) (err : Option Nat) (so : Bool)
theorem localClose_eq : localClose x id err so =
    if (x.chans id).registered then
      noLongerOpened { x with ended := upd x.ended id true,
                              chans := upd x.chans id
                                { x.chans id with rerrs := (x.chans id).rerrs ++ err.toList,
                                                  queue := pushEnd (x.chans id).queue,
                                                  closed := (x.chans id).closed || !so, rclosed := true } } id
    else noLongerOpened { x with ended := upd x.ended id true } id := rfl
@[simp] theorem localClose_count : (localClose x id err so).count = x.count := by
  rw [localClose_eq]; split <;> rfl
@[simp] theorem localClose_finished : (localClose x id err so).finished = x.finished := by
  rw [localClose_eq]; split <;> rfl
@[simp] theorem localClose_gwerr : (localClose x id err so).gwerr = x.gwerr := by
  rw [localClose_eq]; split <;> rfl
@[simp] theorem localClose_ioOpen : (localClose x id err so).ioOpen = x.ioOpen := by
  rw [localClose_eq]; split <;> rfl
@[simp] theorem localClose_out : (localClose x id err so).out = x.out := by
  rw [localClose_eq]; split <;> rfl
@[simp] theorem localClose_sent : (localClose x id err so).sent = x.sent := by
  rw [localClose_eq]; split <;> rfl
@[simp] theorem localClose_got : (localClose x id err so).got = x.got := by
  rw [localClose_eq]; split <;> rfl
@[simp] theorem localClose_kept : (localClose x id err so).kept = x.kept := by
  rw [localClose_eq]; split <;> rfl
@[simp] theorem localClose_delivered : (localClose x id err so).delivered = x.delivered := by
  rw [localClose_eq]; split <;> rfl
@[simp] theorem localClose_dropped : (localClose x id err so).dropped = x.dropped := by
  rw [localClose_eq]; split <;> rfl
@[simp] theorem localClose_broken : (localClose x id err so).broken = x.broken := by
  rw [localClose_eq]; split <;> rfl
@[simp] theorem localClose_cbWants : (localClose x id err so).cbWants = x.cbWants := by
  rw [localClose_eq]; split <;> rfl
@[simp] theorem localClose_closeSeen : (localClose x id err so).closeSeen = x.closeSeen := by
  rw [localClose_eq]; split <;> rfl
@[simp] theorem localClose_closeSent : (localClose x id err so).closeSent = x.closeSent := by
  rw [localClose_eq]; split <;> rfl
theorem localClose_ended : (localClose x id err so).ended = upd x.ended id true := by
  rw [localClose_eq]; split <;> rfl
@[simp] theorem localClose_ended_same : (localClose x id err so).ended id = true := by
  simp [localClose_ended]
theorem localClose_ended_ne {j : Nat} (h : j ≠ id) : (localClose x id err so).ended j = x.ended j := by
  simp [localClose_ended, upd_ne, h]
theorem localClose_cbs : (localClose x id err so).cbs = upd x.cbs id none := by
  rw [localClose_eq]; split <;> rfl
@[simp] theorem localClose_cbs_same : (localClose x id err so).cbs id = none := by
  simp [localClose_cbs]
theorem localClose_cbs_ne {j : Nat} (h : j ≠ id) : (localClose x id err so).cbs j = x.cbs j := by
  simp [localClose_cbs, upd_ne, h]
theorem localClose_chans_ne {j : Nat} (h : j ≠ id) : (localClose x id err so).chans j = x.chans j := by
  rw [localClose_eq]; split <;> simp [nlo_chans, upd_ne, h]
theorem localClose_cbLog_ne {j : Nat} (h : j ≠ id) : (localClose x id err so).cbLog j = x.cbLog j := by
  rw [localClose_eq]; split <;> simp [noLongerOpened, upd_ne, h]
/-- the record of the closed id: closed (if it was registered) and unregistered -/
theorem localClose_chans_same : (localClose x id err so).chans id =
    if (x.chans id).registered then
      { x.chans id with rerrs := (x.chans id).rerrs ++ err.toList, queue := pushEnd (x.chans id).queue,
                        closed := (x.chans id).closed || !so, rclosed := true, registered := false }
    else { x.chans id with registered := false } := by
  rw [localClose_eq]; split <;> simp
end localClose

/-! ### `doClose`, `chanClose` -/

section doClose
variable (x : SideSt) (id : Nat) (frame : Frame)
theorem doClose_eq : doClose x id frame =
    if !x.ioOpen && !(x.chans id).rclosed then (.osError, x)
    else if x.ioOpen then
      (.ok, noLongerOpened
        { x with
          out := x.out ++ [frame], closeSent := upd x.closeSent id true,
          chans := upd x.chans id { x.chans id with closed := true, rclosed := true, queue := pushEnd (x.chans id).queue },
          ended := upd x.ended id true } id)
    else
      (.ok, noLongerOpened
        { x with
          chans := upd x.chans id { x.chans id with closed := true, rclosed := true, queue := pushEnd (x.chans id).queue },
          ended := upd x.ended id true } id) := by
  unfold doClose
  by_cases h : x.ioOpen = true <;> simp [h]
theorem chanClose_eq (err : Option Nat) : chanClose x id err =
    if (x.chans id).executing then (.osError, x)
    else if (x.chans id).closed then (.ok, x)
    else doClose x id (closeFrame id err) := rfl
@[simp] theorem doClose_finished : (doClose x id frame).2.finished = x.finished := by
  rw [doClose_eq]; split <;> (try split) <;> rfl
@[simp] theorem doClose_ioOpen : (doClose x id frame).2.ioOpen = x.ioOpen := by
  rw [doClose_eq]; split <;> (try split) <;> rfl
@[simp] theorem doClose_gwerr : (doClose x id frame).2.gwerr = x.gwerr := by
  rw [doClose_eq]; split <;> (try split) <;> rfl
@[simp] theorem doClose_closeSeen : (doClose x id frame).2.closeSeen = x.closeSeen := by
  rw [doClose_eq]; split <;> (try split) <;> rfl
@[simp] theorem doClose_broken : (doClose x id frame).2.broken = x.broken := by
  rw [doClose_eq]; split <;> (try split) <;> rfl
theorem doClose_chans_ne {j : Nat} (h : j ≠ id) : (doClose x id frame).2.chans j = x.chans j := by
  rw [doClose_eq]; split <;> (try split) <;> simp [nlo_chans, upd_ne, h]
theorem doClose_cbs_ne {j : Nat} (h : j ≠ id) : (doClose x id frame).2.cbs j = x.cbs j := by
  rw [doClose_eq]; split <;> (try split) <;> simp [nlo_cbs, upd_ne, h]
end doClose

section chanClose
variable (x : SideSt) (id : Nat) (err : Option Nat)
@[simp] theorem chanClose_finished : (chanClose x id err).2.finished = x.finished := by
  rw [chanClose_eq]; split <;> (try split) <;> simp
@[simp] theorem chanClose_ioOpen : (chanClose x id err).2.ioOpen = x.ioOpen := by
  rw [chanClose_eq]; split <;> (try split) <;> simp
@[simp] theorem chanClose_gwerr : (chanClose x id err).2.gwerr = x.gwerr := by
  rw [chanClose_eq]; split <;> (try split) <;> simp
@[simp] theorem chanClose_closeSeen : (chanClose x id err).2.closeSeen = x.closeSeen := by
  rw [chanClose_eq]; split <;> (try split) <;> simp
@[simp] theorem chanClose_broken : (chanClose x id err).2.broken = x.broken := by
  rw [chanClose_eq]; split <;> (try split) <;> simp
theorem chanClose_chans_ne {j : Nat} (h : j ≠ id) : (chanClose x id err).2.chans j = x.chans j := by
  rw [chanClose_eq]; split <;> (try split) <;> first | rfl | exact doClose_chans_ne _ _ _ h
theorem chanClose_cbs_ne {j : Nat} (h : j ≠ id) : (chanClose x id err).2.cbs j = x.cbs j := by
  rw [chanClose_eq]; split <;> (try split) <;> first | rfl | exact doClose_cbs_ne _ _ _ h
end chanClose

/-! ### `epilogue` -/

section epilogue
variable (x : SideSt) (isCut : Bool)
@[simp] theorem epilogue_finished : (epilogue x isCut).finished = true := rfl
@[simp] theorem epilogue_ioOpen : (epilogue x isCut).ioOpen = false := rfl
@[simp] theorem epilogue_gwerr : (epilogue x isCut).gwerr = (x.gwerr || isCut) := rfl
@[simp] theorem epilogue_cbs (id : Nat) : (epilogue x isCut).cbs id = none := rfl
@[simp] theorem epilogue_out : (epilogue x isCut).out = x.out := rfl
@[simp] theorem epilogue_broken : (epilogue x isCut).broken = x.broken := rfl
@[simp] theorem epilogue_closeSeen : (epilogue x isCut).closeSeen = x.closeSeen := rfl
@[simp] theorem epilogue_closeSent : (epilogue x isCut).closeSent = x.closeSent := rfl
theorem epilogue_chans (id : Nat) : (epilogue x isCut).chans id =
    if (x.chans id).registered then
      { x.chans id with queue := pushEnd (x.chans id).queue, registered := false, rclosed := true }
    else x.chans id := rfl
theorem epilogue_ended (id : Nat) : (epilogue x isCut).ended id =
    (x.ended id || (x.chans id).registered || (x.cbs id).isSome) := rfl
end epilogue

/-! ### `handle` -/

/-- the DATA frame is counted as handled -/
def dataPre (x : SideSt) (id : Nat) (v : Item) : SideSt :=
  { x with delivered := upd x.delivered id (x.delivered id ++ [v]) }

/-- DATA frame accepted by a registered callback (before the callback's verdict) -/
def cbAccept (x : SideSt) (id : Nat) (v : Item) : SideSt :=
  let x1 := registerAll (dataPre x id v) v.chans
  { x1 with cbLog := upd x1.cbLog id (x1.cbLog id ++ [.item v]),
            got := upd x1.got id (x1.got id ++ [v]),
            kept := upd x1.kept id (x1.kept id ++ [v]) }

/-- the failing callback's CLOSE_ERROR frame (written while the IO is still open) -/
def failOut (x : SideSt) (id : Nat) (e : Nat) : SideSt :=
  { x with out := x.out ++ [.closeErr id e], closeSent := upd x.closeSent id true }

/-- DATA frame accepted into the queue of the registered channel object -/
def qAccept (x : SideSt) (id : Nat) (v : Item) : SideSt :=
  let x1 := registerAll (dataPre x id v) v.chans
  { x1 with chans := upd x1.chans id { x1.chans id with queue := ((x1.chans id).queue.map (· ++ [.item v])) },
            kept := upd x1.kept id (x1.kept id ++ [v]) }

section failOut
variable (x : SideSt) (id : Nat) (e : Nat)
@[simp] theorem failOut_chans : (failOut x id e).chans = x.chans := rfl
@[simp] theorem failOut_cbs : (failOut x id e).cbs = x.cbs := rfl
@[simp] theorem failOut_count : (failOut x id e).count = x.count := rfl
@[simp] theorem failOut_finished : (failOut x id e).finished = x.finished := rfl
@[simp] theorem failOut_gwerr : (failOut x id e).gwerr = x.gwerr := rfl
@[simp] theorem failOut_ioOpen : (failOut x id e).ioOpen = x.ioOpen := rfl
@[simp] theorem failOut_sent : (failOut x id e).sent = x.sent := rfl
@[simp] theorem failOut_got : (failOut x id e).got = x.got := rfl
@[simp] theorem failOut_kept : (failOut x id e).kept = x.kept := rfl
@[simp] theorem failOut_delivered : (failOut x id e).delivered = x.delivered := rfl
@[simp] theorem failOut_cbLog : (failOut x id e).cbLog = x.cbLog := rfl
@[simp] theorem failOut_dropped : (failOut x id e).dropped = x.dropped := rfl
@[simp] theorem failOut_broken : (failOut x id e).broken = x.broken := rfl
@[simp] theorem failOut_cbWants : (failOut x id e).cbWants = x.cbWants := rfl
@[simp] theorem failOut_ended : (failOut x id e).ended = x.ended := rfl
@[simp] theorem failOut_closeSeen : (failOut x id e).closeSeen = x.closeSeen := rfl
theorem failOut_out : (failOut x id e).out = x.out ++ [.closeErr id e] := rfl
theorem failOut_closeSent : (failOut x id e).closeSent = upd x.closeSent id true := rfl
end failOut

section dataPre
variable (x : SideSt) (id : Nat) (v : Item)
@[simp] theorem dataPre_chans : (dataPre x id v).chans = x.chans := rfl
@[simp] theorem dataPre_cbs : (dataPre x id v).cbs = x.cbs := rfl
@[simp] theorem dataPre_count : (dataPre x id v).count = x.count := rfl
@[simp] theorem dataPre_finished : (dataPre x id v).finished = x.finished := rfl
@[simp] theorem dataPre_gwerr : (dataPre x id v).gwerr = x.gwerr := rfl
@[simp] theorem dataPre_ioOpen : (dataPre x id v).ioOpen = x.ioOpen := rfl
@[simp] theorem dataPre_out : (dataPre x id v).out = x.out := rfl
@[simp] theorem dataPre_sent : (dataPre x id v).sent = x.sent := rfl
@[simp] theorem dataPre_got : (dataPre x id v).got = x.got := rfl
@[simp] theorem dataPre_kept : (dataPre x id v).kept = x.kept := rfl
@[simp] theorem dataPre_cbLog : (dataPre x id v).cbLog = x.cbLog := rfl
@[simp] theorem dataPre_dropped : (dataPre x id v).dropped = x.dropped := rfl
@[simp] theorem dataPre_broken : (dataPre x id v).broken = x.broken := rfl
@[simp] theorem dataPre_cbWants : (dataPre x id v).cbWants = x.cbWants := rfl
@[simp] theorem dataPre_ended : (dataPre x id v).ended = x.ended := rfl
@[simp] theorem dataPre_closeSeen : (dataPre x id v).closeSeen = x.closeSeen := rfl
@[simp] theorem dataPre_closeSent : (dataPre x id v).closeSent = x.closeSent := rfl
end dataPre

section cbAccept
variable (x : SideSt) (id : Nat) (v : Item)
@[simp] theorem cbAccept_cbs : (cbAccept x id v).cbs = x.cbs := by simp [cbAccept]
@[simp] theorem cbAccept_count : (cbAccept x id v).count = x.count := by simp [cbAccept]
@[simp] theorem cbAccept_finished : (cbAccept x id v).finished = x.finished := by simp [cbAccept]
@[simp] theorem cbAccept_gwerr : (cbAccept x id v).gwerr = x.gwerr := by simp [cbAccept]
@[simp] theorem cbAccept_ioOpen : (cbAccept x id v).ioOpen = x.ioOpen := by simp [cbAccept]
@[simp] theorem cbAccept_out : (cbAccept x id v).out = x.out := by simp [cbAccept]
@[simp] theorem cbAccept_sent : (cbAccept x id v).sent = x.sent := by simp [cbAccept]
@[simp] theorem cbAccept_dropped : (cbAccept x id v).dropped = x.dropped := by simp [cbAccept]
@[simp] theorem cbAccept_cbWants : (cbAccept x id v).cbWants = x.cbWants := by simp [cbAccept]
@[simp] theorem cbAccept_ended : (cbAccept x id v).ended = x.ended := by simp [cbAccept]
@[simp] theorem cbAccept_closeSeen : (cbAccept x id v).closeSeen = x.closeSeen := by simp [cbAccept]
@[simp] theorem cbAccept_closeSent : (cbAccept x id v).closeSent = x.closeSent := by simp [cbAccept]
theorem cbAccept_chans : (cbAccept x id v).chans = (registerAll (dataPre x id v) v.chans).chans := rfl
theorem cbAccept_broken : (cbAccept x id v).broken = (registerAll (dataPre x id v) v.chans).broken := rfl
end cbAccept

section qAccept
variable (x : SideSt) (id : Nat) (v : Item)
@[simp] theorem qAccept_cbs : (qAccept x id v).cbs = x.cbs := by simp [qAccept]
@[simp] theorem qAccept_count : (qAccept x id v).count = x.count := by simp [qAccept]
@[simp] theorem qAccept_finished : (qAccept x id v).finished = x.finished := by simp [qAccept]
@[simp] theorem qAccept_gwerr : (qAccept x id v).gwerr = x.gwerr := by simp [qAccept]
@[simp] theorem qAccept_ioOpen : (qAccept x id v).ioOpen = x.ioOpen := by simp [qAccept]
@[simp] theorem qAccept_out : (qAccept x id v).out = x.out := by simp [qAccept]
@[simp] theorem qAccept_sent : (qAccept x id v).sent = x.sent := by simp [qAccept]
@[simp] theorem qAccept_got : (qAccept x id v).got = x.got := by simp [qAccept]
@[simp] theorem qAccept_cbLog : (qAccept x id v).cbLog = x.cbLog := by simp [qAccept]
@[simp] theorem qAccept_dropped : (qAccept x id v).dropped = x.dropped := by simp [qAccept]
@[simp] theorem qAccept_cbWants : (qAccept x id v).cbWants = x.cbWants := by simp [qAccept]
@[simp] theorem qAccept_ended : (qAccept x id v).ended = x.ended := by simp [qAccept]
@[simp] theorem qAccept_closeSeen : (qAccept x id v).closeSeen = x.closeSeen := by simp [qAccept]
@[simp] theorem qAccept_closeSent : (qAccept x id v).closeSent = x.closeSent := by simp [qAccept]
theorem qAccept_broken : (qAccept x id v).broken = (registerAll (dataPre x id v) v.chans).broken := rfl
theorem qAccept_chans_ne {j : Nat} (h : j ≠ id) :
    (qAccept x id v).chans j = (registerAll (dataPre x id v) v.chans).chans j := by
  simp [qAccept, upd_ne, h]
end qAccept

section handle
variable (fails : Item → Bool) (x : SideSt) (w : Bool)

theorem handle_data_cb {id : Nat} (v : Item) {w' : Bool} (h : x.cbs id = some w') :
    handle fails x w (.data id v) =
      if fails v then
        if x.ioOpen then localClose (failOut (cbAccept x id v) id v.val) id (some v.val) false
        else epilogue (cbAccept x id v) false
      else cbAccept x id v := by
  have h0 : handle fails x w (.data id v) =
      if fails v then
        if (cbAccept x id v).ioOpen then localClose (failOut (cbAccept x id v) id v.val) id (some v.val) false
        else epilogue (cbAccept x id v) false
      else cbAccept x id v := by
    simp only [handle, h]; rfl
  rw [h0, cbAccept_ioOpen]

theorem handle_data_q {id : Nat} (v : Item) {q : List QItem} (h : x.cbs id = none)
    (hr : (x.chans id).registered = true) (hq : (x.chans id).queue = some q) :
    handle fails x w (.data id v) = qAccept x id v := by
  simp only [handle, h, hr, hq]; rfl

theorem handle_data_drop {id : Nat} (v : Item) (h : x.cbs id = none)
    (hq : ¬ ((x.chans id).registered = true ∧ ∃ q, (x.chans id).queue = some q)) :
    handle fails x w (.data id v) = { dataPre x id v with dropped := upd x.dropped id true } := by
  simp only [handle, h]
  split
  · rename_i q hr hq'; exact absurd ⟨hr, q, hq'⟩ hq
  · rfl

/-- case analysis for a DATA frame -/
theorem handle_data_cases (id : Nat) (v : Item) (P : SideSt → Prop)
    (hcb : ∀ w', x.cbs id = some w' → fails v = true → x.ioOpen = true →
      P (localClose (failOut (cbAccept x id v) id v.val) id (some v.val) false))
    (hcbE : ∀ w', x.cbs id = some w' → fails v = true → x.ioOpen = false →
      P (epilogue (cbAccept x id v) false))
    (hcb' : ∀ w', x.cbs id = some w' → fails v = false → P (cbAccept x id v))
    (hq : ∀ q, x.cbs id = none → (x.chans id).registered = true → (x.chans id).queue = some q →
      P (qAccept x id v))
    (hd : x.cbs id = none → ¬ ((x.chans id).registered = true ∧ ∃ q, (x.chans id).queue = some q) →
      P { dataPre x id v with dropped := upd x.dropped id true }) :
    P (handle fails x w (.data id v)) := by
  cases hc : x.cbs id with
  | some w' =>
    rw [handle_data_cb fails x w v hc]
    cases hf : fails v with
    | true =>
      cases hio : x.ioOpen with
      | true => simpa using hcb w' hc hf hio
      | false => simpa using hcbE w' hc hf hio
    | false => simpa using hcb' w' hc hf
  | none =>
    by_cases hh : (x.chans id).registered = true ∧ ∃ q, (x.chans id).queue = some q
    · obtain ⟨hr, q, hq'⟩ := hh
      rw [handle_data_q fails x w v hc hr hq']; exact hq q hc hr hq'
    · rw [handle_data_drop fails x w v hc hh]; exact hd hc hh

/-- the frame ends the receiver thread: GATEWAY_TERMINATE, or a DATA frame whose callback fails while
the IO is already closed (the CLOSE_ERROR cannot be written; the OSError escapes the handler) -/
def endsReceiver (fails : Item → Bool) (x : SideSt) : Frame → Bool
  | .terminate => true
  | .data id v => (x.cbs id).isSome && fails v && !x.ioOpen
  | _ => false

theorem endsReceiver_false_of_ioOpen {f : Frame} (hf : f ≠ .terminate) (hio : x.ioOpen = true) :
    endsReceiver fails x f = false := by
  cases f <;> simp_all [endsReceiver]

/-- a receiver-ending frame runs the epilogue (after the callback bookkeeping of a DATA frame) -/
theorem handle_of_endsReceiver (f : Frame) (he : endsReceiver fails x f = true) :
    handle fails x w f = epilogue x false ∨
    ∃ id v, f = .data id v ∧ handle fails x w f = epilogue (cbAccept x id v) false := by
  cases f with
  | terminate => left; rfl
  | data id v =>
    right
    simp only [endsReceiver, Bool.and_eq_true, Bool.not_eq_true', Option.isSome_iff_exists] at he
    obtain ⟨⟨⟨w', hc⟩, hf⟩, hio⟩ := he
    exact ⟨id, v, rfl, by rw [handle_data_cb fails x w v hc, if_pos hf, if_neg (by simp [hio])]⟩
  | close id => simp [endsReceiver] at he
  | closeErr id e => simp [endsReceiver] at he
  | lastMsg id => simp [endsReceiver] at he
  | exec id => simp [endsReceiver] at he

theorem handle_finished (f : Frame) (hf : endsReceiver fails x f = false) :
    (handle fails x w f).finished = x.finished := by
  cases f with
  | data id v =>
    apply handle_data_cases fails x w id v (fun y => y.finished = x.finished)
    case hcbE => intro w' hc hfv hio; simp [endsReceiver, hc, hfv, hio] at hf
    all_goals intros
    all_goals simp [cbAccept, failOut, qAccept, dataPre]
  | close id => simp [handle]
  | closeErr id e => simp [handle]
  | lastMsg id => simp [handle]
  | exec id => simp only [handle]; split <;> simp
  | terminate => simp [endsReceiver] at hf

theorem handle_finished_true (f : Frame) (hf : endsReceiver fails x f = true) :
    (handle fails x w f).finished = true := by
  rcases handle_of_endsReceiver fails x w f hf with h | ⟨_, _, _, h⟩ <;> rw [h] <;> rfl

theorem handle_ioOpen (f : Frame) (hf : endsReceiver fails x f = false) :
    (handle fails x w f).ioOpen = x.ioOpen := by
  cases f with
  | data id v =>
    apply handle_data_cases fails x w id v (fun y => y.ioOpen = x.ioOpen)
    case hcbE => intro w' hc hfv hio; simp [endsReceiver, hc, hfv, hio] at hf
    all_goals intros
    all_goals simp [cbAccept, failOut, qAccept, dataPre]
  | close id => simp [handle]
  | closeErr id e => simp [handle]
  | lastMsg id => simp [handle]
  | exec id => simp only [handle]; split <;> simp
  | terminate => simp [endsReceiver] at hf

/-- no frame changes the remembered connection error (only `cut` does) -/
theorem handle_gwerr (f : Frame) : (handle fails x w f).gwerr = x.gwerr := by
  cases f with
  | data id v =>
    apply handle_data_cases fails x w id v (fun y => y.gwerr = x.gwerr) <;> intros <;>
      simp [cbAccept, failOut, qAccept, dataPre]
  | close id => simp [handle]
  | closeErr id e => simp [handle]
  | lastMsg id => simp [handle]
  | exec id => simp only [handle]; split <;> simp
  | terminate => simp [handle]

end handle

end ExecnetVerif.Net.CP
