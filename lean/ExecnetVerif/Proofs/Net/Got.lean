/-
G4 `GotInv`: what the user got plus what is still queued is what the receiver kept (a sublist of it
once the id has been re-opened or its callback raised), and the corollaries C03 (EOF is sticky) and
C07 (errors only after all kept items).

`GotInv` alone is not inductive (a DATA frame handled in callback mode appends to `got` *behind* the
queued items), the auxiliary clause `GotInvAux` — a registered callback means no queued items — is
needed; `GotInvAux` is inductive on its own.
-/
import ExecnetVerif.Proofs.Net.Shape
namespace ExecnetVerif.Net
open SP

/-- auxiliary clause: while a callback is registered for the id no item is queued -/
def GotInvAux (st : State) : Prop :=
  ∀ (p : Side) (id : Nat), (st.side p).cbs id ≠ none → queueItems ((st.side p).chans id).queue = []

/-! ### `drain` -/

theorem drain_sublist (fails : Item → Bool) (q : List QItem) :
    List.Sublist (drain fails q).1 (qItems q) := by
  induction q with
  | nil => simp [drain, qItems]
  | cons a t ih =>
    cases a with
    | endmarker => simp [drain]
    | item v =>
      simp only [drain, qItems]
      split
      · simp
      · simpa using ih

/-- on a shaped queue (nothing follows an ENDMARKER) a drain that did not raise hands over every
queued item -/
theorem drain_eq_of_shape (fails : Item → Bool) {q : List QItem} {rc : Bool} (h : QShape q rc)
    (hr : (drain fails q).2.1 = false) : (drain fails q).1 = qItems q := by
  induction q with
  | nil => simp [drain, qItems]
  | cons a t ih =>
    cases a with
    | endmarker => rw [h.qItems_head_end]; simp [drain]
    | item v =>
      simp only [drain, qItems] at hr ⊢
      split
      · next hf => simp [hf] at hr
      · next hf =>
        simp only [hf] at hr
        simpa using ih h.tail_item hr

/-! ### the invariant for one id of one side -/

/-- `GotInv` and `GotInvAux` for one id of one side -/
def GotAt (x : SideSt) (i : Nat) : Prop :=
  List.Sublist (x.got i ++ queueItems (x.chans i).queue) (x.kept i) ∧
  (x.broken i = false → x.got i ++ queueItems (x.chans i).queue = x.kept i) ∧
  (x.cbs i ≠ none → queueItems (x.chans i).queue = [])

def SideGot (x : SideSt) : Prop := ∀ i, GotAt x i

theorem gotInv_iff (st : State) : (GotInv st ∧ GotInvAux st) ↔ ∀ p, SideGot (st.side p) := by
  constructor
  · rintro ⟨h1, h2⟩ p i
    exact ⟨(h1 p i).1, (h1 p i).2, h2 p i⟩
  · intro h
    exact ⟨fun p i => ⟨(h p i).1, (h p i).2.1⟩, fun p i => (h p i).2.2⟩

/-- the total `got ++ queued` shrinks to a sublist (equal unless `broken`), `kept` is unchanged -/
theorem gotAt_of_sublist {x y : SideSt} {i : Nat} (h : GotAt x i)
    (hs : List.Sublist (y.got i ++ queueItems (y.chans i).queue) (x.got i ++ queueItems (x.chans i).queue))
    (hk : y.kept i = x.kept i)
    (hb : y.broken i = false → x.broken i = false ∧
      y.got i ++ queueItems (y.chans i).queue = x.got i ++ queueItems (x.chans i).queue)
    (hc : y.cbs i ≠ none → queueItems (y.chans i).queue = []) : GotAt y i := by
  refine ⟨?_, ?_, hc⟩
  · rw [hk]; exact hs.trans h.1
  · intro hb'
    rw [hk, (hb hb').2]; exact h.2.1 (hb hb').1

/-- the queue loses items (or keeps them), everything else is as before -/
theorem gotAt_mono {x y : SideSt} {i : Nat} (h : GotAt x i)
    (hg : y.got i = x.got i) (hk : y.kept i = x.kept i)
    (hq : List.Sublist (queueItems (y.chans i).queue) (queueItems (x.chans i).queue))
    (hb : y.broken i = false → x.broken i = false ∧
      queueItems (y.chans i).queue = queueItems (x.chans i).queue)
    (hc : y.cbs i ≠ none → x.cbs i ≠ none) : GotAt y i := by
  refine gotAt_of_sublist h ?_ hk ?_ ?_
  · rw [hg]; exact List.Sublist.append_left hq _
  · intro hb'; rw [hg, (hb hb').2]; exact ⟨(hb hb').1, rfl⟩
  · intro hc'
    have := h.2.2 (hc hc')
    rw [this] at hq
    exact List.sublist_nil.mp hq

theorem sideGot_congr {x y : SideSt} (h : SideGot x) (h1 : y.chans = x.chans) (h2 : y.got = x.got)
    (h3 : y.kept = x.kept) (h4 : y.broken = x.broken) (h5 : y.cbs = x.cbs) : SideGot y := by
  intro i
  have := h i
  unfold GotAt at this ⊢
  rw [h1, h2, h3, h4, h5]; exact this

/-! ### helpers preserve `SideGot` -/

theorem sideGot_createAt {x : SideSt} (hs : SideShape x) (h : SideGot x) (id : Nat) :
    SideGot (createAt x id) := by
  intro i
  by_cases hi : i = id
  · subst hi
    by_cases hr : (x.chans i).registered = true
    · refine gotAt_mono (h i) rfl rfl ?_ ?_ (fun hc => hc)
      · rw [createAt_chans_of_registered x i i hr]; exact List.Sublist.refl _
      · intro hb
        rw [createAt_broken_of_registered x i i hr] at hb
        rw [createAt_chans_of_registered x i i hr]; exact ⟨hb, rfl⟩
    · have hr : (x.chans i).registered = false := by simpa using hr
      have hq : queueItems ((createAt x i).chans i).queue = [] := by
        rw [createAt_chans, if_pos rfl, createChan_of_not_registered hr]; rfl
      refine gotAt_mono (h i) rfl rfl ?_ ?_ (fun hc => hc)
      · rw [hq]; exact List.nil_sublist _
      · intro hb
        rw [createAt_broken, if_pos rfl, hr] at hb
        simp only [Bool.not_false, Bool.and_true, Bool.or_eq_false_iff] at hb
        refine ⟨hb.1, ?_⟩
        rw [hq, ((hs i).2.2.2.2.2.2 hb.2.1).1]; rfl
  · refine gotAt_mono (h i) rfl rfl ?_ ?_ (fun hc => hc)
    · rw [createAt_chans, if_neg hi]; exact List.Sublist.refl _
    · intro hb
      rw [createAt_broken, if_neg hi] at hb
      rw [createAt_chans, if_neg hi]; exact ⟨hb, rfl⟩

theorem sideGot_registerAll {x : SideSt} (hs : SideShape x) (h : SideGot x) (ids : List Nat) :
    SideGot (registerAll x ids) :=
  (registerAll_induction (P := fun y => SideShape y ∧ SideGot y)
    (fun _ id hy => ⟨sideShape_createAt hy.1 id, sideGot_createAt hy.1 hy.2 id⟩) x ids ⟨hs, h⟩).2

theorem queueItems_closedRec (c : Chan) (err : Option Nat) (so : Bool) :
    queueItems (closedRec c err so).queue = queueItems c.queue := queueItems_pushEnd _
theorem queueItems_userClosedRec (c : Chan) :
    queueItems (userClosedRec c).queue = queueItems c.queue := queueItems_pushEnd _
theorem queueItems_eofRec (c : Chan) :
    queueItems (eofRec c).queue = queueItems c.queue := queueItems_pushEnd _

theorem localClose_queueItems (x : SideSt) (id : Nat) (err : Option Nat) (so : Bool) (i : Nat) :
    queueItems ((localClose x id err so).chans i).queue = queueItems (x.chans i).queue := by
  rw [localClose_chans]; split
  · next hi =>
    subst hi; split
    · exact queueItems_closedRec _ _ _
    · rfl
  · rfl

theorem sideGot_localClose {x : SideSt} (h : SideGot x) (id : Nat) (err : Option Nat) (so : Bool) :
    SideGot (localClose x id err so) := by
  intro i
  refine gotAt_mono (h i) (by simp) (by simp) ?_ ?_ ?_
  · rw [localClose_queueItems]; exact List.Sublist.refl _
  · intro hb; rw [localClose_queueItems]; exact ⟨by simpa using hb, rfl⟩
  · rw [localClose_cbs, upd_apply]; split
    · intro hc; exact absurd rfl hc
    · exact fun hc => hc

theorem chanClose_queueItems (x : SideSt) (id : Nat) (err : Option Nat) (i : Nat) :
    queueItems ((chanClose x id err).2.chans i).queue = queueItems (x.chans i).queue := by
  rcases chanClose_chans x id err i with h | ⟨hi, h⟩ <;> rw [h]
  subst hi; exact queueItems_userClosedRec _

theorem sideGot_chanClose {x : SideSt} (h : SideGot x) (id : Nat) (err : Option Nat) :
    SideGot (chanClose x id err).2 := by
  intro i
  refine gotAt_mono (h i) (by simp) (by simp) ?_ ?_ ?_
  · rw [chanClose_queueItems]; exact List.Sublist.refl _
  · intro hb; rw [chanClose_queueItems]; exact ⟨by simpa using hb, rfl⟩
  · rcases chanClose_cbs x id err with hc | hc <;> rw [hc]
    · exact fun hc => hc
    · rw [upd_apply]; split
      · intro hc; exact absurd rfl hc
      · exact fun hc => hc

theorem epilogue_queueItems (x : SideSt) (b : Bool) (i : Nat) :
    queueItems ((epilogue x b).chans i).queue = queueItems (x.chans i).queue := by
  rw [epilogue_chans]; split
  · exact queueItems_eofRec _
  · rfl

theorem sideGot_epilogue {x : SideSt} (h : SideGot x) (b : Bool) : SideGot (epilogue x b) := by
  intro i
  refine gotAt_mono (h i) rfl rfl ?_ ?_ ?_
  · rw [epilogue_queueItems]; exact List.Sublist.refl _
  · intro hb; rw [epilogue_queueItems]; exact ⟨hb, rfl⟩
  · intro hc; exact absurd rfl hc

/-- one record is replaced by one with the same queued items -/
theorem sideGot_updChan {x y : SideSt} (h : SideGot x) {id : Nat} {c : Chan}
    (h1 : y.chans = upd x.chans id c) (hq : queueItems c.queue = queueItems (x.chans id).queue)
    (h2 : y.got = x.got) (h3 : y.kept = x.kept) (h4 : y.broken = x.broken) (h5 : y.cbs = x.cbs) :
    SideGot y := by
  intro i
  have hqi : queueItems (y.chans i).queue = queueItems (x.chans i).queue := by
    rw [h1, upd_apply]; split
    · next hi => subst hi; exact hq
    · rfl
  refine gotAt_mono (h i) (by rw [h2]) (by rw [h3]) (by rw [hqi]; exact List.Sublist.refl _) ?_ ?_
  · intro hb; rw [h4] at hb; exact ⟨hb, hqi⟩
  · rw [h5]; exact fun hc => hc

/-- a DATA frame handled in callback mode -/
theorem sideGot_cbData {x y : SideSt} (h : SideGot x) {id : Nat} (v : Item) (hcb : x.cbs id ≠ none)
    (h1 : y.chans = x.chans) (h2 : y.got = upd x.got id (x.got id ++ [v]))
    (h3 : y.kept = upd x.kept id (x.kept id ++ [v])) (h4 : y.broken = x.broken) (h5 : y.cbs = x.cbs) :
    SideGot y := by
  intro i
  obtain ⟨g1, g2, g3⟩ := h i
  unfold GotAt
  rw [h1, h2, h3, h4, h5]
  by_cases hi : i = id
  · subst hi
    have hq := g3 hcb
    rw [hq] at g1 g2 ⊢
    simp only [upd_same, List.append_nil] at g1 g2 ⊢
    exact ⟨List.Sublist.append g1 (List.Sublist.refl _), fun hb => by rw [g2 hb], fun _ => trivial⟩
  · rw [upd_ne _ _ hi, upd_ne _ _ hi]; exact ⟨g1, g2, g3⟩

/-- a DATA frame appended to the queue -/
theorem sideGot_qData {x y : SideSt} (h : SideGot x) {id : Nat} (v : Item) {c : Chan}
    (hcb : x.cbs id = none) (h1 : y.chans = upd x.chans id c)
    (hq : queueItems c.queue = queueItems (x.chans id).queue ++ [v])
    (h2 : y.got = x.got) (h3 : y.kept = upd x.kept id (x.kept id ++ [v]))
    (h4 : y.broken = x.broken) (h5 : y.cbs = x.cbs) : SideGot y := by
  intro i
  obtain ⟨g1, g2, g3⟩ := h i
  unfold GotAt
  rw [h1, h2, h3, h4, h5]
  by_cases hi : i = id
  · subst hi
    simp only [upd_same, hq, ← List.append_assoc]
    exact ⟨List.Sublist.append g1 (List.Sublist.refl _), fun hb => by rw [g2 hb],
      fun hc => absurd hcb hc⟩
  · rw [upd_ne _ _ hi, upd_ne _ _ hi]; exact ⟨g1, g2, g3⟩

theorem queueItems_map_push (q : Option (List QItem)) (q0 : List QItem) (v : Item) (h : q = some q0) :
    queueItems (q.map (· ++ [QItem.item v])) = queueItems q ++ [v] := by
  subst h; simp [qItems_append, qItems]

theorem sideGot_handle {x : SideSt} (hs : SideShape x) (h : SideGot x) (fails : Item → Bool) (w : Bool)
    (f : Frame) : SideGot (handle fails x w f) := by
  cases f with
  | data id v =>
    have hs1 : SideShape { x with delivered := upd x.delivered id (x.delivered id ++ [v]) } :=
      sideShape_congr rfl hs
    have h1 : SideGot { x with delivered := upd x.delivered id (x.delivered id ++ [v]) } :=
      sideGot_congr h rfl rfl rfl rfl rfl
    have h2 := sideGot_registerAll hs1 h1 v.chans
    simp only [handle]
    split
    · next w' hcb =>
      have hcb' : (registerAll { x with delivered := upd x.delivered id (x.delivered id ++ [v]) } v.chans).cbs id ≠ none := by
        rw [registerAll_cbs]; simp only []; rw [hcb]; simp
      split
      · split
        · exact sideGot_localClose (by exact sideGot_cbData h2 v hcb' rfl rfl rfl rfl rfl) _ _ _
        · exact sideGot_epilogue (by exact sideGot_cbData h2 v hcb' rfl rfl rfl rfl rfl) false
      · exact sideGot_cbData h2 v hcb' rfl rfl rfl rfl rfl
    · next hcb =>
      split
      · next q hr hq =>
        have hreg := (registerAll_of_registered { x with delivered := upd x.delivered id (x.delivered id ++ [v]) } v.chans id hr).1
        refine sideGot_qData h2 v (by rw [registerAll_cbs]; exact hcb) rfl ?_ rfl rfl rfl rfl
        exact queueItems_map_push _ q v (by rw [hreg]; exact hq)
      · exact sideGot_congr h rfl rfl rfl rfl rfl
  | close id => exact sideGot_localClose (by exact sideGot_congr h rfl rfl rfl rfl rfl) _ _ _
  | closeErr id e => exact sideGot_localClose (by exact sideGot_congr h rfl rfl rfl rfl rfl) _ _ _
  | lastMsg id => exact sideGot_localClose (by exact sideGot_congr h rfl rfl rfl rfl rfl) _ _ _
  | exec id =>
    simp only [handle]
    split
    · exact sideGot_updChan (sideGot_createAt hs h id) rfl rfl rfl rfl rfl rfl
    · exact h
  | terminate => exact sideGot_epilogue h false

/-- `receive` hands over the head item -/
theorem sideGot_receiveItem {x y : SideSt} (h : SideGot x) {id : Nat} {v : Item} {q : List QItem}
    {c : Chan} (hq : (x.chans id).queue = some (.item v :: q)) (h1 : y.chans = upd x.chans id c)
    (hc : c.queue = some q) (h2 : y.got = upd x.got id (x.got id ++ [v])) (h3 : y.kept = x.kept)
    (h4 : y.broken = x.broken) (h5 : y.cbs = x.cbs) : SideGot y := by
  intro i
  by_cases hi : i = id
  · subst hi
    have htot : y.got i ++ queueItems (y.chans i).queue = x.got i ++ queueItems (x.chans i).queue := by
      rw [h1, h2, upd_same, upd_same, hc, hq]; simp [qItems]
    refine gotAt_of_sublist (h i) (by rw [htot]; exact List.Sublist.refl _) (by rw [h3]) ?_ ?_
    · intro hb; rw [h4] at hb; exact ⟨hb, htot⟩
    · intro hcb
      rw [h5] at hcb
      have := (h i).2.2 hcb
      rw [hq] at this; simp [qItems] at this
  · refine gotAt_mono (h i) (by rw [h2, upd_ne _ _ hi]) (by rw [h3]) ?_ ?_ (by rw [h5]; exact fun hc => hc)
    · rw [h1, upd_ne _ _ hi]; exact List.Sublist.refl _
    · intro hb; rw [h4] at hb; rw [h1, upd_ne _ _ hi]; exact ⟨hb, rfl⟩

/-- `setcallback` drains the queue -/
theorem sideGot_drain {x y : SideSt} (h : SideGot x) {id : Nat} {q : List QItem} {vs : List Item}
    {c : Chan} (hq : (x.chans id).queue = some q) (hvs : List.Sublist vs (qItems q))
    (h1 : y.chans = upd x.chans id c) (hc : c.queue = none)
    (h2 : y.got = upd x.got id (x.got id ++ vs)) (h3 : y.kept = x.kept)
    (h4 : ∀ i, y.broken i = false → x.broken i = false ∧ (i = id → vs = qItems q))
    (h5 : ∀ i, i ≠ id → y.cbs i = x.cbs i) : SideGot y := by
  intro i
  by_cases hi : i = id
  · subst hi
    have hy : y.got i ++ queueItems (y.chans i).queue = x.got i ++ vs := by
      rw [h1, h2, upd_same, upd_same, hc]; simp
    have hx : x.got i ++ queueItems (x.chans i).queue = x.got i ++ qItems q := by rw [hq]; rfl
    refine gotAt_of_sublist (h i) ?_ (by rw [h3]) ?_ ?_
    · rw [hy, hx]; exact List.Sublist.append_left hvs _
    · intro hb; rw [hy, hx, (h4 i hb).2 rfl]; exact ⟨(h4 i hb).1, rfl⟩
    · intro _; rw [h1, upd_same, hc]; rfl
  · refine gotAt_mono (h i) (by rw [h2, upd_ne _ _ hi]) (by rw [h3]) ?_ ?_ (by rw [h5 i hi]; exact fun hc => hc)
    · rw [h1, upd_ne _ _ hi]; exact List.Sublist.refl _
    · intro hb; rw [h1, upd_ne _ _ hi]; exact ⟨(h4 i hb).1, rfl⟩

/-! ### every step preserves `GotInv ∧ GotInvAux` -/

/-- `GotInv ∧ GotInvAux`, per side -/
def GotBoth (st : State) : Prop := ∀ p, SideGot (st.side p)

theorem GotBoth.set {st : State} (h : GotBoth st) (s : Side) {x : SideSt} (hx : SideGot x) :
    GotBoth (st.set s x) := by
  intro p; rw [State.side_set]; split
  · exact hx
  · exact h p

theorem GotBoth.set_congr {st : State} (h : GotBoth st) (s : Side) {x : SideSt}
    (h1 : x.chans = (st.side s).chans) (h2 : x.got = (st.side s).got) (h3 : x.kept = (st.side s).kept)
    (h4 : x.broken = (st.side s).broken) (h5 : x.cbs = (st.side s).cbs) : GotBoth (st.set s x) :=
  h.set s (sideGot_congr (h s) h1 h2 h3 h4 h5)

theorem GotBoth_step (fails : Item → Bool) (st : State) (op : Op) (hs : ShapeInv st) (h : GotBoth st) :
    GotBoth (step fails st op).2 := by
  cases op with
  | newchannel s =>
    simp only [step]; split
    · exact h
    · exact h.set s (sideGot_congr (sideGot_createAt (hs s) (h s) _) rfl rfl rfl rfl rfl)
  | remoteExec =>
    simp only [step]; split
    · exact h
    · split
      · exact h.set_congr .A rfl rfl rfl rfl rfl
      · exact h.set .A (sideGot_congr (sideGot_createAt (hs .A) (h .A) _) rfl rfl rfl rfl rfl)
  | send s id v =>
    simp only [step]
    split; · exact h
    split; · exact h
    split; · exact h
    exact h.set_congr s rfl rfl rfl rfl rfl
  | close s id err =>
    simp only [step]
    split; · exact h
    exact h.set s (sideGot_chanClose (h s) id err)
  | receive s id =>
    simp only [step]
    split; · exact h
    split
    · exact h
    · exact h
    · next v q hq => exact h.set s (sideGot_receiveItem (h s) hq rfl rfl rfl rfl rfl rfl)
    · next q hq =>
      have hqi : queueItems (some (q ++ [QItem.endmarker])) = queueItems ((st.side s).chans id).queue := by
        rw [hq]; simp [qItems_append, qItems]
      split
      · exact h.set s (sideGot_updChan (h s) rfl hqi rfl rfl rfl rfl)
      · exact h.set s (sideGot_updChan (h s) rfl hqi rfl rfl rfl rfl)
  | waitclose s id =>
    simp only [step]
    split; · exact h
    split; · exact h
    split
    · exact h.set s (sideGot_updChan (h s) rfl rfl rfl rfl rfl rfl)
    · split <;> exact h
  | setcallback s id w =>
    simp only [step]
    split; · exact h
    split
    · exact h
    · next q hq =>
      have hsub := drain_sublist fails q
      have heq := drain_eq_of_shape fails ((hs s id).1 q hq)
      generalize drain fails q = d at hsub heq
      obtain ⟨vs, raised, sawEnd⟩ := d
      simp only at hsub heq ⊢
      have hb : raised = false → ∀ i, (st.side s).broken i = false →
          (st.side s).broken i = false ∧ (i = id → vs = qItems q) :=
        fun hr i hb => ⟨hb, fun _ => heq hr⟩
      split
      · refine h.set s (sideGot_drain (h s) hq hsub rfl rfl rfl rfl ?_ (fun _ _ => rfl))
        intro i hb'
        simp only [upd_apply] at hb'
        split at hb'
        · cases hb'
        · next hi => exact ⟨hb', fun h => absurd h hi⟩
      · next hr =>
        have hr : raised = false := by simpa using hr
        split
        · exact h.set s (sideGot_drain (h s) hq hsub rfl rfl rfl rfl (hb hr) (fun _ _ => rfl))
        · split
          · exact h.set s (sideGot_drain (h s) hq hsub rfl rfl rfl rfl (hb hr) (fun _ _ => rfl))
          · refine h.set s (sideGot_drain (h s) hq hsub rfl rfl rfl rfl (hb hr) ?_)
            intro i hi; simp only [upd_ne _ _ hi]
  | drop s id =>
    simp only [step]
    split; · exact h
    split
    · exact h.set s (sideGot_updChan (h s) rfl rfl rfl rfl rfl rfl)
    · exact h.set s (sideGot_updChan (h s) rfl rfl rfl rfl rfl rfl)
  | isclosed s id =>
    simp only [step]; split <;> exact h
  | deliver p =>
    simp only [step]
    split; · exact h
    split; · exact h
    next f rest hout =>
    have hs1 : ShapeInv (st.set p.peer { st.side p.peer with out := rest }) := hs.set_congr p.peer rfl
    have h1 : GotBoth (st.set p.peer { st.side p.peer with out := rest }) :=
      h.set_congr p.peer rfl rfl rfl rfl rfl
    have h2 := h1.set p (sideGot_handle (hs1 p) (h1 p) fails (p == .B) f)
    split
    · exact h2.set_congr p.peer rfl rfl rfl rfl rfl
    · exact h2
  | execFinish id o =>
    simp only [step]
    split; · exact h
    have hx : SideGot { st.b with chans := upd st.b.chans id { st.b.chans id with executing := false } } :=
      sideGot_updChan (h .B) rfl rfl rfl rfl rfl rfl
    exact h.set .B (sideGot_chanClose hx id _)
  | cut p =>
    simp only [step]
    split; · exact h
    exact (h.set p (sideGot_epilogue (h p) true)).set_congr p.peer rfl rfl rfl rfl rfl

theorem GotBoth_init : GotBoth init := by
  intro p i
  cases p <;> exact ⟨List.Sublist.refl _, fun _ => rfl, fun h => absurd rfl h⟩

theorem GotBoth_reachable {fails : Item → Bool} {st : State} (h : Reachable fails st) : GotBoth st :=
  Reachable.induction (P := GotBoth) GotBoth_init
    (fun st op hr hg => GotBoth_step fails st op (ShapeInv_reachable hr) hg) st h

/-- combined step form -/
theorem GotInv_step' (fails : Item → Bool) (st : State) (op : Op) :
    ShapeInv st → GotInv st ∧ GotInvAux st →
      GotInv (step fails st op).2 ∧ GotInvAux (step fails st op).2 := by
  intro hs h
  exact (gotInv_iff _).2 (GotBoth_step fails st op hs ((gotInv_iff st).1 h))

/-- every step preserves `GotInv`, given the record shape and the auxiliary clause -/
theorem GotInv_step (fails : Item → Bool) (st : State) (op : Op) :
    ShapeInv st → GotInvAux st → GotInv st → GotInv (step fails st op).2 :=
  fun hs ha hg => (GotInv_step' fails st op hs ⟨hg, ha⟩).1

theorem GotInvAux_step (fails : Item → Bool) (st : State) (op : Op) :
    ShapeInv st → GotInv st → GotInvAux st → GotInvAux (step fails st op).2 :=
  fun hs hg ha => (GotInv_step' fails st op hs ⟨hg, ha⟩).2

theorem GotInv_reachable {fails : Item → Bool} {st : State} (h : Reachable fails st) : GotInv st :=
  ((gotInv_iff st).2 (GotBoth_reachable h)).1

theorem GotInvAux_reachable {fails : Item → Bool} {st : State} (h : Reachable fails st) :
    GotInvAux st :=
  ((gotInv_iff st).2 (GotBoth_reachable h)).2

/-! ### C07: an error is only returned after every kept item was obtained -/

/-- `receive` answers with an error only when the head of the queue is an ENDMARKER -/
theorem receive_error_head {fails : Item → Bool} {st : State} {p : Side} {id : Nat}
    (h : (step fails st (.receive p id)).1 = .eofError ∨
      ∃ e, (step fails st (.receive p id)).1 = .remoteError e) :
    ∃ q, ((st.side p).chans id).queue = some (.endmarker :: q) := by
  simp only [step] at h
  split at h
  · simp at h
  · split at h
    · simp at h
    · simp at h
    · simp at h
    · next q hq => exact ⟨q, hq⟩

theorem got_eq_kept_of_head_end {st : State} {p : Side} {id : Nat} {q : List QItem}
    (hs : ShapeInv st) (hg : GotInv st) (hq : ((st.side p).chans id).queue = some (.endmarker :: q))
    (hb : (st.side p).broken id = false) : (st.side p).got id = (st.side p).kept id := by
  have h1 := (hg p id).2 hb
  have h2 := QShape.qItems_head_end ((hs p id).1 _ hq)
  simp only [hq, queueItems_some, h2, List.append_nil] at h1
  exact h1

theorem C07_error_after_items {fails : Item → Bool} {st : State} {p : Side} {id : Nat} {e : Nat} :
    ShapeInv st → GotInv st → (step fails st (.receive p id)).1 = .remoteError e →
      (st.side p).broken id = false → (st.side p).got id = (st.side p).kept id := by
  intro hs hg hr hb
  obtain ⟨q, hq⟩ := receive_error_head (.inr ⟨e, hr⟩)
  exact got_eq_kept_of_head_end hs hg hq hb

theorem C07_eof_after_items {fails : Item → Bool} {st : State} {p : Side} {id : Nat} :
    ShapeInv st → GotInv st → (step fails st (.receive p id)).1 = .eofError →
      (st.side p).broken id = false → (st.side p).got id = (st.side p).kept id := by
  intro hs hg hr hb
  obtain ⟨q, hq⟩ := receive_error_head (.inl hr)
  exact got_eq_kept_of_head_end hs hg hq hb

/-! ### C03: EOF is sticky -/

/-- the receiver has seen the end of the channel: callback mode, or only ENDMARKERs are queued -/
def noMoreItems (c : Chan) : Prop :=
  c.queue = none ∨ ∃ k, 1 ≤ k ∧ c.queue = some (List.replicate k .endmarker)

theorem noMoreItems_congr {c c' : Chan} (hq : c'.queue = c.queue) (h : noMoreItems c) :
    noMoreItems c' := by
  unfold noMoreItems; rw [hq]; exact h

theorem noMoreItems_pushEnd {c c' : Chan} (hq : c'.queue = pushEnd c.queue) (h : noMoreItems c) :
    noMoreItems c' := by
  unfold noMoreItems; rw [hq]
  rcases h with h | ⟨k, hk, h⟩
  · left; rw [h]; rfl
  · right; exact ⟨k + 1, by omega, by rw [h]; simp [pushEnd, List.replicate_succ']⟩

theorem noMoreItems_of_none {c : Chan} (hq : c.queue = none) : noMoreItems c := .inl hq

/-- a well-shaped registered record at its end is in callback mode -/
theorem noMoreItems_registered {c : Chan} (h : noMoreItems c) (hs : c.Shape)
    (hr : c.registered = true) : c.queue = none := by
  rcases h with h | ⟨k, hk, h⟩
  · exact h
  · obtain ⟨items, k', he, hk'⟩ := hs.1 _ h
    have h0 : k' = 0 := hk'.2 (hs.2.2.1 hr).2.2.2
    subst h0
    cases k with
    | zero => omega
    | succ k => cases items <;> simp [List.replicate_succ] at he

theorem noMoreItems_created {c : Chan} (h : noMoreItems c) (hs : c.Shape) : c.created = true := by
  cases hc : c.created with
  | true => rfl
  | false =>
    have hq := (hs.2.2.2.2.2.2 hc).1
    rcases h with h | ⟨k, hk, h⟩
    · rw [hq] at h; cases h
    · rw [hq] at h
      cases k with
      | zero => omega
      | succ k => simp [List.replicate_succ] at h

/-- the end was seen on the id, or the id was re-opened -/
def NM (x : SideSt) (id : Nat) : Prop := noMoreItems (x.chans id) ∨ x.broken id = true

theorem nm_congr {x y : SideSt} {id : Nat} (h : NM x id) (h1 : y.chans = x.chans)
    (h2 : y.broken = x.broken) : NM y id := by
  unfold NM; rw [h1, h2]; exact h

/-- one record changes, `broken` only grows -/
theorem nm_upd {x y : SideSt} {id id' : Nat} {c : Chan} (h : NM x id)
    (h1 : y.chans = upd x.chans id' c) (h2 : ∀ i, x.broken i = true → y.broken i = true)
    (hc : id' = id → noMoreItems (x.chans id) → noMoreItems c) : NM y id := by
  rcases h with h | h
  · left; rw [h1, upd_apply]; split
    · next hi => exact hc hi.symm h
    · exact h
  · exact .inr (h2 _ h)

theorem nm_createAt {x : SideSt} {id : Nat} (hs : SideShape x) (h : NM x id) (k : Nat) :
    NM (createAt x k) id := by
  rcases h with h | h
  · by_cases hk : id = k
    · subst hk
      by_cases hr : (x.chans id).registered = true
      · left; rw [createAt_chans_of_registered x id id hr]; exact h
      · right
        rw [createAt_broken, if_pos rfl, noMoreItems_created h (hs id)]
        simp [hr]
    · left; rw [createAt_chans, if_neg hk]; exact h
  · exact .inr (createAt_broken_mono x k id h)

theorem nm_registerAll {x : SideSt} {id : Nat} (hs : SideShape x) (h : NM x id) (ids : List Nat) :
    NM (registerAll x ids) id :=
  (registerAll_induction (P := fun y => SideShape y ∧ NM y id)
    (fun _ k hy => ⟨sideShape_createAt hy.1 k, nm_createAt hy.1 hy.2 k⟩) x ids ⟨hs, h⟩).2

theorem nm_localClose {x : SideSt} {id : Nat} (h : NM x id) (k : Nat) (err : Option Nat) (so : Bool) :
    NM (localClose x k err so) id := by
  rcases h with h | h
  · left; rw [localClose_chans]; split
    · next hi =>
      subst hi; split
      · exact noMoreItems_pushEnd rfl h
      · exact noMoreItems_congr rfl h
    · exact h
  · right; simpa using h

theorem nm_chanClose {x : SideSt} {id : Nat} (h : NM x id) (k : Nat) (err : Option Nat) :
    NM (chanClose x k err).2 id := by
  rcases h with h | h
  · left
    rcases chanClose_chans x k err id with h1 | ⟨hi, h1⟩ <;> rw [h1]
    · exact h
    · subst hi; exact noMoreItems_pushEnd rfl h
  · right; simpa using h

theorem nm_epilogue {x : SideSt} {id : Nat} (h : NM x id) (b : Bool) : NM (epilogue x b) id := by
  rcases h with h | h
  · left; rw [epilogue_chans]; split
    · exact noMoreItems_pushEnd rfl h
    · exact h
  · exact .inr h

theorem nm_handle {x : SideSt} {id : Nat} (hs : SideShape x) (h : NM x id) (fails : Item → Bool)
    (w : Bool) (f : Frame) : NM (handle fails x w f) id := by
  cases f with
  | data k v =>
    have hs1 : SideShape { x with delivered := upd x.delivered k (x.delivered k ++ [v]) } :=
      sideShape_congr rfl hs
    have h1 : NM { x with delivered := upd x.delivered k (x.delivered k ++ [v]) } id := nm_congr h rfl rfl
    have h2 := nm_registerAll hs1 h1 v.chans
    simp only [handle]
    split
    · split
      · split
        · exact nm_localClose (by exact nm_congr h2 rfl rfl) _ _ _
        · exact nm_epilogue (by exact nm_congr h2 rfl rfl) false
      · exact nm_congr h2 rfl rfl
    · split
      · next q hr hq =>
        have hreg := registerAll_of_registered { x with delivered := upd x.delivered k (x.delivered k ++ [v]) } v.chans k hr
        refine nm_upd h2 rfl (fun _ hb => hb) ?_
        intro hk hn
        subst hk
        rw [hreg.1] at hn
        have := noMoreItems_registered hn (hs k) hr
        rw [hq] at this; cases this
      · exact nm_congr h rfl rfl
  | close k => exact nm_localClose (by exact nm_congr h rfl rfl) _ _ _
  | closeErr k e => exact nm_localClose (by exact nm_congr h rfl rfl) _ _ _
  | lastMsg k => exact nm_localClose (by exact nm_congr h rfl rfl) _ _ _
  | exec k =>
    simp only [handle]
    split
    · exact nm_upd (nm_createAt hs h k) rfl (fun _ hb => hb) (fun hk hn => by subst hk; exact noMoreItems_congr rfl hn)
    · exact h
  | terminate => exact nm_epilogue h false

theorem nm_set {st : State} {s p : Side} {x : SideSt} {id : Nat} (h : NM (st.side p) id)
    (hx : NM (st.side s) id → NM x id) : NM ((st.set s x).side p) id := by
  rw [State.side_set]; split
  · next hp => subst hp; exact hx h
  · exact h

theorem nm_step (fails : Item → Bool) (st : State) (op : Op) (hs : ShapeInv st) (p : Side) (id : Nat)
    (h : NM (st.side p) id) : NM ((step fails st op).2.side p) id := by
  cases op with
  | newchannel s =>
    simp only [step]; split
    · exact h
    · exact nm_set h fun h => nm_congr (nm_createAt (hs s) h _) rfl rfl
  | remoteExec =>
    simp only [step]; split
    · exact h
    · split
      · exact nm_set h fun h => nm_congr h rfl rfl
      · exact nm_set h fun h => nm_congr (nm_createAt (hs .A) h _) rfl rfl
  | send s k v =>
    simp only [step]
    split; · exact h
    split; · exact h
    split; · exact h
    exact nm_set h fun h => nm_congr h rfl rfl
  | close s k err =>
    simp only [step]
    split; · exact h
    exact nm_set h fun h => nm_chanClose h k err
  | receive s k =>
    simp only [step]
    split; · exact h
    split
    · exact h
    · exact h
    · next v q hq =>
      refine nm_set h fun h => nm_upd h rfl (fun _ hb => hb) ?_
      intro hk hn; subst hk
      rcases hn with hn | ⟨n, hn1, hn⟩
      · rw [hq] at hn; cases hn
      · rw [hq] at hn
        cases n with
        | zero => omega
        | succ n => simp [List.replicate_succ] at hn
    · next q hq =>
      have key : ∀ r, k = id → noMoreItems ((st.side s).chans id) →
          noMoreItems { (st.side s).chans k with queue := some (q ++ [.endmarker]), rerrs := r } := by
        intro r hk hn; subst hk
        rcases hn with hn | ⟨n, hn1, hn⟩
        · rw [hq] at hn; cases hn
        · rw [hq] at hn
          cases n with
          | zero => omega
          | succ n =>
            simp only [List.replicate_succ, Option.some.injEq, List.cons.injEq, true_and] at hn
            exact .inr ⟨n + 1, by omega, by simp [hn, List.replicate_succ']⟩
      split
      · exact nm_set h fun h => nm_upd h rfl (fun _ hb => hb) (key _)
      · next hr =>
        refine nm_set h fun h => nm_upd h rfl (fun _ hb => hb) ?_
        intro hk hn
        exact noMoreItems_congr rfl (key [] hk hn)
  | waitclose s k =>
    simp only [step]
    split; · exact h
    split; · exact h
    split
    · exact nm_set h fun h => nm_upd h rfl (fun _ hb => hb)
        (fun hk hn => by subst hk; exact noMoreItems_congr rfl hn)
    · split <;> exact h
  | setcallback s k w =>
    simp only [step]
    split; · exact h
    split
    · exact h
    · next q hq =>
      generalize drain fails q = d
      obtain ⟨vs, raised, sawEnd⟩ := d
      simp only
      split
      · refine nm_set h fun h => nm_upd h rfl ?_ (fun _ _ => noMoreItems_of_none rfl)
        intro i hb; simp only [upd_apply]; split
        · rfl
        · exact hb
      · split
        · exact nm_set h fun h => nm_upd h rfl (fun _ hb => hb) (fun _ _ => noMoreItems_of_none rfl)
        · split
          · exact nm_set h fun h => nm_upd h rfl (fun _ hb => hb) (fun _ _ => noMoreItems_of_none rfl)
          · exact nm_set h fun h => nm_upd h rfl (fun _ hb => hb) (fun _ _ => noMoreItems_of_none rfl)
  | drop s k =>
    simp only [step]
    split; · exact h
    split
    · exact nm_set h fun h => nm_upd h rfl (fun _ hb => hb)
        (fun hk hn => by subst hk; exact noMoreItems_congr rfl hn)
    · exact nm_set h fun h => nm_upd h rfl (fun _ hb => hb)
        (fun hk hn => by subst hk; exact noMoreItems_congr rfl hn)
  | isclosed s k =>
    simp only [step]; split <;> exact h
  | deliver q =>
    simp only [step]
    split; · exact h
    split; · exact h
    next f rest hout =>
    have hs1 : ShapeInv (st.set q.peer { st.side q.peer with out := rest }) := hs.set_congr q.peer rfl
    have h1 : NM ((st.set q.peer { st.side q.peer with out := rest }).side p) id :=
      nm_set h fun h => nm_congr h rfl rfl
    have h2 : NM (((st.set q.peer { st.side q.peer with out := rest }).set q
        (handle fails ((st.set q.peer { st.side q.peer with out := rest }).side q) (q == .B) f)).side p) id :=
      nm_set h1 fun h => nm_handle (hs1 q) h fails _ f
    split
    · exact nm_set h2 fun h => nm_congr h rfl rfl
    · exact h2
  | execFinish k o =>
    simp only [step]
    split; · exact h
    refine nm_set (s := .B) h fun h => nm_chanClose ?_ k _
    exact nm_upd h rfl (fun _ hb => hb) (fun hk hn => by subst hk; exact noMoreItems_congr rfl hn)
  | cut q =>
    simp only [step]
    split; · exact h
    exact nm_set (nm_set h fun h => nm_epilogue h true) fun h => nm_congr h rfl rfl

/-- C03: once the receiver of a channel has seen its end (callback mode, or only ENDMARKERs queued)
no item ever appears on that channel object again — unless the id is re-opened, which marks it
`broken` -/
theorem C03_no_item_after_end {fails : Item → Bool} {st : State} {p : Side} {id : Nat} :
    ShapeInv st → noMoreItems ((st.side p).chans id) →
      ∀ op, noMoreItems (((step fails st op).2.side p).chans id) ∨
        ((step fails st op).2.side p).broken id = true :=
  fun hs h op => nm_step fails st op hs p id (.inl h)

/-- C03: at the end of a channel `receive` raises -/
theorem C03_receive_at_end {fails : Item → Bool} {st : State} {p : Side} {id : Nat} :
    noMoreItems ((st.side p).chans id) → ((st.side p).chans id).alive = true →
      (step fails st (.receive p id)).1 = .osError ∨ (step fails st (.receive p id)).1 = .eofError ∨
        ∃ e, (step fails st (.receive p id)).1 = .remoteError e := by
  intro hn ha
  rcases hn with hn | ⟨k, hk, hn⟩
  · left; simp [step, ha, hn]
  · cases k with
    | zero => omega
    | succ k =>
      rw [List.replicate_succ] at hn
      right
      simp only [step, ha, hn]
      cases hr : ((st.side p).chans id).rerrs with
      | nil => left; simp
      | cons e es => right; exact ⟨e, by simp⟩

/-! ### why `GotInvAux` is needed -/

/-- an (unreachable) state satisfying `ShapeInv` and `GotInv` in which a callback is registered while
an item is still queued -/
def cexState : State :=
  { a := { initSide 1 with
            chans := fun i => if i = 0 then { created := true, registered := true, alive := true,
                                              queue := some [.item ⟨0, []⟩] } else {},
            cbs := fun i => if i = 0 then some false else none,
            kept := fun i => if i = 0 then [⟨0, []⟩] else [] },
    b := { initSide 2 with out := [.data 0 ⟨1, []⟩] } }

/-- `GotInv` is not inductive relative to `ShapeInv` alone: the auxiliary clause `GotInvAux` is needed -/
theorem GotInv_not_inductive :
    ¬ ∀ (fails : Item → Bool) (st : State) (op : Op),
        ShapeInv st → GotInv st → GotInv (step fails st op).2 := by
  intro h
  have hs : ShapeInv cexState := by
    intro p id
    cases p
    · by_cases hi : id = 0
      · subst hi
        refine ⟨?_, by simp [cexState], by simp [cexState], by simp [cexState], by simp [cexState],
          by simp [cexState], by simp [cexState]⟩
        intro q hq
        refine ⟨[⟨0, []⟩], 0, ?_, by simp [cexState]⟩
        simp [cexState] at hq
        simp [← hq]
      · have : (cexState.side .A).chans id = {} := by simp [cexState, hi]
        show Chan.Shape _
        rw [this]; exact shape_default
    · exact shape_default
  have hg : GotInv cexState := by
    intro p id
    cases p
    · by_cases hi : id = 0
      · subst hi; simp [cexState, initSide, qItems]
      · simp [cexState, initSide, hi, qItems]
    · simp [cexState, initSide, qItems]
  have := (h (fun _ => false) cexState (.deliver .A) hs hg .A 0).1
  simp [step, cexState, initSide, Side.peer, State.set, handle, registerAll, upd, qItems] at this
  exact absurd this (by decide)

end ExecnetVerif.Net
