"""Initiator process of the C11 process-level runs (started by harness/c11.py with PYTHONPATH=<repo>/src).

argv[1] = JSON: topo (popen|via|socket), cls, moment (bootstrap|idle|mid-exec|mid-transfer), mode
(kill|_exit|exit|close), delay, ready (file written when the workers run their activity), ended (file written
with the wall-clock time right before this process ends the connection by itself).
"""
import json
import os
import sys
import threading
import time

import execnet

spec = json.loads(sys.argv[1])
topo, cls, moment, mode = spec["topo"], spec["cls"], spec["moment"], spec["mode"]

PID = "import os\nchannel.send(os.getpid())\n"
BODIES = {
    "idle": None,
    "blocked": PID + "channel.receive()\n",
    "sleep-short": PID + "import time\ntime.sleep(1.0 + channel.receive())\n",
    "sleep-long": PID + "import time\ntime.sleep(30.0 + channel.receive())\n",
    "busy": PID + "while True:\n    pass\n",
    "swallow": PID + "import time\nwhile True:\n    try:\n        time.sleep(1000)\n    except KeyboardInterrupt:\n        pass\n",
    # the executed code replaced / ignores the SIGINT handler: only the final os._exit rung ends it
    "sighandler": PID + "import signal, time\nsignal.signal(signal.SIGINT, lambda *a: None)\nwhile True:\n    time.sleep(0.2)\n",
    "sigign": PID + "import signal, time\nsignal.signal(signal.SIGINT, signal.SIG_IGN)\nwhile True:\n    time.sleep(0.2)\n",
    "mto-retry": PID + "import time\ntime.sleep(30.0 + channel.receive())\n",
    # a receiver callback whose channel object was dropped is left over when the connection ends
    "cb-dropped": PID + "c = channel.gateway.newchannel()\nc.setcallback(lambda x: None, endmarker=None)\ndel c\nimport time\ntime.sleep(30.0 + channel.receive())\n",
    # a large backlog of unread items sits in the channel's queue when the connection ends
    "backlog": PID + "import time\ntime.sleep(30.0 + channel.receive())\n",
    "extra0": PID + "import threading\ndef spin():\n    while True:\n        pass\nthreading.Thread(target=spin, daemon=True).start()\n",
    "extra1": PID + "import time\ntime.sleep(0.4)\n",
    "transfer-in": PID + "while True:\n    channel.receive()\n",
    "transfer-out": PID + "data = b'x' * 200000\nwhile True:\n    channel.send(data)\n",
}


def write_json(path, obj):
    tmp = path + ".tmp"
    with open(tmp, "w") as f:
        json.dump(obj, f)
    os.replace(tmp, path)


group = execnet.Group()
pids = {}
if topo == "popen":
    gw = group.makegateway("popen//execmodel=main_thread_only//id=w" if cls == "mto-retry" else "popen//id=w")
elif topo == "via":
    master = group.makegateway("popen//id=m")
    if moment != "bootstrap":
        pids["m"] = master.remote_exec(PID).receive()
    gw = group.makegateway("popen//via=m//id=w")
elif topo == "socket":
    master = group.makegateway("popen//id=m")
    if moment != "bootstrap":
        pids["m"] = master.remote_exec(PID).receive()
    gw = group.makegateway("socket//installvia=m//id=w")
else:
    raise SystemExit("unknown topology")

channels = []
if moment == "bootstrap":
    # the harness kills this process while (or right after) the gateways come up
    time.sleep(1000)

body = BODIES[cls]
if body is None:
    pids["w"] = gw.remote_exec(PID).receive()
    time.sleep(0.2)  # the body is over, the worker idle
else:
    ch = gw.remote_exec(body)
    channels.append(ch)
    pids["w"] = ch.receive()
    if cls == "mto-retry":
        ch.send(float(spec["delay"]))
        # an overlapping remote_exec is refused with the deadlock text; so is its retry (nothing else may happen to it)
        for _ in range(2):
            c2 = gw.remote_exec("pass")
            try:
                c2.waitclose(5.0)
            except Exception:
                pass
    if cls in ("cb-dropped", "backlog"):
        ch.send(float(spec["delay"]))
        if cls == "backlog":
            for i in range(12000):
                ch.send(i)
    if cls in ("sleep-short", "sleep-long"):
        # the remaining sleep is counted from about the moment the connection ends
        ch.send(float(spec["delay"]))
    if cls == "extra1":
        ch2 = gw.remote_exec(PID + "while True:\n    pass\n")
        channels.append(ch2)
        ch2.receive()
        ch.waitclose()  # first body over: main thread idle, second body on a pool thread
        time.sleep(0.1)
    if cls == "transfer-in":
        def pump():
            data = b"y" * 200000
            try:
                while True:
                    ch.send(data)
            except Exception:
                pass

        threading.Thread(target=pump, daemon=True).start()
        time.sleep(0.2)
    if cls == "transfer-out":
        def drain():
            try:
                while True:
                    ch.receive()
            except Exception:
                pass

        threading.Thread(target=drain, daemon=True).start()
        time.sleep(0.2)

write_json(spec["ready"], {"pids": pids})

if mode == "kill":
    time.sleep(1000)
time.sleep(spec["delay"])
if mode == "_exit":
    write_json(spec["ended"], {"t": time.time()})
    os._exit(0)
elif mode == "exit":
    write_json(spec["ended"], {"t": time.time()})
    sys.exit(0)  # atexit: group.terminate(timeout=1.0)
elif mode == "close":
    write_json(spec["ended"], {"t": time.time()})
    gw._io.close_write()
    time.sleep(1000)
